// vfs-facts: a rustc_private driver that dumps structured MIR (mir_built) facts of one crate as JSON.
//
// Used as RUSTC_WORKSPACE_WRAPPER: argv = [self, <path to rustc>, rustc args...].
// Environment:
//   VFS_FACTS_CRATE  crate name to analyse (default "vfs")
//   VFS_FACTS_OUT    output file (required for the analysed crate)
#![feature(rustc_private)]

extern crate rustc_abi;
extern crate rustc_driver;
extern crate rustc_hir;
extern crate rustc_interface;
extern crate rustc_middle;
extern crate rustc_session;
extern crate rustc_span;

use rustc_driver::Compilation;
use rustc_hir::def::DefKind;
use rustc_hir::def_id::{DefId, LocalDefId, LOCAL_CRATE};
use rustc_middle::mir::{
    self, AggregateKind, BasicBlock, Body, Operand, Place, PlaceElem, Rvalue, StatementKind,
    TerminatorKind, VarDebugInfoContents,
};
use rustc_middle::ty::{self, Instance, InstanceKind, Ty, TyCtxt, TypingEnv};
use rustc_span::Span;
use std::fmt::Write as _;

struct Cb {
    target: String,
}

impl rustc_driver::Callbacks for Cb {
    fn config(&mut self, config: &mut rustc_interface::Config) {
        config.opts.unstable_opts.mir_opt_level = Some(0);
    }

    fn after_expansion<'tcx>(
        &mut self,
        _compiler: &rustc_interface::interface::Compiler,
        tcx: TyCtxt<'tcx>,
    ) -> Compilation {
        let name = tcx.crate_name(LOCAL_CRATE).to_string();
        if name != self.target {
            return Compilation::Continue;
        }
        // skip build scripts / test harness builds
        if tcx.sess.opts.test {
            return Compilation::Continue;
        }
        let out = match std::env::var("VFS_FACTS_OUT") {
            Ok(o) => o,
            Err(_) => return Compilation::Continue,
        };
        let json = dump_crate(tcx, &name);
        std::fs::write(&out, json).expect("cannot write facts");
        Compilation::Continue
    }
}

fn main() {
    let mut args: Vec<String> = std::env::args().collect();
    // wrapper mode: argv[1] is the real rustc path
    if args.len() > 1 && (args[1].ends_with("rustc") || args[1].contains("/rustc")) {
        args.remove(1);
    }
    let target = std::env::var("VFS_FACTS_CRATE").unwrap_or_else(|_| "vfs".to_string());
    let mut cb = Cb { target };
    rustc_driver::run_compiler(&args, &mut cb);
}

// ---------------------------------------------------------------- JSON helpers

fn esc(s: &str) -> String {
    let mut o = String::with_capacity(s.len() + 2);
    o.push('"');
    for c in s.chars() {
        match c {
            '"' => o.push_str("\\\""),
            '\\' => o.push_str("\\\\"),
            '\n' => o.push_str("\\n"),
            '\r' => o.push_str("\\r"),
            '\t' => o.push_str("\\t"),
            c if (c as u32) < 0x20 => {
                let _ = write!(o, "\\u{:04x}", c as u32);
            }
            c => o.push(c),
        }
    }
    o.push('"');
    o
}

fn arr(items: Vec<String>) -> String {
    format!("[{}]", items.join(","))
}

fn obj(items: Vec<(&str, String)>) -> String {
    let v: Vec<String> = items.into_iter().map(|(k, v)| format!("{}:{}", esc(k), v)).collect();
    format!("{{{}}}", v.join(","))
}

fn opt_s(s: Option<String>) -> String {
    match s {
        Some(s) => esc(&s),
        None => "null".into(),
    }
}

// ---------------------------------------------------------------- crate dump

fn span_str(tcx: TyCtxt<'_>, sp: Span) -> String {
    let sm = tcx.sess.source_map();
    // use the call-site for macro-expanded spans so the line is in user code
    let sp = sp.source_callsite();
    let lo = sm.lookup_char_pos(sp.lo());
    let file = match &lo.file.name {
        rustc_span::FileName::Real(r) => r
            .local_path()
            .map(|p| p.display().to_string())
            .unwrap_or_else(|| format!("{:?}", lo.file.name)),
        other => format!("{:?}", other),
    };
    format!("{}:{}", file, lo.line)
}

fn expn_str(sp: Span) -> Option<String> {
    if !sp.from_expansion() {
        return None;
    }
    let d = sp.ctxt().outer_expn_data();
    Some(format!("{:?}", d.kind))
}

fn dump_crate<'tcx>(tcx: TyCtxt<'tcx>, name: &str) -> String {
    // Clone every mir_built body first: later queries (opaque-type reveal during instance
    // resolution) may run borrowck, which steals mir_built.
    let mut owned: Vec<(LocalDefId, DefKind, Body<'tcx>)> = Vec::new();
    for ldid in tcx.hir_body_owners() {
        let kind = tcx.def_kind(ldid);
        match kind {
            DefKind::Fn | DefKind::AssocFn | DefKind::Closure => {}
            _ => continue,
        }
        let body: Body<'tcx> = tcx.mir_built(ldid).borrow().clone();
        owned.push((ldid, kind, body));
    }
    let mut bodies = Vec::new();
    for (ldid, kind, body) in &owned {
        bodies.push(dump_body(tcx, *ldid, *kind, body));
    }

    // ADTs, impls, traits
    let mut adts = Vec::new();
    let mut impls = Vec::new();
    let mut traits = Vec::new();
    let mut statics = Vec::new();
    for id in tcx.hir_crate_items(()).definitions() {
        let did = id.to_def_id();
        match tcx.def_kind(did) {
            DefKind::Struct | DefKind::Enum | DefKind::Union => {
                let adt = tcx.adt_def(did);
                let mut variants = Vec::new();
                for v in adt.variants() {
                    let mut fields = Vec::new();
                    for f in &v.fields {
                        let fty = tcx.type_of(f.did).instantiate_identity().skip_norm_wip();
                        fields.push(obj(vec![
                            ("name", esc(f.name.as_str())),
                            ("ty", esc(&fty.to_string())),
                            ("pub", (f.vis.is_public()).to_string()),
                        ]));
                    }
                    variants.push(obj(vec![("name", esc(v.name.as_str())), ("fields", arr(fields))]));
                }
                adts.push(obj(vec![
                    ("name", esc(&tcx.def_path_str(did))),
                    ("kind", esc(&format!("{:?}", tcx.def_kind(did)))),
                    ("pub", tcx.visibility(did).is_public().to_string()),
                    ("variants", arr(variants)),
                    ("span", esc(&span_str(tcx, tcx.def_span(did)))),
                ]));
            }
            DefKind::Impl { .. } => {
                let trait_ref = tcx.impl_opt_trait_ref(did).map(|t| t.instantiate_identity().skip_norm_wip());
                let self_ty = tcx.type_of(did).instantiate_identity().skip_norm_wip();
                let mut methods = Vec::new();
                for item in tcx.associated_items(did).in_definition_order() {
                    if item.is_fn() {
                        methods.push(obj(vec![
                            ("name", esc(item.name().as_str())),
                            ("path", esc(&tcx.def_path_str(item.def_id))),
                        ]));
                    }
                }
                let derived = tcx.is_automatically_derived(did);
                impls.push(obj(vec![
                    ("trait", opt_s(trait_ref.map(|t| tcx.def_path_str(t.def_id)))),
                    ("trait_ref", opt_s(trait_ref.map(|t| t.to_string()))),
                    ("self_ty", esc(&self_ty.to_string())),
                    ("methods", arr(methods)),
                    ("derived", derived.to_string()),
                    ("span", esc(&span_str(tcx, tcx.def_span(did)))),
                ]));
            }
            DefKind::Trait => {
                let mut methods = Vec::new();
                for item in tcx.associated_items(did).in_definition_order() {
                    if item.is_fn() {
                        methods.push(obj(vec![
                            ("name", esc(item.name().as_str())),
                            ("path", esc(&tcx.def_path_str(item.def_id))),
                            ("has_default", item.defaultness(tcx).has_value().to_string()),
                        ]));
                    }
                }
                traits.push(obj(vec![
                    ("name", esc(&tcx.def_path_str(did))),
                    ("pub", tcx.visibility(did).is_public().to_string()),
                    ("methods", arr(methods)),
                ]));
            }
            DefKind::Static { .. } => {
                statics.push(obj(vec![
                    ("name", esc(&tcx.def_path_str(did))),
                    ("mutable", tcx.is_mutable_static(did).to_string()),
                    ("thread_local", tcx.is_thread_local_static(did).to_string()),
                    ("span", esc(&span_str(tcx, tcx.def_span(did)))),
                ]));
            }
            _ => {}
        }
    }

    obj(vec![
        ("crate", esc(name)),
        ("bodies", arr(bodies)),
        ("adts", arr(adts)),
        ("impls", arr(impls)),
        ("traits", arr(traits)),
        ("statics", arr(statics)),
    ])
}

fn dump_body<'tcx>(tcx: TyCtxt<'tcx>, ldid: LocalDefId, kind: DefKind, body: &Body<'tcx>) -> String {
    let did = ldid.to_def_id();
    let typing_env = TypingEnv::post_analysis(tcx, did);
    let cx = Cx { tcx, body, typing_env };

    // owner info
    let mut impl_info = "null".to_string();
    let mut trait_item_of = "null".to_string();
    let mut vis = "n/a".to_string();
    let mut parent_fn = "null".to_string();
    let mut assoc_name = "null".to_string();
    match kind {
        DefKind::AssocFn => {
            let parent = tcx.parent(did);
            if let DefKind::Impl { .. } = tcx.def_kind(parent) {
                let trait_ref = tcx.impl_opt_trait_ref(parent).map(|t| t.instantiate_identity().skip_norm_wip());
                let self_ty = tcx.type_of(parent).instantiate_identity().skip_norm_wip();
                impl_info = obj(vec![
                    ("trait", opt_s(trait_ref.map(|t| tcx.def_path_str(t.def_id)))),
                    ("self_ty", esc(&self_ty.to_string())),
                    ("derived", tcx.is_automatically_derived(parent).to_string()),
                ]);
            } else if let DefKind::Trait = tcx.def_kind(parent) {
                trait_item_of = esc(&tcx.def_path_str(parent));
            }
            vis = if tcx.visibility(did).is_public() { "pub".into() } else { "restricted".into() };
            assoc_name = esc(tcx.item_name(did).as_str());
        }
        DefKind::Fn => {
            vis = if tcx.visibility(did).is_public() { "pub".into() } else { "restricted".into() };
            assoc_name = esc(tcx.item_name(did).as_str());
        }
        DefKind::Closure => {
            parent_fn = esc(&tcx.def_path_str(tcx.typeck_root_def_id(did)));
            let direct_parent = tcx.parent(did);
            trait_item_of = "null".into();
            impl_info = "null".into();
            let _ = direct_parent;
        }
        _ => {}
    }
    let direct_parent = if let DefKind::Closure = kind { esc(&tcx.def_path_str(tcx.parent(did))) } else { "null".into() };
    let coroutine = tcx.coroutine_kind(did).map(|k| format!("{:?}", k));

    // locals
    let mut locals = Vec::new();
    for (l, decl) in body.local_decls.iter_enumerated() {
        let _ = l;
        locals.push(obj(vec![
            ("ty", esc(&decl.ty.to_string())),
            ("user", decl.is_user_variable().to_string()),
            ("mut", decl.mutability.is_mut().to_string()),
        ]));
    }
    // debug names
    let mut dbg = Vec::new();
    for v in &body.var_debug_info {
        let val = match &v.value {
            VarDebugInfoContents::Place(p) => cx.place(*p),
            VarDebugInfoContents::Const(c) => obj(vec![("const", esc(&c.to_string()))]),
        };
        dbg.push(obj(vec![
            ("name", esc(v.name.as_str())),
            ("val", val),
            ("arg", v.argument_index.map(|a| a.to_string()).unwrap_or("null".into())),
        ]));
    }

    let mut blocks = Vec::new();
    for (bb, data) in body.basic_blocks.iter_enumerated() {
        let _ = bb;
        let mut stmts = Vec::new();
        for st in &data.statements {
            if let Some(s) = cx.stmt(st) {
                stmts.push(s);
            }
        }
        let term = cx.term(data.terminator());
        blocks.push(obj(vec![
            ("stmts", arr(stmts)),
            ("term", term),
            ("cleanup", data.is_cleanup.to_string()),
        ]));
    }

    obj(vec![
        ("id", esc(&tcx.def_path_str(did))),
        ("kind", esc(&format!("{:?}", kind))),
        ("name", assoc_name),
        ("impl", impl_info),
        ("trait_item_of", trait_item_of),
        ("vis", esc(&vis)),
        ("root", parent_fn),
        ("parent", direct_parent),
        ("coroutine", opt_s(coroutine)),
        ("span", esc(&span_str(tcx, body.span))),
        ("end_line", {
            let sm = tcx.sess.source_map();
            let hi = sm.lookup_char_pos(body.span.hi());
            hi.line.to_string()
        }),
        ("arg_count", body.arg_count.to_string()),
        ("locals", arr(locals)),
        ("debug", arr(dbg)),
        ("blocks", arr(blocks)),
    ])
}

struct Cx<'a, 'tcx> {
    tcx: TyCtxt<'tcx>,
    body: &'a Body<'tcx>,
    typing_env: TypingEnv<'tcx>,
}

impl<'a, 'tcx> Cx<'a, 'tcx> {
    fn place(&self, p: Place<'tcx>) -> String {
        let tcx = self.tcx;
        let mut projs = Vec::new();
        let mut pty = mir::PlaceTy::from_ty(self.body.local_decls[p.local].ty);
        for elem in p.projection.iter() {
            let s = match elem {
                PlaceElem::Deref => esc("deref"),
                PlaceElem::Field(f, fty) => {
                    let mut name = f.index().to_string();
                    let mut adt_name = "null".to_string();
                    match pty.ty.kind() {
                        ty::Adt(def, _) => {
                            let vidx = pty.variant_index.unwrap_or(rustc_abi::FIRST_VARIANT);
                            if vidx.index() < def.variants().len() {
                                let v = def.variant(vidx);
                                if f.index() < v.fields.len() {
                                    name = v.fields[f].name.to_string();
                                }
                            }
                            adt_name = esc(&tcx.def_path_str(def.did()));
                        }
                        ty::Closure(..) | ty::Coroutine(..) | ty::CoroutineClosure(..) => {
                            adt_name = esc("<closure-env>");
                        }
                        _ => {}
                    }
                    obj(vec![
                        ("f", f.index().to_string()),
                        ("name", esc(&name)),
                        ("adt", adt_name),
                        ("ty", esc(&fty.to_string())),
                    ])
                }
                PlaceElem::Index(l) => obj(vec![("index", l.index().to_string())]),
                PlaceElem::ConstantIndex { offset, min_length, from_end } => obj(vec![
                    ("cidx", offset.to_string()),
                    ("min", min_length.to_string()),
                    ("from_end", from_end.to_string()),
                ]),
                PlaceElem::Subslice { from, to, from_end } => obj(vec![
                    ("subslice", arr(vec![from.to_string(), to.to_string()])),
                    ("from_end", from_end.to_string()),
                ]),
                PlaceElem::Downcast(name, vidx) => {
                    let mut n = name.map(|s| s.to_string());
                    if n.is_none() {
                        if let ty::Adt(def, _) = pty.ty.kind() {
                            n = Some(def.variant(vidx).name.to_string());
                        }
                    }
                    obj(vec![("downcast", opt_s(n)), ("vidx", vidx.index().to_string())])
                }
                PlaceElem::OpaqueCast(_) => esc("opaque"),
                PlaceElem::UnwrapUnsafeBinder(_) => esc("unwrap_binder"),
            };
            projs.push(s);
            pty = pty.projection_ty(tcx, elem);
        }
        obj(vec![("l", p.local.index().to_string()), ("p", arr(projs))])
    }

    fn fn_const(&self, def_id: DefId, args: ty::GenericArgsRef<'tcx>) -> String {
        let tcx = self.tcx;
        let path = tcx.def_path_str(def_id);
        let path_with_args = tcx.def_path_str_with_args(def_id, args);
        let gargs: Vec<String> = args.iter().map(|a| esc(&a.to_string())).collect();
        let krate = tcx.crate_name(def_id.krate).to_string();
        let mut resolved = "null".to_string();
        let mut resolved_kind = "null".to_string();
        let mut resolved_local = "false".to_string();
        let dk = tcx.def_kind(def_id);
        if matches!(dk, DefKind::Fn | DefKind::AssocFn) {
            let args_erased = tcx.erase_and_anonymize_regions(args);
            if let Ok(Some(inst)) = Instance::try_resolve(tcx, self.typing_env, def_id, args_erased) {
                let rdid = inst.def_id();
                resolved = esc(&tcx.def_path_str(rdid));
                resolved_local = rdid.is_local().to_string();
                resolved_kind = esc(match inst.def {
                    InstanceKind::Item(_) => "item",
                    InstanceKind::Virtual(..) => "virtual",
                    InstanceKind::Intrinsic(_) => "intrinsic",
                    InstanceKind::ClosureOnceShim { .. } => "closure_once_shim",
                    InstanceKind::FnPtrShim(..) => "fn_ptr_shim",
                    InstanceKind::DropGlue(..) => "drop_glue",
                    InstanceKind::CloneShim(..) => "clone_shim",
                    InstanceKind::ReifyShim(..) => "reify_shim",
                    InstanceKind::VTableShim(..) => "vtable_shim",
                    _ => "other",
                });
            }
        }
        // trait info
        let mut trait_name = "null".to_string();
        let mut self_ty = "null".to_string();
        let mut item_name = "null".to_string();
        if matches!(dk, DefKind::AssocFn | DefKind::Fn) {
            item_name = esc(tcx.item_name(def_id).as_str());
        }
        if let DefKind::AssocFn = dk {
            let parent = tcx.parent(def_id);
            match tcx.def_kind(parent) {
                DefKind::Trait => {
                    trait_name = esc(&tcx.def_path_str(parent));
                    if args.len() > 0 {
                        if let Some(t) = args[0].as_type() {
                            self_ty = esc(&t.to_string());
                        }
                    }
                }
                DefKind::Impl { .. } => {
                    let st = tcx.type_of(parent).instantiate(tcx, args).skip_norm_wip();
                    self_ty = esc(&st.to_string());
                    if let Some(tr) = tcx.impl_opt_trait_ref(parent) {
                        trait_name = esc(&tcx.def_path_str(tr.skip_binder().def_id));
                    }
                }
                _ => {}
            }
        }
        obj(vec![
            ("path", esc(&path)),
            ("full", esc(&path_with_args)),
            ("name", item_name),
            ("args", arr(gargs)),
            ("crate", esc(&krate)),
            ("local", def_id.is_local().to_string()),
            ("trait", trait_name),
            ("self_ty", self_ty),
            ("resolved", resolved),
            ("resolved_kind", resolved_kind),
            ("resolved_local", resolved_local),
        ])
    }

    fn operand(&self, op: &Operand<'tcx>) -> String {
        match op {
            Operand::Copy(p) => obj(vec![("c", self.place(*p))]),
            Operand::Move(p) => obj(vec![("m", self.place(*p))]),
            Operand::Constant(c) => {
                let ty = c.const_.ty();
                if let ty::FnDef(def_id, args) = ty.kind() {
                    return obj(vec![("fn", self.fn_const(*def_id, args))]);
                }
                let mut items = vec![("ty", esc(&ty.to_string())), ("v", esc(&c.const_.to_string()))];
                // scalar value if available
                if let Some(bits) = c.const_.try_eval_scalar_int(self.tcx, self.typing_env) {
                    items.push(("int", esc(&format!("{:?}", bits))));
                }
                obj(vec![("k", obj(items))])
            }
            #[allow(unreachable_patterns)]
            _ => obj(vec![("other", esc(&format!("{:?}", op)))]),
        }
    }

    fn rvalue(&self, rv: &Rvalue<'tcx>) -> String {
        let tcx = self.tcx;
        match rv {
            Rvalue::Use(op, ..) => obj(vec![("use", self.operand(op))]),
            Rvalue::Ref(_, bk, p) => obj(vec![
                ("ref", self.place(*p)),
                ("mut", matches!(bk, mir::BorrowKind::Mut { .. }).to_string()),
                ("fake", matches!(bk, mir::BorrowKind::Fake(_)).to_string()),
            ]),
            Rvalue::RawPtr(_, p) => obj(vec![("rawptr", self.place(*p))]),
            Rvalue::Cast(kind, op, ty) => obj(vec![
                ("cast", esc(&format!("{:?}", kind))),
                ("op", self.operand(op)),
                ("ty", esc(&ty.to_string())),
            ]),
            Rvalue::BinaryOp(op, ab) => obj(vec![
                ("bin", esc(&format!("{:?}", op))),
                ("a", self.operand(&ab.0)),
                ("b", self.operand(&ab.1)),
            ]),
            Rvalue::UnaryOp(op, a) => obj(vec![("un", esc(&format!("{:?}", op))), ("a", self.operand(a))]),
            Rvalue::Discriminant(p) => {
                let pty = p.ty(&self.body.local_decls, tcx).ty;
                let mut names = Vec::new();
                let mut adt = "null".to_string();
                if let ty::Adt(def, _) = pty.kind() {
                    adt = esc(&tcx.def_path_str(def.did()));
                    for v in def.variants() {
                        names.push(esc(v.name.as_str()));
                    }
                }
                obj(vec![("discr", self.place(*p)), ("variants", arr(names)), ("adt", adt)])
            }
            Rvalue::CopyForDeref(p) => obj(vec![("cfd", self.place(*p))]),
            Rvalue::Repeat(op, n) => obj(vec![("repeat", self.operand(op)), ("n", esc(&n.to_string()))]),
            Rvalue::Aggregate(kind, ops) => {
                let ops_s: Vec<String> = ops.iter().map(|o| self.operand(o)).collect();
                let k = match &**kind {
                    AggregateKind::Array(t) => obj(vec![("kind", esc("array")), ("ty", esc(&t.to_string()))]),
                    AggregateKind::Tuple => obj(vec![("kind", esc("tuple"))]),
                    AggregateKind::Adt(did, vidx, _args, _, _) => {
                        let def = tcx.adt_def(*did);
                        let v = def.variant(*vidx);
                        let fields: Vec<String> = v.fields.iter().map(|f| esc(f.name.as_str())).collect();
                        obj(vec![
                            ("kind", esc("adt")),
                            ("adt", esc(&tcx.def_path_str(*did))),
                            ("variant", esc(v.name.as_str())),
                            ("fields", arr(fields)),
                        ])
                    }
                    AggregateKind::Closure(did, _) => {
                        obj(vec![("kind", esc("closure")), ("def", esc(&tcx.def_path_str(*did)))])
                    }
                    AggregateKind::Coroutine(did, _) => {
                        obj(vec![("kind", esc("coroutine")), ("def", esc(&tcx.def_path_str(*did)))])
                    }
                    AggregateKind::CoroutineClosure(did, _) => {
                        obj(vec![("kind", esc("coroutine_closure")), ("def", esc(&tcx.def_path_str(*did)))])
                    }
                    AggregateKind::RawPtr(..) => obj(vec![("kind", esc("rawptr"))]),
                };
                obj(vec![("agg", k), ("ops", arr(ops_s))])
            }
            Rvalue::ThreadLocalRef(did) => obj(vec![("tls", esc(&tcx.def_path_str(*did)))]),
            _ => obj(vec![("other", esc(&format!("{:?}", rv)))]),
        }
    }

    fn stmt(&self, st: &mir::Statement<'tcx>) -> Option<String> {
        let line = span_str(self.tcx, st.source_info.span);
        let exp = opt_s(expn_str(st.source_info.span));
        match &st.kind {
            StatementKind::Assign(b) => {
                let (p, rv) = &**b;
                Some(obj(vec![
                    ("k", esc("assign")),
                    ("lhs", self.place(*p)),
                    ("rv", self.rvalue(rv)),
                    ("line", esc(&line)),
                    ("exp", exp),
                ]))
            }
            StatementKind::StorageDead(l) => {
                Some(obj(vec![("k", esc("dead")), ("l", l.index().to_string())]))
            }
            StatementKind::StorageLive(l) => {
                Some(obj(vec![("k", esc("live")), ("l", l.index().to_string())]))
            }
            StatementKind::SetDiscriminant { place, variant_index } => Some(obj(vec![
                ("k", esc("setdiscr")),
                ("lhs", self.place(**place)),
                ("vidx", variant_index.index().to_string()),
            ])),
            _ => None,
        }
    }

    fn bb(&self, b: BasicBlock) -> String {
        b.index().to_string()
    }

    fn term(&self, t: &mir::Terminator<'tcx>) -> String {
        let line = esc(&span_str(self.tcx, t.source_info.span));
        let exp = opt_s(expn_str(t.source_info.span));
        let mut v: Vec<(&str, String)> = match &t.kind {
            TerminatorKind::Goto { target } => vec![("k", esc("goto")), ("target", self.bb(*target))],
            TerminatorKind::SwitchInt { discr, targets } => {
                let ts: Vec<String> =
                    targets.iter().map(|(v, b)| arr(vec![esc(&v.to_string()), self.bb(b)])).collect();
                let dty = discr.ty(&self.body.local_decls, self.tcx);
                vec![
                    ("k", esc("switch")),
                    ("discr", self.operand(discr)),
                    ("discr_ty", esc(&dty.to_string())),
                    ("targets", arr(ts)),
                    ("otherwise", self.bb(targets.otherwise())),
                ]
            }
            TerminatorKind::UnwindResume => vec![("k", esc("resume"))],
            TerminatorKind::UnwindTerminate(_) => vec![("k", esc("terminate"))],
            TerminatorKind::Return => vec![("k", esc("return"))],
            TerminatorKind::Unreachable => vec![("k", esc("unreachable"))],
            TerminatorKind::Drop { place, target, .. } => {
                vec![("k", esc("drop")), ("place", self.place(*place)), ("target", self.bb(*target))]
            }
            TerminatorKind::Call { func, args, destination, target, fn_span, .. } => {
                let a: Vec<String> = args.iter().map(|o| self.operand(&o.node)).collect();
                let fty = func.ty(&self.body.local_decls, self.tcx);
                vec![
                    ("k", esc("call")),
                    ("fn", self.operand(func)),
                    ("fn_ty", esc(&fty.to_string())),
                    ("args", arr(a)),
                    ("dest", self.place(*destination)),
                    ("target", target.map(|b| self.bb(b)).unwrap_or("null".into())),
                    ("fn_line", esc(&span_str(self.tcx, *fn_span))),
                ]
            }
            TerminatorKind::TailCall { func, args, .. } => {
                let a: Vec<String> = args.iter().map(|o| self.operand(&o.node)).collect();
                vec![("k", esc("tailcall")), ("fn", self.operand(func)), ("args", arr(a))]
            }
            TerminatorKind::Assert { cond, expected, msg, target, .. } => vec![
                ("k", esc("assert")),
                ("cond", self.operand(cond)),
                ("expected", expected.to_string()),
                ("msg", esc(&format!("{:?}", msg))),
                ("target", self.bb(*target)),
            ],
            TerminatorKind::Yield { value, resume, resume_arg, drop } => vec![
                ("k", esc("yield")),
                ("value", self.operand(value)),
                ("resume", self.bb(*resume)),
                ("resume_arg", self.place(*resume_arg)),
                ("drop", drop.map(|b| self.bb(b)).unwrap_or("null".into())),
            ],
            TerminatorKind::CoroutineDrop => vec![("k", esc("coroutine_drop"))],
            TerminatorKind::FalseEdge { real_target, imaginary_target } => vec![
                ("k", esc("falseedge")),
                ("target", self.bb(*real_target)),
                ("imaginary", self.bb(*imaginary_target)),
            ],
            TerminatorKind::FalseUnwind { real_target, .. } => {
                vec![("k", esc("falseunwind")), ("target", self.bb(*real_target))]
            }
            TerminatorKind::InlineAsm { .. } => vec![("k", esc("asm"))],
        };
        v.push(("line", line));
        v.push(("exp", exp));
        obj(v)
    }
}

#[allow(dead_code)]
fn _unused<'tcx>(_: Ty<'tcx>) {}
