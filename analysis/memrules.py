"""Guard recognisers for the in-memory backend (Table M), the path layer (Table P) and the OS-enforced
guards of the std calls PhysicalFS delegates to (Table O).  Shared by C01, C02, C03, C05, C09, C11, C17."""
import os
from .terms import get_tracer, short, strip, fmt, fmt_guard, walk, call_of
from .inter import Inter
from .panics import Discharger, norm, nguard, unchecked_arith

MAP_LOOKUPS = ("HashMap::get", "HashMap::get_mut", "BTreeMap::get", "BTreeMap::get_mut")
MAP_MUTATORS = ("HashMap::insert", "HashMap::remove", "HashMap::remove_entry", "HashMap::clear", "HashMap::retain",
                "HashMap::drain", "HashMap::extend", "VacantEntry::insert", "OccupiedEntry::insert",
                "OccupiedEntry::remove", "OccupiedEntry::remove_entry", "Entry::or_insert", "Entry::or_insert_with",
                "Entry::or_default", "Entry::and_modify", "Entry::insert_entry", "BTreeMap::insert", "BTreeMap::remove")


def same_key(k, key):
    return norm(k) == norm(key)


class GuardView:
    """predicates over a list of normalised guards"""

    def __init__(self, gs, inter=None):
        self.gs = gs
        self.inter = inter

    def _lookup_key(self, t):
        """if t is get(map,k) / ok_or(get(map,k), kind) / okval of those: (k, kind_or_None)"""
        t0 = t
        while t0[0] in ("okval",):
            t0 = t0[1]
        kind = None
        if t0[0] == "call" and t0[1] == "Option::ok_or" and len(t0[2]) == 2:
            kk = t0[2][1]
            if kk[0] == "agg":
                kind = kk[2]
            t0 = t0[2][0]
        if t0[0] == "call" and t0[1] in MAP_LOOKUPS and len(t0[2]) == 2:
            return t0[2][1], kind
        return None

    def exists(self, key):
        """(found, error kind on the failing edge or None)"""
        for g in self.gs:
            if g[0] == "variant" and g[2] == "ok":
                lk = self._lookup_key(g[1])
                if lk and same_key(lk[0], key):
                    return True, lk[1]
            if g[0] == "variant" and g[3] == "Occupied" and g[1][0] == "call" and g[1][1] == "HashMap::entry" \
                    and same_key(g[1][2][1], key):
                return True, None
            if g[0] == "bool" and g[2] is True and g[1][0] == "call" and g[1][1] == "HashMap::contains_key" \
                    and len(g[1][2]) == 2 and same_key(g[1][2][1], key):
                return True, None
            if g[0] == "bool" and g[2] is True:
                t = _peel(g[1])
                if t[0] == "call" and short_name(t[1]) == "exists" and len(t[2]) == 2 and same_key(t[2][1], key):
                    return True, None
        return False, None

    def vacant(self, key):
        for g in self.gs:
            if g[0] == "variant" and g[3] == "Vacant" and g[1][0] == "call" and g[1][1] == "HashMap::entry" \
                    and same_key(g[1][2][1], key):
                return True
            if g[0] == "variant" and g[2] == "err":
                lk = self._lookup_key(g[1])
                if lk and same_key(lk[0], key) and g[3] == "None":
                    return True
            if g[0] == "bool" and g[2] is False and g[1][0] == "call" and g[1][1] == "HashMap::contains_key" \
                    and len(g[1][2]) == 2 and same_key(g[1][2][1], key):
                return True
        return False

    def _entry_of(self, t, key):
        """t is the entry value obtained by looking `key` up"""
        t0 = t
        for _ in range(4):
            if t0[0] == "okval":
                lk = self._lookup_key(t0[1])
                if lk and same_key(lk[0], key):
                    return True
                t0 = t0[1]
                continue
            if t0[0] == "vfield" and t0[2] == "Occupied":
                e = t0[1]
                return e[0] == "call" and e[1] == "HashMap::entry" and same_key(e[2][1], key)
            break
        return False

    def type_is(self, key, want):
        """the entry at key has file_type == want ('File'/'Directory')"""
        other = "Directory" if want == "File" else "File"
        for g in self.gs:
            if g[0] == "bool" and g[1][0] == "call" and g[1][1] in ("PartialEq::ne", "PartialEq::eq") and len(g[1][2]) == 2:
                a, b = g[1][2]
                if a[0] == "field" and a[2] == "file_type" and self._entry_of(a[1], key) and b[0] == "agg":
                    v = b[2]
                    is_ne = g[1][1] == "PartialEq::ne"
                    holds_eq = (g[2] is False) if is_ne else (g[2] is True)
                    if holds_eq and v == want:
                        return True
                    if (not holds_eq) and v == other:
                        return True
            if g[0] == "variant" and g[1][0] == "field" and g[1][2] == "file_type" and self._entry_of(g[1][1], key) \
                    and g[3] == want:
                return True
        return False

    def parent_key(self, key):
        """Index(key, ..rfind(key,'/')) as normalised term pattern check"""
        def is_parent(k):
            k = norm(k)
            # rfind('/').map(|i| &key[..i]).unwrap_or_default(): same prefix for every non-root canonical path
            if k[0] == "call" and k[1] in ("Option::unwrap_or_default", "Option::unwrap_or") and k[2] and \
                    (len(k[2]) == 1 or k[2][1] == ("str", "")) and k[2][0][0] == "call" and k[2][0][1] == "Option::map" and \
                    len(k[2][0][2]) == 2 and k[2][0][2][1][0] == "closure" and self.inter is not None:
                cb = self.inter.facts.body(k[2][0][2][1][1])
                src = k[2][0][2][0]
                if cb is not None and src[0] == "call" and src[1] == "str::rfind" and same_key(src[2][0], key):
                    # the closure lives in the callee: its captured `path` is the callee's own argument; re-key it
                    cases = self.inter.ret_cases(cb)

                    def rekey(t):
                        if not isinstance(t, tuple):
                            return t
                        if t and t[0] == "arg" and len(t) > 3 and t[3] != key[3] and t[2] == "path":
                            return norm(key)
                        return tuple(rekey(x) for x in t)
                    return bool(cases) and all(is_parent(rekey(norm(ct))) for ct, _, _ in cases)
                return False
            if k[0] == "call" and k[1] == "Index::index" and len(k[2]) == 2 and same_key(k[2][0], key):
                r = k[2][1]
                if r[0] == "agg" and r[1].endswith("RangeTo"):
                    e = dict(r[3]).get("end")
                    if e and e[0] == "call" and e[1] in ("Option::unwrap_or", "Option::unwrap_or_default") and e[2] and \
                            (len(e[2]) == 1 or e[2][1] == ("int", 0)):
                        # rfind(..).unwrap_or(0): identical for every non-root canonical path (they all contain '/')
                        e = ("okval", e[2][0])
                    if e and e[0] == "okval" and e[1][0] == "call" and e[1][1] == "str::rfind" and same_key(e[1][2][0], key) \
                            and e[1][2][1] == ("char", "/"):
                        return True
            return False
        return is_parent

    def parent_exists(self, key):
        isp = self.parent_key(key)
        for g in self.gs:
            for cand in self._exists_keys(g):
                if isp(cand):
                    return True
        return False

    def parent_is_dir(self, key):
        """some guard says: the entry looked up under parent(key) has file_type == Directory"""
        isp = self.parent_key(key)

        def entry_key(t):
            t0 = t
            for _ in range(4):
                if t0[0] == "okval":
                    lk = self._lookup_key(t0[1])
                    if lk:
                        return lk[0]
                    t0 = t0[1]
                    continue
                break
            return None
        for g in self.gs:
            a = want = None
            if g[0] == "bool" and g[1][0] == "call" and g[1][1] in ("PartialEq::ne", "PartialEq::eq") and len(g[1][2]) == 2:
                x, y = g[1][2]
                if x[0] == "field" and x[2] == "file_type" and y[0] == "agg":
                    is_ne = g[1][1] == "PartialEq::ne"
                    holds_eq = (g[2] is False) if is_ne else (g[2] is True)
                    if (holds_eq and y[2] == "Directory") or ((not holds_eq) and y[2] == "File"):
                        a = x[1]
            if g[0] == "variant" and g[1][0] == "field" and g[1][2] == "file_type" and g[3] == "Directory":
                a = g[1][1]
            if a is not None:
                k = entry_key(a)
                if k is not None and isp(k):
                    return True
        return False

    def _exists_keys(self, g):
        out = []
        if g[0] == "variant" and g[2] == "ok":
            lk = self._lookup_key(g[1])
            if lk:
                out.append(lk[0])
        if g[0] == "bool" and g[2] is True and g[1][0] == "call" and g[1][1] == "HashMap::contains_key" and len(g[1][2]) == 2:
            out.append(g[1][2][1])
        if g[0] == "bool" and g[2] is True:
            t = _peel(g[1])
            if t[0] == "call" and short_name(t[1]) == "exists" and len(t[2]) == 2:
                out.append(t[2][1])
            # `opt.map_or(false, |i| map.contains_key(&key[..i]))` / `opt.is_some_and(|i| ..)` being true: the closure ran and said yes
            if t[0] == "call" and t[1] in ("Option::map_or", "Option::is_some_and") and self.inter is not None and \
                    (t[1] == "Option::is_some_and" or (len(t[2]) == 3 and t[2][1] == ("int", 0))):
                clo = strip(t[2][-1])
                cb = self.inter.facts.body(clo[1]) if clo[0] == "closure" else None
                if cb is not None:
                    cases = self.inter.ret_cases(cb)
                    if len(cases) == 1:
                        c = norm(cases[0][0])
                        # the closure sits in a helper: its captured variables are the helper's parameters, while the guard's own
                        # receiver (`rfind(<actual path>, '/')`) is already in the caller's name space — unify the two
                        o_ = norm(t[2][0])
                        if o_[0] == "call" and o_[2]:
                            for x in walk(c):
                                if x[0] == "okval" and x[1][0] == "call" and x[1][1] == o_[1] and x[1][2] and x[1][2][0] != o_[2][0] and \
                                        x[1][2][0][0] == "arg":
                                    src_, dst_ = x[1][2][0], o_[2][0]

                                    def repl(y):
                                        if y == src_:
                                            return dst_
                                        if isinstance(y, tuple):
                                            return tuple(repl(z) for z in y)
                                        return y
                                    c = repl(c)
                                    break
                        if c[0] == "call" and c[1] == "HashMap::contains_key" and len(c[2]) == 2:
                            out.append(c[2][1])
        return out

    def _is_child_prefix(self, t, key):
        """t is format!("{}/", key) (or key + "/")"""
        from .facts import decode_fmt_template
        t = _peel(t)
        while t[0] == "call" and t[1] in ("Into::into", "From::from", "hint::must_use", "String::as_str", "Deref::deref", "AsRef::as_ref") and t[2]:
            t = t[2][0]
        if not (t[0] == "call" and t[1] == "fmt::format" and t[2]):
            return False
        a = t[2][0]
        if not (a[0] == "call" and short_name(a[1]) == "new" and len(a[2]) == 2 and a[2][0][0] == "bytes"):
            return False
        tpl = decode_fmt_template(a[2][0][1])
        args = a[2][1][1] if a[2][1][0] == "array" else ()
        if [k for k, _ in tpl] != ["arg", "lit"] or tpl[1][1] != "/":
            return False
        x = args[tpl[0][1]] if tpl[0][1] < len(args) else ("unknown",)
        if x[0] == "call" and x[2]:
            x = x[2][0]
        return same_key(x, key)

    def _no_child_scan(self, g, key, subst=None):
        """guard `!map.keys().any(|k| k.starts_with(key + "/") [&& !k[prefix.len()..].contains('/')])`: no key is a child.
        The scan may sit in a private helper (`!has_children(&map, &prefix)`): then the helper's single return term is
        looked at with its parameters replaced by the arguments of the call."""
        if g[0] == "bool" and g[2] is False and g[1][0] == "call" and isinstance(g[1][1], str) and g[1][1] != "Iterator::any" \
                and self.inter is not None and subst is None:
            hb = self.inter.body_of_call(g[1])
            if hb is not None and hb.kind != "Closure" and not (hb.impl and hb.impl.get("trait")) and hb.vis != "pub":
                cases = self.inter.ret_cases(hb)
                if len(cases) == 1:
                    actual = {i: norm(a) for i, a in enumerate(g[1][2])}

                    def sub(t):
                        if not isinstance(t, tuple):
                            return t
                        if t and t[0] == "arg" and len(t) > 3 and t[3] == hb.id and t[1] in actual:
                            return actual[t[1]]
                        return tuple(sub(x) for x in t)
                    return self._no_child_scan(("bool", norm(cases[0][0]), False), key, subst=sub)
            return False
        if not (g[0] == "bool" and g[2] is False and g[1][0] == "call" and g[1][1] == "Iterator::any" and len(g[1][2]) == 2):
            return False
        src, clo = g[1][2]
        if not (src[0] == "call" and src[1] in ("HashMap::keys", "BTreeMap::keys", "HashMap::iter", "BTreeMap::iter")):
            return False
        if clo[0] != "closure" or self.inter is None:
            return False
        cb = self.inter.facts.body(clo[1])
        if cb is None:
            return False
        D = _discharger(self.inter.facts)
        cases = self.inter.ret_cases(cb)
        if not cases:
            return False
        saw_true = False
        for ct, _, bb in cases:
            c = norm(ct)
            gs = D.guards(cb, bb)
            sw = None
            for g2 in gs:
                if g2[0] == "bool" and g2[1][0] == "call" and g2[1][1] == "str::starts_with" and len(g2[1][2]) == 2 and \
                        self._is_child_prefix(subst(g2[1][2][1]) if subst else g2[1][2][1], key):
                    sw = g2[2]
            if c[0] == "call" and c[1] == "str::starts_with" and len(c[2]) == 2 and \
                    self._is_child_prefix(subst(c[2][1]) if subst else c[2][1], key):
                saw_true = True   # |k| k.starts_with(prefix): true for every descendant
                continue
            if c == ("int", 0):
                # false is only allowed for keys that are not children: under !starts_with(prefix)
                if sw is not False:
                    return False
                continue
            if sw is not True:
                return False
            if c == ("int", 1):
                saw_true = True
                continue
            # !k[prefix.len()..].contains('/'): true for every direct child
            if c[0] == "un" and c[1] == "Not" and c[2][0] == "call" and c[2][1] == "str::contains" and c[2][2][1] == ("char", "/"):
                saw_true = True
                continue
            return False
        return saw_true

    def _no_child_loop(self, g, key):
        """the `for k in map.keys() { if k.starts_with(key + "/") && !k[prefix.len()..].contains('/') { return Err(..) } }` spelling of
        the scan: the site lies behind the loop's exhaustion edge (`next()` is None), and every way round the loop passes a branch
        outcome that says "this key is not a direct child" (not below the prefix, or deeper than one level)"""
        if not (g[0] == "variant" and len(g) > 3 and g[3] == "None") or self.inter is None:
            return False
        t = _peel(g[1])
        if not (t[0] == "call" and short_name(t[1]) == "next" and len(t) > 3 and t[3] and t[2]):
            return False
        from .terms import walk as _walk
        if not any(x[0] == "call" and x[1] in ("HashMap::keys", "BTreeMap::keys", "HashMap::iter", "BTreeMap::iter") for x in _walk(t[2][0])):
            return False
        facts = self.inter.facts
        b = facts.body(t[3][0])
        if b is None:
            return False
        h = t[3][1]
        tr = get_tracer(facts, b)
        cfg = tr.cfg
        L = cfg.loop_blocks(h)
        cycles = []
        for e in cfg.edges:
            if e[0] == h and e[1] in L:
                ps = cfg.paths(e[1], lambda x: x == h, limit=200)
                if ps is None:
                    return False
                cycles += [[e] + p for p in ps]
        if not cycles:
            return False
        from .panics import nguard as _ng
        for path in cycles:
            ok = False
            for (s_, d_, label) in path:
                if label is None or b.blocks[s_].term.kind != "switch":
                    continue
                for g2 in (_ng(x) for x in tr.edge_pred(b.blocks[s_].term, label, s_)):
                    if g2[0] == "bool" and g2[1][0] == "call" and g2[1][1] == "str::starts_with" and len(g2[1][2]) == 2 and \
                            g2[2] is False and self._is_child_prefix(g2[1][2][1], key):
                        ok = True
                    if g2[0] == "bool" and g2[1][0] == "call" and g2[1][1] == "str::contains" and len(g2[1][2]) == 2 and \
                            g2[2] is True and g2[1][2][1] == ("char", "/"):
                        ok = True
            if not ok:
                return False
        return True

    def empty_dir(self, key):
        for g in self.gs:
            if self._no_child_scan(g, key) or self._no_child_loop(g, key):
                return True
        for g in self.gs:
            if g[0] == "bool" and g[1][0] == "call" and g[1][1] in ("Option::is_some", "Option::is_none") and g[1][2]:
                want_none = (g[1][1] == "Option::is_some" and g[2] is False) or (g[1][1] == "Option::is_none" and g[2] is True)
                x = _peel(g[1][2][0])
                if want_none and x[0] == "call" and short_name(x[1]) in ("next",) and x[2]:
                    it = x[2][0]
                    while it[0] in ("okval", "await"):
                        it = it[1]
                    if it[0] == "call" and short_name(it[1]) == "read_dir" and len(it[2]) == 2 and same_key(it[2][1], key):
                        return True
        return False


_DISCHARGERS = {}


def _discharger(facts):
    d = _DISCHARGERS.get(id(facts))
    if d is None or d.facts is not facts:
        d = Discharger(facts)
        _DISCHARGERS.clear()
        _DISCHARGERS[id(facts)] = d
    return d


def _peel(t):
    while t[0] in ("okval", "await"):
        t = t[1]
    return t


def short_name(p):
    if not isinstance(p, str):
        return ""
    return p.split("::")[-1]


class MemoryModel:
    """mutation / publication sites of an in-memory backend and their guards"""

    def __init__(self, facts, self_ty, trait_suffix, records_path=None):
        self.facts = facts
        self.self_ty = self_ty
        self.inter = Inter(facts)
        self.D = Discharger(facts)
        self.ops = facts.impl_methods(trait_suffix, self_ty)
        self.asyncw = "Async" in self_ty

    def code(self, b):
        return self.inter.code_body(b)

    def key_arg(self, b):
        """the `path` argument term of the operation (as seen from its code body)"""
        cb = self.code(b)
        tr = get_tracer(self.facts, cb)
        # in the outer fn it is argument 1; inside the coroutine it resolves to the same ('arg', 1, 'path', outer)
        return ("arg", 1, b.name_of_local(2) or "path", b.id)

    def guards(self, cb, bb):
        return self.D.guards(cb, bb)

    def path_guard_sets(self, cb, bb):
        tr = get_tracer(self.facts, cb)
        sets = tr.path_guard_sets(bb)
        if sets is None:
            return None
        out = []
        for gs in sets:
            out.append([nguard(g) for g in self.inter.expand_guards(gs)])
        return out

    def mutation_sites(self, b):
        """[(code body, bb, short callee, key term)] direct map mutations in the op (incl. closures)"""
        out = []
        for cb in self.inter.code_bodies(b):
            tr = get_tracer(self.facts, cb)
            for blk in cb.calls():
                t = blk.term
                sh = short(t.callee() or "")
                if sh in MAP_MUTATORS:
                    key = norm(tr.operand(t.args[1])) if len(t.args) > 1 else None
                    out.append((cb, blk.idx, sh, key, t.line))
            # the whole map replaced at once (`handle.files = rebuilt;`): counts as inserting every new key
            mapf = self.map_fields()
            for blk in cb.blocks:
                if blk.cleanup:
                    continue
                for st in blk.stmts:
                    if st.kind == "assign" and not st.lhs.is_local():
                        fs = st.lhs.fields()
                        if fs and fs[-1] in mapf:
                            out.append((cb, blk.idx, "map replaced (insert of every new key)", None, st.line))
        return out

    def map_fields(self):
        """names of struct fields of the backend's module whose type is the key->entry map (identified by type)"""
        if not hasattr(self, "_mapf"):
            mod = self.self_ty.rsplit("::", 1)[0] + "::"
            self._mapf = {f["name"] for name, a in self.facts.adts.items() if name.startswith(mod)
                          for v in a["variants"] for f in v["fields"]
                          if f["ty"].startswith(("std::collections::HashMap<", "std::collections::BTreeMap<", "std::collections::hash_map::HashMap<"))}
        return self._mapf

    def field_writes(self, b):
        """[(code body, bb, field, line)] writes to fields of a map entry (through get_mut)"""
        out = []
        for cb in self.inter.code_bodies(b):
            tr = get_tracer(self.facts, cb)
            for blk in cb.blocks:
                if blk.cleanup:
                    continue
                for st in blk.stmts:
                    if st.kind == "assign" and not st.lhs.is_local():
                        fs = st.lhs.fields()
                        if not fs:
                            continue
                        base = norm(tr.local(st.lhs.local))
                        if any(x[0] == "call" and x[1] in ("HashMap::get_mut",) for x in walk(base)):
                            out.append((cb, blk.idx, fs[-1], st.line, base))
                # moving a field of a looked-up entry out / replacing it in place (`mem::take(&mut entry.content)`)
                t = blk.term
                if t.kind == "call" and short(t.callee() or "") in (
                        "mem::take", "mem::replace", "mem::swap", "Arc::make_mut", "Vec::clear", "Vec::truncate", "Vec::extend_from_slice",
                        "Vec::push", "Vec::append", "Vec::drain", "Vec::resize", "Vec::split_off", "Vec::insert", "Vec::remove"):
                    for a in t.args[:2] if short(t.callee() or "").startswith("mem::") else t.args[:1]:
                        x = norm(tr.operand(a))
                        # the field itself, or what is behind it (`Arc::get_mut(&mut entry.content)` -> `mem::take(bytes)`)
                        for f_ in walk(x):
                            if f_[0] == "field" and any(y[0] == "call" and y[1] in ("HashMap::get_mut", "HashMap::entry", "HashMap::get")
                                                         for y in walk(f_[1])):
                                out.append((cb, blk.idx, f_[2], t.line, f_[1]))
                                break
        return out

    def handle_sites(self, b, suffixes):
        """[(code body, bb, adt, line)] constructions of handle structs (reader/writer) in the op"""
        out = []
        for cb in self.inter.code_bodies(b):
            for blk in cb.blocks:
                if blk.cleanup:
                    continue
                for st in blk.stmts:
                    if st.kind == "assign" and st.rv.kind == "agg" and st.rv.agg.get("kind") == "adt" and \
                            st.rv.agg["adt"].endswith(suffixes):
                        out.append((cb, blk.idx, st.rv.agg["adt"], st.line))
        return out

    def ok_return_sites(self, b):
        cb = self.code(b)
        out = []
        for ct, gs, bb in self.inter.ret_cases(b):
            if self.inter.case_polarity(ct) == "ok":
                out.append((cb, bb, cb.blocks[bb].term.line))
        return out

    def err_reachable_after(self, cb, bb):
        """is an Err return reachable after the mutation in block bb — other than through the failing outcome
        of that mutation itself (e.g. `remove(k).ok_or(NotFound)?`: on the None edge nothing was removed)"""
        tr = get_tracer(self.facts, cb)
        cfg = tr.cfg
        site = (cb.id, bb)
        blocked = set()
        for blk in cb.blocks:
            if blk.cleanup or blk.term.kind != "switch":
                continue
            dt = tr.operand(blk.term.discr)
            own = any(x[0] == "call" and x[3] == site for x in walk(dt))
            if not own:
                continue
            for (s, d, label) in cfg.edges:
                if s != blk.idx or label is None:
                    continue
                for g in tr.edge_pred(blk.term, label):
                    if g[0] == "variant" and g[2] == "err":
                        blocked.add((s, d))
        seen = set()
        st = [(bb, y) for y in cfg.succ[bb]]
        while st:
            (p, x) = st.pop()
            if (p, x) in blocked or x in seen:
                continue
            seen.add(x)
            blk = cb.blocks[x]
            for s in blk.stmts:
                if s.kind == "assign" and s.lhs.local == 0 and s.lhs.is_local() and s.rv.kind == "agg" and \
                        s.rv.agg.get("variant") == "Err":
                    return True
            t = blk.term
            if t.kind == "call" and t.dest is not None and t.dest.local == 0 and short(t.callee() or "") == "FromResidual::from_residual":
                return True
            st.extend((x, y) for y in cfg.succ[x])
        return False


# ---------------------------------------------------------------------------------------------- Table O
# What the OS enforces for the std call PhysicalFS delegates to (frozen from POSIX/Linux semantics).
# guards: E = target exists, F = target is not a directory, D = target is a directory, V = target vacant,
#         P = parent is an existing directory, M = directory empty
TABLE_O = {
    "mkdir": {"P", "V"},
    "open:create+trunc+write": {"P", "F"},        # File::create
    "open:append": {"E", "F"},                    # OpenOptions::append(true)
    "open:read": {"E"},                           # File::open: a directory CAN be opened on Linux
    "opendir": {"E", "D"},
    "unlink": {"E", "F"},
    "rmdir": {"E", "D", "M"},
    "stat": {"E"},
    "utimens": {"E"},
    "access": set(),
}
