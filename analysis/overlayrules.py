"""OverlayFS rules: Table U (union guards), resolver order, merged listing, whiteout-marker protocol.
Shared by C09, C10, C01 (R01.5), C03 (R03.5), C05 (R05.5), C19 (R19.4), C15 (async twin)."""
from .terms import get_tracer, short, strip, fmt, fmt_guard, walk, call_of
from .facts import decode_fmt_template
from .inter import Inter
from .pathflow import World, PathFlow, MUTATING
from .panics import Discharger, norm, nguard, unchecked_arith
from .pathrules import sname, peel


def literal_pieces(t):
    """non-empty literal string pieces inside a term (str constants and format templates)"""
    out = []
    for x in walk(t):
        if x[0] == "str" and x[1]:
            out.append(x[1])
        if x[0] == "bytes":
            for kind, v in decode_fmt_template(x[1]):
                if kind == "lit" and v:
                    out.append(v)
    return out


class Overlay:
    def __init__(self, facts, world, D=None):
        self.facts = facts
        self.w = world
        self.inter = Inter(facts)
        self.pf = PathFlow(facts, world, self.inter)
        self.D = D or Discharger(facts)
        self.ops = facts.impl_methods(world.trait.rsplit("::", 1)[1], world.overlay)
        self.helpers = facts.inherent_methods(world.overlay)

    # ------------------------------------------------------------ classification of path-valued terms
    def origin_class(self, t):
        orig = self.pf.fs_origin(t)
        cls = set()
        for o in orig:
            if o[0] == "index" and o[1][0] == "field" and o[2] == ("int", 0):
                cls.add("upper")
            elif o[0] in ("index", "elem"):
                cls.add("anylayer")
            else:
                cls.add("other")
        return cls

    def literals(self, t):
        """literal pieces of the strings *joined onto layer paths* on the way to t (not of error messages a helper may also build)"""
        own = lambda b: bool(b.impl) and b.impl["self_ty"] == self.w.overlay
        out = []
        for x in walk(self.inter.inline_ret(t, depth=3, pred=own)):
            if x[0] == "call" and isinstance(x[1], str) and sname(x[1]) == "join" and len(x[2]) >= 2:
                out.extend(literal_pieces(x[2][1]))
        return out

    def is_marker(self, t):
        """an upper-layer path built with a literal component (the whiteout namespace)"""
        return self.origin_class(t) == {"upper"} and bool(self.literals(t))

    def is_upper_plain(self, t):
        return self.origin_class(t) == {"upper"} and not self.literals(t)

    def is_resolved(self, t):
        return "anylayer" in self.origin_class(t)

    def mentions_path_arg(self, t):
        return any(x[0] == "arg" and x[1] == 1 for x in walk(t))

    def reserved_literal(self):
        """the reserved marker directory name, read from the code: the first path component of the leading
        literal of every string joined onto the upper layer to build marker paths"""
        lits = set()
        for b in list(self.helpers.values()) + list(self.ops.values()):
            for cb in self.inter.code_bodies(b):
                tr = get_tracer(self.facts, cb)
                for s in self.inter.sites(cb):
                    if sname(s.path) == "join" and len(s.args) == 2:
                        for x in walk(tr.operand(s.args[1])):
                            lead = None
                            if x[0] == "str" and x[1]:
                                lead = x[1]
                            if x[0] == "bytes":
                                pieces = decode_fmt_template(x[1])
                                if pieces and pieces[0][0] == "lit":
                                    lead = pieces[0][1]
                            if lead:
                                first = lead.strip("/").split("/")[0]
                                if first:
                                    lits.add(first)
        return lits

    # ------------------------------------------------------------ sites
    def sites(self, b):
        """[(code body, site, tracer)] for all call sites of an op including closures/coroutines"""
        out = []
        for cb in self.inter.code_bodies(b):
            tr = get_tracer(self.facts, cb)
            for s in self.inter.sites(cb):
                out.append((cb, s, tr))
        return out

    def path_sites(self, b, names):
        """call sites of path methods `names` with their (normalised) receiver"""
        out = []
        for cb, s, tr in self.sites(b):
            if sname(s.path) in names and s.self_ty and s.self_ty.endswith("VfsPath") and s.args:
                out.append((cb, s, tr, tr.operand(s.args[0])))
        return out

    def guards(self, cb, bb):
        return self.D.guards(cb, bb)

    # ------------------------------------------------------------ private helpers of the overlay are read as part of the op
    def is_private_helper(self, c):
        return c is not None and c.kind != "Closure" and c.vis != "pub" and bool(c.impl) and not c.impl.get("trait") \
            and c.impl["self_ty"] == self.w.overlay

    def deep_sites(self, b, depth=3, _sub=None, _outer=(), _seen=(), _anchor=None, _osets=None):
        """[(code body, site, tracer, sub, outer)] for the call sites of op `b` *and* of the private overlay helpers it calls
        (a step of the protocol extracted into `fn clear_marker(&self, path)` is still a step of the op).  `sub` maps a term
        of the body the site lies in into b's name space (helper parameters replaced by the actual arguments), `outer` are
        the guards that hold at the chain of helper call sites, already in b's name space"""
        return [x[:5] for x in self.deep_sites_x(b, depth, _sub, _outer, _seen, _anchor, _osets)]

    def deep_sites_x(self, b, depth=3, _sub=None, _outer=(), _seen=(), _anchor=None, _osets=None):
        """deep_sites plus, per site, the *anchor* (code body, block) — the call site in the operation's own code through which
        the site is reached (the site itself when it lies in the operation) — and a thunk giving the per-path guard sets that
        lead to the site, in b's name space (call-chain paths x paths inside the helper)"""
        sub = _sub or (lambda t: t)
        out = []
        for cb, s, tr in self.sites(b):
            anchor = _anchor or (cb, s.bb)

            def sets_fn(cb=cb, bb=s.bb, sub=sub, osets=_osets):
                own = self.path_guard_sets(cb, bb)
                if own is None:
                    return None
                own = [[(g[0], sub(g[1])) + tuple(g[2:]) for g in gs] for gs in own]
                if osets is None:
                    return own
                up = osets()
                if up is None:
                    return None
                res = [u + o for u in up for o in own]
                return res if len(res) <= 600 else None
            out.append((cb, s, tr, sub, tuple(_outer), anchor, sets_fn))
            h = self.inter.local_callee(s)
            if depth > 0 and self.is_private_helper(h) and h.id != b.id and h.id not in _seen:
                actuals = tuple(sub(tr.operand(a)) for a in s.args)
                ids = self.inter.callee_ids(h)
                sub2 = (lambda ids_, act_: (lambda t: self.inter.subst(t, ids_, act_)))(ids, actuals)
                here = tuple((g[0], sub(g[1])) + tuple(g[2:]) for g in self.guards(cb, s.bb))
                out.extend(self.deep_sites_x(h, depth - 1, sub2, tuple(_outer) + here, tuple(_seen) + (b.id,), anchor, sets_fn))
        return out

    def deep_path_sites(self, b, names):
        """path-method call sites `names` in op b or its private helpers: (cb, site, tracer, receiver in b's name space,
        guards at the site in b's name space including those of the helper call chain)"""
        return [x[:5] for x in self.deep_path_sites_x(b, names)]

    def deep_path_sites_x(self, b, names):
        """deep_path_sites plus anchor and path-set thunk (see deep_sites_x)"""
        out = []
        for cb, s, tr, sub, outer, anchor, sets_fn in self.deep_sites_x(b):
            if sname(s.path) in names and s.self_ty and s.self_ty.endswith("VfsPath") and s.args:
                gs = [(g[0], sub(g[1])) + tuple(g[2:]) for g in self.guards(cb, s.bb)] + list(outer)
                out.append((cb, s, tr, sub(tr.operand(s.args[0])), gs, anchor, sets_fn))
        return out

    def ok_returns(self, b, depth=2):
        """[(guards, line, guard sets | None)] for every way `b` can return without an error, in b's name space.  A return that
        hands on the result of a private overlay helper (`self.mark_removed(path).await` as the tail) is that helper's own
        successful returns, under the guards of the call"""
        from .terms import passthrough_of
        out = []
        cb0 = self.inter.code_body(b)
        for ct, _, bb in self.inter.ret_cases(b):
            pol = self.inter.case_polarity(ct)
            if pol == "err":
                continue
            gs = list(self.guards(cb0, bb))
            line = cb0.blocks[bb].term.line
            if pol == "unknown" and depth > 0:
                pt = passthrough_of(norm(ct))
                while pt[0] == "await":
                    pt = pt[1]
                h = self.inter.body_of_call(pt) if pt[0] == "call" and isinstance(pt[1], str) else None
                if self.is_private_helper(h) and h.id != b.id:
                    ids = self.inter.callee_ids(h)
                    sets0 = self.path_guard_sets(cb0, bb)
                    for hgs, hline, hsets in self.ok_returns(h, depth - 1):
                        sg = [self.inter.subst_guard(g, ids, pt[2]) for g in hgs]
                        ss = None
                        if sets0 is not None and hsets is not None:
                            ss = [a + [self.inter.subst_guard(g, ids, pt[2]) for g in hs] for a in sets0 for hs in hsets]
                            if len(ss) > 600:
                                ss = None
                        out.append((sg + gs, line, ss))
                    continue
            out.append((gs, line, self.path_guard_sets(cb0, bb)))
        return out

    def entries_of(self, h):
        """the trait operations of the overlay that reach the private helper `h` through private helpers only"""
        if not hasattr(self, "_entries"):
            self._entries = {}
            for op in self.ops.values():
                for cb, s, tr, sub, outer in self.deep_sites(op):
                    c = self.inter.local_callee(s)
                    if self.is_private_helper(c):
                        self._entries.setdefault(c.id, [])
                        if op not in self._entries[c.id]:
                            self._entries[c.id].append(op)
        return self._entries.get(h.id, [])

    def _raw_guard_sets(self, cb, bb, depth):
        tr = get_tracer(self.facts, cb)
        sets = tr.path_guard_sets(bb)
        if sets is None:
            return None
        if depth <= 0:
            return sets
        out = []
        for gs in sets:
            alts_ = [list(gs)]
            for g in gs:
                if g[0] != "variant" or g[2] != "ok":
                    continue
                c = call_of(strip(g[1]))
                if c is None:
                    continue
                h = self.inter.body_of_call(("call",) + tuple(c))
                if not self.is_private_helper(h) or h.id == cb.id:
                    continue
                # the helper returned Ok: along one of its own successful paths (a disjunction, not the guards common to all)
                hcb = self.inter.code_body(h)
                ids = self.inter.callee_ids(h)
                hsets = []
                for ct, _, rbb in self.inter.ret_cases(h):
                    if self.inter.case_polarity(ct) == "err":
                        continue
                    ss = self._raw_guard_sets(hcb, rbb, depth - 1)
                    if ss is None:
                        return None
                    hsets.extend([[self.inter.subst_guard(x, ids, c[1]) for x in s_] for s_ in ss])
                if hsets:
                    alts_ = [a + h_ for a in alts_ for h_ in hsets]
                    if len(alts_) > 400:
                        return None
            out.extend(alts_)
        return out

    def path_guard_sets(self, cb, bb):
        sets = self._raw_guard_sets(cb, bb, 2)
        if sets is None:
            return None
        return [[nguard(g) for g in self.inter.expand_guards(gs)] for gs in sets]

    # ------------------------------------------------------------ guard recognisers (union predicates)
    def _self_call(self, t, name):
        """t is (awaited/?-unwrapped) call of the overlay's own trait method `name` on self; returns its key arg"""
        t = peel(t)
        if t[0] == "call" and sname(t[1]) == name and len(t[2]) >= 2 and t[2][0][0] == "arg" and t[2][0][1] == 0:
            return t[2][1]
        return None

    def is_key(self, k):
        k = norm(k)
        return k[0] == "arg" and k[1] == 1

    def is_parent_key(self, k):
        k = norm(k)
        if k[0] == "call" and k[1] == "Index::index" and len(k[2]) == 2 and self.is_key(k[2][0]):
            r = k[2][1]
            if r[0] == "agg" and r[1].endswith("RangeTo"):
                e = dict(r[3]).get("end")
                return bool(e) and e[0] == "okval" and e[1][0] == "call" and e[1][1] == "str::rfind" and self.is_key(e[1][2][0])
        return False

    def u_exists(self, gs, keypred, value=True):
        for g in gs:
            if g[0] == "bool" and g[2] is value:
                k = self._self_call(g[1], "exists")
                if k is not None and keypred(k):
                    return True
            if value and g[0] == "variant" and g[2] == "ok":
                # a successful resolver lookup of the key
                t = peel(g[1])
                if t[0] == "call" and t[2] and t[2][0][0] == "arg" and t[2][0][1] == 0 and len(t[2]) == 2 and keypred(t[2][1]):
                    b = self.inter.body_of_call(t)
                    if b is not None and b.impl and b.impl["self_ty"] == self.w.overlay and self._is_resolver(b):
                        return True
        return False

    def _is_resolver(self, b):
        """an overlay helper that returns a path of 'any layer' provenance (the read resolver)"""
        cases = self.inter.ret_cases(b)
        for ct, _, _ in cases:
            if self.inter.case_polarity(ct) == "ok" and "anylayer" in self.origin_class(ct):
                return True
        return False

    def u_type(self, gs, keypred, want):
        other = "Directory" if want == "File" else "File"
        for g in gs:
            if g[0] == "variant" and g[1][0] == "field" and g[1][2] == "file_type":
                k = self._self_call(g[1][1], "metadata")
                if k is not None and keypred(k) and g[3] == want:
                    return True
            if g[0] == "bool" and g[1][0] == "call" and g[1][1] in ("PartialEq::eq", "PartialEq::ne") and len(g[1][2]) == 2:
                a, b = g[1][2]
                if a[0] == "field" and a[2] == "file_type" and b[0] == "agg":
                    k = self._self_call(a[1], "metadata")
                    if k is not None and keypred(k):
                        eq = (g[2] is True) if g[1][1] == "PartialEq::eq" else (g[2] is False)
                        if (eq and b[2] == want) or (not eq and b[2] == other):
                            return True
            # resolved path's own is_file()/is_dir()
            if g[0] == "bool" and g[2] is True:
                t = peel(g[1])
                if t[0] == "call" and sname(t[1]) == ("is_file" if want == "File" else "is_dir") and t[2]:
                    r = peel(t[2][0])
                    if r[0] == "call" and len(r[2]) == 2 and keypred(r[2][1]):
                        return True
        return False

    def u_empty(self, gs, keypred):
        for g in gs:
            if g[0] == "bool" and g[1][0] == "call" and g[1][1] in ("Option::is_some", "Option::is_none") and g[1][2]:
                none = (g[1][1] == "Option::is_some" and g[2] is False) or (g[1][1] == "Option::is_none" and g[2] is True)
                x = peel(g[1][2][0])
                if none and x[0] == "call" and sname(x[1]) == "next" and x[2]:
                    k = self._self_call(x[2][0], "read_dir")
                    if k is not None and keypred(k):
                        return True
        return False

    def u_listable(self, gs, keypred):
        """read_dir(self, key) succeeded: the union entry is a directory in every layer that has it"""
        for g in gs:
            if g[0] == "variant" and g[2] == "ok":
                k = self._self_call(g[1], "read_dir")
                if k is not None and keypred(k):
                    return True
        return False
