"""Rules on the hand-written in-memory file handles and on what the backends hand out
(C04 R04.1–R04.3, C14 R14.1–R14.6, C19 R19.1–R19.2)."""
from .terms import get_tracer, short, strip, fmt, walk, call_of, passthrough_of, alts
from .inter import Inter
from .panics import Discharger, norm, unchecked_arith
from .pathrules import sname, peel


def adt_fields(facts, ty):
    a = facts.adts.get(ty)
    if not a:
        return []
    return [f for v in a["variants"] for f in v["fields"]]


def handle_types(facts, asyncw):
    """(reader type, writer type) of the in-memory backend: structs of the memory module implementing Seek/Read
    (reader: has an integer position field) resp. Write (writer: has a Cursor field)"""
    mod = "async_vfs::impls::memory::" if asyncw else "impls::memory::"
    reader = writer = None
    for name, a in facts.adts.items():
        if not name.startswith(mod) or (not asyncw and name.startswith("async_vfs")):
            continue
        fs = adt_fields(facts, name)
        tys = [f["ty"] for f in fs]
        if any(t in ("u64", "usize") for t in tys) and any("Vec<u8>" in t for t in tys):
            reader = name
        if any("Cursor<" in t for t in tys):
            writer = name
    return reader, writer


def trait_method(facts, self_ty, trait_suffixes, name):
    for b in facts.bodies:
        if b.impl and b.impl["self_ty"] == self_ty and b.impl["trait"] and b.name == name and \
                any(b.impl["trait"].endswith(s) for s in trait_suffixes):
            return b
    return None


class Handles:
    def __init__(self, facts, asyncw, D=None):
        self.facts = facts
        self.asyncw = asyncw
        self.D = D or Discharger(facts)
        self.inter = self.D.inter
        self.reader, self.writer = handle_types(facts, asyncw)
        self.pos_field = None
        self.content_field = None
        if self.reader:
            for f in adt_fields(facts, self.reader):
                if f["ty"] in ("u64", "usize"):
                    self.pos_field = f["name"]
                if "Vec<u8>" in f["ty"]:
                    self.content_field = f["name"]

    # ---------------------------------------------------------------- helpers
    def refs_position(self, t):
        return any(x[0] == "field" and x[2] == self.pos_field for x in walk(t))

    def refs_length(self, t):
        for x in walk(t):
            if x[0] == "call" and x[1] in ("Vec::len", "slice::len") and x[2] and \
                    any(y[0] == "field" and y[2] == self.content_field for y in walk(x[2][0])):
                return True
        return False

    def inline1(self, t):
        """normalised term with in-crate helper calls (one level) replaced by their single return term"""
        def pred(b):
            return bool(b.impl) and b.impl["self_ty"] == self.reader
        return norm(self.inter.inline_ret(t, depth=2, pred=pred))

    # ---------------------------------------------------------------- R14.2 / R14.3 reader seek
    def seek_rules(self, rep, rule2="R14.2", rule3="R14.3"):
        n = 0
        if not self.reader:
            rep.fail(rule2, "memory", "reader type found", "no in-memory reader struct with a position field")
            return 0
        b = trait_method(self.facts, self.reader, ("::Seek", "AsyncSeek"), "poll_seek" if self.asyncw else "seek")
        if b is None:
            rep.fail(rule2, self.reader, "Seek implemented by hand", "no seek method found")
            return 0
        tr = get_tracer(self.facts, b)
        pos_arg = 2 if self.asyncw else 1   # (self, cx, pos) vs (self, pos)
        arms = {"Start": [], "Current": [], "End": []}
        # terms produced in blocks that are dominated by exactly one arm guard
        for blk in b.blocks:
            if blk.cleanup:
                continue
            gs = self.D.guards(b, blk.idx)
            arm = None
            for g in gs:
                if g[0] == "variant" and g[1][0] == "arg" and g[1][1] == pos_arg and g[3] in arms:
                    arm = g[3]
            if arm is None:
                continue
            for st in blk.stmts:
                if st.kind == "assign":
                    arms[arm].append((self.inline1(tr.rvalue(st.rv, frozenset())), st.line, st))
            t = blk.term
            if t.kind == "call":
                for a in t.args:
                    arms[arm].append((self.inline1(tr.operand(a)), t.line, None))
        for arm in ("Start", "Current", "End"):
            n += 1
            rep.ob(rule2, b.id, "seek handles SeekFrom::%s" % arm, bool(arms[arm]), "%d terms in the arm" % len(arms[arm]), b.span)
        # End: length, never the cursor
        e_len = any(self.refs_length(t) for t, _, _ in arms["End"])
        e_pos = [(t, l) for t, l, _ in arms["End"] if self.refs_position(t)]
        c_pos = any(self.refs_position(t) for t, _, _ in arms["Current"])
        c_len = [(t, l) for t, l, _ in arms["Current"] if self.refs_length(t)]
        n += 4
        rep.ob(rule2, b.id, "End is relative to the content length", e_len, "" if e_len else
               "the End arm never reads the length of the content", b.span)
        rep.ob(rule2, b.id, "End does not depend on the cursor", not e_pos, "" if not e_pos else
               "the End arm reads the cursor position (%s): seeking relative to the end gives a wrong target once the "
               "cursor has moved" % fmt(e_pos[0][0])[:60], e_pos[0][1] if e_pos else b.span)
        rep.ob(rule2, b.id, "Current is relative to the cursor", c_pos, "" if c_pos else "the Current arm never reads the cursor", b.span)
        rep.ob(rule2, b.id, "Current does not depend on the length", not c_len, "" if not c_len else
               "the Current arm reads the content length", c_len[0][1] if c_len else b.span)
        # the offset of End / Current enters the target as given: an arm that clamps it (`min(offset, 0)`: "nothing to address behind
        # the end") parks the cursor somewhere else than a cursor would, and the position reported and every later relative seek differ
        CLAMPS = ("cmp::min", "cmp::max", "Ord::min", "Ord::max", "Ord::clamp", "i64::abs", "i64::saturating_abs", "i64::signum",
                  "i64::saturating_neg", "i64::rem_euclid", "i64::min", "i64::max", "i64::clamp")
        for arm in ("Current", "End"):
            clamped = [(t, l) for t, l, _ in arms[arm] for x in walk(norm(t))
                       if x[0] == "call" and isinstance(x[1], str) and x[1] in CLAMPS and
                       any(y[0] == "vfield" and y[2] == arm for a_ in x[2] for y in walk(a_))]
            n += 1
            rep.ob(rule2, b.id, "%s(o): the offset is used as given" % arm, not clamped, "" if not clamped else
                   "the %s arm passes its offset through %s: targets on one side are moved (seeking past the end is allowed, and the "
                   "position returned is the one asked for)" % (arm, fmt(clamped[0][0])[:50]), clamped[0][1] if clamped else b.span)
        # Start: the payload becomes the position
        s_ok = False
        for blk in b.blocks:
            if blk.cleanup:
                continue
            for st in blk.stmts:
                if st.kind == "assign" and not st.lhs.is_local() and self.pos_field in st.lhs.fields():
                    v = norm(tr.rvalue(st.rv, frozenset()))
                    gs = self.D.guards(b, blk.idx)
                    if any(g[0] == "variant" and g[3] == "Start" for g in gs) and v[0] == "vfield" and v[2] == "Start":
                        s_ok = True
        n += 1
        rep.ob(rule2, b.id, "Start(o) sets the position to o", s_ok, "", b.span)
        # ---- R14.3 failure: only for a negative / overflowing target, never for "past the end"
        cases = self.inter.ret_cases(b)
        errs = []
        for ct, _, bb in cases:
            c = norm(ct)
            inner = c
            if inner[0] == "agg" and inner[2] == "Ready" and inner[3]:
                inner = inner[3][0][1]
            if inner[0] == "agg" and inner[2] == "Err":
                errs.append((inner, bb))
        n += 1
        rep.ob(rule3, b.id, "seek can fail", len(errs) >= 1, "%d Err return(s)" % len(errs) if errs else
               "seek has no Err exit: a target before the start of the file is accepted (and wraps around)", b.span)
        for e, bb in errs:
            gs = self.D.guards(b, bb)
            neg = False
            past_end = None
            for g in gs:
                txt = repr(g)
                if g[0] == "variant" and g[2] == "err" and ("checked_add" in txt or "checked_sub" in txt or "checked_add_signed" in txt):
                    neg = True
                if g[0] == "bool" and g[1][0] == "bin" and g[1][1] in ("Lt",) and g[1][3] == ("int", 0) and g[2] is True:
                    neg = True
                if g[0] == "bool" and g[1][0] == "bin" and g[1][1] in ("Ge", "Gt", "Lt", "Le") and \
                        (self.refs_length(self.inline1(g[1][2])) or self.refs_length(self.inline1(g[1][3]))):
                    past_end = g
            n += 2
            rep.ob(rule3, b.id, "Err only for a negative or overflowing target", neg, "" if neg else
                   "an Err exit is not on the failing edge of the checked signed addition", b.blocks[bb].term.line)
            rep.ob(rule3, b.id, "a target beyond the end is not rejected", past_end is None, "" if past_end is None else
                   "seek fails when the target is compared against the content length: seeking past the end must be allowed",
                   b.blocks[bb].term.line)
        # stores into the position: Start payload or the Some payload of a checked operation (no wrapping cast)
        for blk in b.blocks:
            if blk.cleanup:
                continue
            for st in blk.stmts:
                if st.kind == "assign" and not st.lhs.is_local() and self.pos_field in st.lhs.fields():
                    v = norm(tr.rvalue(st.rv, frozenset()))
                    CH = ("u64::checked_add", "u64::checked_sub", "u64::checked_add_signed", "usize::checked_add", "usize::checked_sub")

                    def checked(x):
                        if x[0] == "phi":
                            return all(checked(y) for y in x[1])
                        if x[0] == "okval":
                            y = x[1]
                            if y[0] == "phi":
                                return all(z[0] == "call" and z[1] in CH for z in y[1])
                            return y[0] == "call" and y[1] in CH
                        return False
                    ok = (v[0] == "vfield" and v[2] == "Start") or checked(v)
                    n += 1
                    rep.ob(rule3, b.id, "position stored from a checked computation", ok, "" if ok else
                           "the new position %s is not the result of checked arithmetic: a negative target wraps around instead of failing" % fmt(v)[:60], st.line)
        return n

    # ---------------------------------------------------------------- R14.4 reader read
    def read_rules(self, rep, rule="R14.4"):
        n = 0
        if not self.reader:
            return 0
        b = trait_method(self.facts, self.reader, ("::Read", "AsyncRead"), "poll_read" if self.asyncw else "read")
        if b is None:
            rep.fail(rule, self.reader, "Read implemented by hand", "no read method found")
            return 0
        tr = get_tracer(self.facts, b)
        buf_arg = 2 if self.asyncw else 1
        # the window n
        copy = None
        for blk in b.calls():
            if short(blk.term.callee() or "") == "slice::copy_from_slice":
                copy = blk
        n += 1
        rep.ob(rule, b.id, "bytes are copied with copy_from_slice", copy is not None, "", b.span)
        nterm = None
        if copy is not None:
            a = [norm(tr.operand(x)) for x in copy.term.args]
            dst, src = a
            okd = dst[0] == "call" and dst[1] in ("IndexMut::index_mut", "Index::index") and dst[2][0][0] == "arg" and dst[2][0][1] == buf_arg and \
                dst[2][1][0] == "agg" and dst[2][1][1].endswith("RangeTo")
            if okd:
                nterm = dict(dst[2][1][3]).get("end")
            oks = False
            start = None
            if src[0] == "call" and src[1] == "Index::index" and src[2][1][0] == "agg" and src[2][1][1].endswith("ops::Range"):
                d = dict(src[2][1][3])
                start, end = d.get("start"), d.get("end")
                ar = unchecked_arith(end) if end else None
                base_ok = any(x[0] == "field" and x[2] == self.content_field for x in walk(src[2][0]))
                oks = base_ok and start is not None and start[0] == "field" and start[2] == self.pos_field and ar is not None and \
                    ar[0] == "Add" and ar[1] == start and (nterm is None or ar[2] == nterm)
            n += 2
            rep.ob(rule, b.id, "destination is buf[..n]", okd, fmt(dst)[:70], copy.term.line)
            rep.ob(rule, b.id, "source is content[position .. position + n]", oks, "" if oks else
                   "the copied range is not content[position..position+n]: %s" % fmt(src)[:90], copy.term.line)
            if nterm is not None:
                w = self.D.window_of(nterm)
                okw = w is not None and any(x[0] == "field" and x[2] == self.content_field for x in walk(w[0])) and \
                    w[1][0] == "field" and w[1][2] == self.pos_field
                has_buf = any(x[0] == "call" and x[1] == "slice::len" and x[2] and x[2][0][0] == "arg" and x[2][0][1] == buf_arg for x in walk(nterm))
                n += 1
                rep.ob(rule, b.id, "n = min(buf.len(), len(content) saturating- position)", okw and has_buf, "" if okw and has_buf else
                       "the amount read is %s" % fmt(nterm)[:80], copy.term.line)
        # position advanced by n
        adv = False
        for blk in b.blocks:
            if blk.cleanup:
                continue
            for st in blk.stmts:
                if st.kind == "assign" and not st.lhs.is_local() and self.pos_field in st.lhs.fields():
                    v = norm(tr.rvalue(st.rv, frozenset()))
                    ar = unchecked_arith(v)
                    if ar and ar[0] == "Add" and ar[1][0] == "field" and ar[1][2] == self.pos_field and (nterm is None or ar[2] == nterm):
                        adv = True
        n += 1
        rep.ob(rule, b.id, "position advances by n", adv, "" if adv else "the cursor is not advanced by exactly the number of bytes copied", b.span)
        # ... after the bytes were taken: value origins do not distinguish `self.position` read before the update from the same
        # expression read after it, so the order is a rule of its own — no access to the content is reachable from the update
        cfg = tr.cfg
        late = []
        for blk in b.blocks:
            if blk.cleanup:
                continue
            wi = [i for i, st in enumerate(blk.stmts) if st.kind == "assign" and not st.lhs.is_local() and self.pos_field in st.lhs.fields()]
            if not wi:
                continue
            for blk2 in b.calls():
                sh2 = short(blk2.term.callee() or "")
                if sh2 not in ("Index::index", "slice::copy_from_slice", "Vec::as_slice", "slice::get", "Deref::deref"):
                    continue
                if not any(x[0] == "field" and x[2] == self.content_field for a2 in blk2.term.args for x in walk(norm(tr.operand(a2)))):
                    continue
                if blk2.idx == blk.idx or cfg.strictly_reaches(blk.idx, blk2.idx):
                    late.append(blk2.term.line)
        n += 1
        rep.ob(rule, b.id, "position is advanced only after the bytes were copied", not late, "" if not late else
               "the content is still accessed after the cursor was moved: that access uses the new position (bytes are returned "
               "out of order, the last byte indexes past the end)", late[0] if late else b.span)
        # returns n
        retn = False
        for ct, _, bb in self.inter.ret_cases(b):
            c = norm(ct)
            if c[0] == "agg" and c[2] == "Ready" and c[3]:
                c = c[3][0][1]
            if c[0] == "agg" and c[2] == "Ok" and c[3]:
                v = c[3][0][1]
                if nterm is not None and v == nterm:
                    retn = True
        n += 1
        rep.ob(rule, b.id, "returns n", retn, "", b.span)
        # ... and nothing else: a constant count (the early `Ok(0)`) is answered only where the window is known to be empty — under a
        # branch on the buffer's length or on content length vs position.  A zero decided by other state of the handle (a "reached
        # the end once" flag) withholds bytes that a seek has made readable again
        for ct, _, bb in self.inter.ret_cases(b):
            c = norm(ct)
            if c[0] == "agg" and c[2] == "Ready" and c[3]:
                c = c[3][0][1]
            if not (c[0] == "agg" and c[2] == "Ok" and c[3]):
                continue
            v = c[3][0][1]
            if nterm is not None and v == nterm:
                continue
            windowish = False
            for g in self.D.guards(b, bb):
                if len(g) > 1 and isinstance(g[1], tuple):
                    for x in walk(g[1]):
                        if (x[0] == "field" and x[2] == self.pos_field) or \
                                (x[0] == "call" and x[1] in ("slice::len", "slice::is_empty") and x[2] and x[2][0][0] == "arg" and x[2][0][1] == buf_arg):
                            windowish = True
            okc = v == ("int", 0) and windowish
            n += 1
            rep.ob(rule, b.id, "a count other than n is 0 for an empty window", okc, "" if okc else
                   "read answers %s on a path where neither the buffer's length nor position vs length was tested: the count is decided by "
                   "other state of the handle" % fmt(v)[:40], b.blocks[bb].term.line if bb < len(b.blocks) else b.span)
        # the one-byte arm (if any) reads the same start
        for blk in b.calls():
            t = blk.term
            if short(t.callee() or "") == "Index::index":
                a = [norm(tr.operand(x)) for x in t.args]
                if a[1][0] == "field" and a[1][2] == self.pos_field:
                    n += 1
                    okb = any(x[0] == "field" and x[2] == self.content_field for x in walk(a[0]))
                    rep.ob(rule, b.id, "single-byte arm reads content[position]", okb, fmt(a[0])[:50], t.line)
                elif a[1][0] not in ("agg",) and any(x[0] == "field" and x[2] == self.content_field for x in walk(a[0])):
                    n += 1
                    rep.fail(rule, b.id, "single-byte arm reads content[position]",
                             "a single element is read at %s instead of the cursor position" % fmt(a[1])[:50], t.line)
        return n

    def handle_surface_rules(self, rep, rule):
        """the in-memory handles implement only the required methods of their I/O traits (everything else — read_to_end,
        read_exact, write_all, … — is derived by the trait from those, so the rules on read / seek / write / flush decide it
        too), and a read handle is a private snapshot: it holds no reference to the shared filesystem state"""
        n = 0
        required = {"Read": {"read"}, "Seek": {"seek"}, "Write": {"write", "flush"},
                    "AsyncRead": {"poll_read"}, "AsyncSeek": {"poll_seek"}, "AsyncWrite": {"poll_write", "poll_flush", "poll_close"},
                    "Drop": {"drop"}}
        for ty in (self.reader, self.writer):
            if not ty:
                continue
            for imp in self.facts.impls:
                if imp["self_ty"] != ty or not imp["trait"] or imp.get("derived"):
                    continue
                tname = imp["trait"].split("::")[-1].split("<")[0]
                if tname not in required:
                    continue
                extra = sorted({m["name"] for m in imp["methods"]} - required[tname])
                n += 1
                rep.ob(rule, ty, "%s for %s overrides only the required methods" % (tname, ty.split("::")[-1]), not extra,
                       "" if not extra else "%s::%s is overridden on the in-memory handle: a second, hand-written data path next to the "
                       "one the cursor rules decide (its cursor arithmetic is not covered by them)" % (tname, extra[0]), imp["span"])
        if self.reader:
            shared = [f["name"] for f in adt_fields(self.facts, self.reader) if "RwLock" in f["ty"] or "Mutex" in f["ty"]]
            n += 1
            rep.ob(rule, self.reader, "the read handle holds no reference to the shared filesystem state", not shared,
                   "" if not shared else "the reader keeps %s: what it returns can change while it is being read (bytes of two "
                   "versions of the file in one read_to_end)" % shared, "")
        return n

    def flush_publishes(self, rep, rule):
        """async writer: poll_flush must reach the map insertion (the sync writer publishes in flush); R15.5"""
        n = 0
        for b in self.facts.bodies:
            if b.impl and b.impl["self_ty"] == self.writer and b.name == "poll_flush" and b.kind != "Closure":
                reach = self.inter.reachable([b], through_dyn=False)
                ins = any(s.short == "HashMap::insert" for rb in reach.values() for s in self.inter.sites(rb))
                n += 1
                rep.ob(rule, b.id, "async writer publishes its buffer on flush (like the sync writer)", ins, "" if ins else
                       "poll_flush only flushes the private cursor: data flushed through a still-open async handle is not visible to "
                       "readers opened afterwards (the sync writer publishes on flush)", b.span)
        return n

    # ---------------------------------------------------------------- writer (R04.1, R14.5, R19.2)
    def writer_rules(self, rep, rule_pub="R04.1", rule_del="R14.5", rule_time="R19.2"):
        n = 0
        if not self.writer:
            rep.fail(rule_pub, "memory", "writer type found", "no in-memory writer struct with a Cursor field")
            return 0
        facts = self.facts
        cur_field = dest_field = None
        for f in adt_fields(facts, self.writer):
            if "Cursor<" in f["ty"]:
                cur_field = f["name"]
            if f["ty"] == "std::string::String":
                dest_field = f["name"]
        if not self.asyncw:
            # write / seek delegate to the cursor
            for tname, meth in ((("::Write",), "write"), (("::Seek",), "seek")):
                b = trait_method(facts, self.writer, tname, meth)
                if b is None:
                    rep.fail(rule_del, self.writer, "%s implemented" % meth, "missing")
                    continue
                cases = self.inter.ret_cases(b)
                # `self.content.write(buf)` or its `?`-and-rewrap spelling (`let n = ..?; Ok(n)`): one call, handed on
                shapes = {passthrough_of(norm(ct)) for ct, _, _ in cases}
                ok = len(shapes) == 1 and len(cases) <= 2
                for c in shapes:
                    ok = ok and c[0] == "call" and sname(c[1]) == meth and c[2] and c[2][0][0] == "field" and c[2][0][2] == cur_field and \
                        len(c[2]) == 2 and c[2][1][0] == "arg" and c[2][1][1] == 1
                # ... and nothing else happens: any other call (a resize of the buffer, a second seek) is behaviour the
                # cursor does not have
                extra = []
                for cb in self.inter.code_bodies(b):
                    for s_ in self.inter.sites(cb):
                        if sname(s_.path) == meth or s_.short in ("Try::branch", "FromResidual::from_residual", "From::from", "Into::into"):
                            continue
                        extra.append(s_.short)
                if extra:
                    ok = False
                n += 1
                rep.ob(rule_del, b.id, "%s returns the cursor's %s(arg) unchanged" % (meth, meth), ok, "" if ok else
                       "the writer's %s is not a plain delegation to its Cursor%s" % (meth, (" (it also calls %s)" % ", ".join(sorted(set(extra)))) if extra else ""), b.span)
        # publication
        pub = trait_method(facts, self.writer, ("::Write",), "flush") if not self.asyncw else None
        drop = trait_method(facts, self.writer, ("::Drop",), "drop")
        target = pub if pub is not None else drop
        if target is None:
            rep.fail(rule_pub, self.writer, "publication function found", "neither flush nor drop publishes")
            return n
        # the insertion may sit in a private helper of the writer type that the publication function calls
        outer, via = target, None
        direct = [blk for blk in target.calls() if short(blk.term.callee() or "") == "HashMap::insert"]
        if not direct:
            for blk in target.calls():
                for s_ in self.inter.sites(target):
                    if s_.bb != blk.idx:
                        continue
                    hb = self.inter.local_callee(s_)
                    if hb is not None and hb.impl and hb.impl["self_ty"] == self.writer and hb.impl["trait"] is None and \
                            any(short(x.term.callee() or "") == "HashMap::insert" for x in hb.calls()):
                        target, via = hb, blk
        tr = get_tracer(facts, target)
        inserts = [blk for blk in target.calls() if short(blk.term.callee() or "") == "HashMap::insert"]
        n += 1
        rep.ob(rule_pub, outer.id, "publication inserts into the map", len(inserts) == 1, "%d insert site(s)%s" % (
            len(inserts), " (in %s)" % target.id if via is not None else ""), outer.span)
        # a publication that moves the buffer out (mem::swap/take/replace on the cursor) may run once only: it has to be
        # reachable from Drop::drop and from nowhere else, or a second publication (close, then drop) publishes an emptied buffer
        for wb in self.facts.bodies:
            if not (wb.impl and wb.impl["self_ty"] == self.writer) and not (wb.kind == "Closure" and wb.root and
                    (self.facts.body(wb.root) is not None and (self.facts.body(wb.root).impl or {}).get("self_ty") == self.writer)):
                continue
            trw = get_tracer(facts, wb)
            for blk in wb.calls():
                if short(blk.term.callee() or "") not in ("mem::swap", "mem::take", "mem::replace"):
                    continue
                argts = [trw.operand(a_) for a_ in blk.term.args]
                if not any(x[0] == "field" and x[2] == cur_field for a_ in argts for x in walk(a_)):
                    continue
                # swapping the buffer with a clone of itself leaves it intact (the sync writer's flush does that)
                if any(x[0] == "call" and isinstance(x[1], str) and short(x[1]) in ("Clone::clone", "Vec::clone", "ToOwned::to_owned", "slice::to_vec") and
                       any(y[0] == "field" and y[2] == cur_field for y in walk(x)) for a_ in argts for x in walk(a_)):
                    continue
                root = self.facts.body(wb.root) if wb.kind == "Closure" and wb.root else wb
                callers = set()
                stack, seen = [root], {root.id}
                only_drop = True
                while stack:
                    f = stack.pop()
                    is_drop = bool(f.impl) and (f.impl.get("trait") or "").endswith("::Drop") and f.name == "drop"
                    if is_drop:
                        continue
                    cs = [b2 for b2 in self.facts.bodies for s2 in self.inter.sites(b2)
                          if (self.inter.local_callee(s2) is not None and self.inter.local_callee(s2).id == f.id)]
                    if not cs or (f.impl and f.impl.get("trait")) or f.vis == "pub":
                        only_drop = False   # a non-drop entry point (trait method / public fn) takes the buffer
                        callers.add(f.id)
                    for c in cs:
                        c = self.facts.body(c.root) if c.kind == "Closure" and c.root else c
                        if c.id not in seen:
                            seen.add(c.id)
                            stack.append(c)
                n += 1
                rep.ob(rule_pub, wb.id, "the buffer is moved out only on the drop path", only_drop,
                       "reachable from Drop::drop only" if only_drop else
                       "%s moves the writer's buffer out and is reachable from %s: after that call a later publication (drop) "
                       "publishes an emptied buffer — close()/flush() followed by drop loses the data" % (wb.id, sorted(callers)[:2]), blk.term.line)
        for blk in inserts:
            t = blk.term
            a = [norm(tr.operand(x)) for x in t.args]
            key, val = a[1], a[2]
            if val[0] == "call":
                # the record is built by a private function of the same file (`flushed_file(previous, content)`): read through it,
                # its parameters replaced by the actual arguments
                val = norm(self.inter.inline_ret(val, depth=2, pred=lambda hb_: hb_.kind != "Closure" and hb_.vis != "pub" and
                                                 hb_.file == target.file and not (hb_.impl and hb_.impl.get("trait"))))
            okk = key[0] == "field" and key[2] == dest_field
            n += 1
            rep.ob(rule_pub, target.id, "published under the destination captured at creation", okk, fmt(key)[:40], t.line)
            d = dict(val[3]) if val[0] == "agg" else {}
            content = d.get("content")
            okc = content is not None and any(x[0] == "field" and x[2] == cur_field for x in walk(content))
            okt = d.get("file_type", ("",))[0] == "agg" and d["file_type"][2] == "File"
            # ... the whole buffer, not a window of it: nothing between the cursor's buffer and the published value slices,
            # truncates or takes a prefix (a session that seeks back and patches a header must not lose what lies behind the cursor)
            cut = [short(x[1]) if isinstance(x[1], str) else "?" for x in (walk(content) if content else ()) if x[0] == "call" and isinstance(x[1], str) and
                   short(x[1]) in ("Index::index", "IndexMut::index_mut", "slice::split_at", "Vec::truncate", "Vec::split_off", "Vec::drain",
                                   "slice::get", "Iterator::take", "slice::first", "slice::chunks", "Read::take", "Cursor::position")]
            # ... nor is the buffer (or the copy of it that gets published) shortened in place on the way
            for cb_ in self.inter.code_bodies(target):
                trc_ = get_tracer(facts, cb_)
                for s_ in self.inter.sites(cb_):
                    if s_.short in ("Vec::truncate", "Vec::drain", "Vec::clear", "Vec::split_off", "Vec::resize", "Vec::pop", "Vec::remove",
                                    "Vec::retain", "Vec::set_len", "Vec::swap_remove", "Vec::dedup", "Vec::resize_with") and s_.args:
                        recv_ = norm(trc_.operand(s_.args[0]))
                        if any(x[0] == "field" and x[2] == cur_field for x in walk(recv_)):
                            cut.append(s_.short)
            # ... and nothing of what is stored under the destination flows into them: a handle's buffer already starts with the bytes the
            # file had when it was opened; merging the stored content in again ("keep what was appended in the meantime") makes a
            # second flush of the same handle append its own bytes twice
            stale = [x for x in (walk(content) if content else ()) if x[0] == "field" and x[2] == "content" and
                     any(y[0] == "call" and y[1] in ("HashMap::get", "HashMap::get_mut") for y in walk(x[1]))]
            n += 1
            rep.ob(rule_pub, target.id, "published content does not come from the stored entry", not stale, "" if not stale else
                   "the published bytes are (partly) the content found under the destination at flush time: after the handle's own first "
                   "publication that content contains the handle's bytes already", t.line)
            n += 1
            rep.ob(rule_pub, target.id, "the whole buffer is published (no slice / truncation)", okc and not cut, "" if not cut else
                   "the published bytes are a part of the writer's buffer (%s): data behind the cursor, or beyond the cut, is lost" % cut[0], t.line)
            n += 2
            rep.ob(rule_pub, target.id, "published content originates from the writer's own buffer", okc, "" if okc else
                   "the published bytes do not come from the writer's cursor: %s" % fmt(content)[:60] if content else "no content", t.line)
            rep.ob(rule_pub, target.id, "published entry is a File", okt, "", t.line)
            if True:
                # R19.2: created / accessed carried over from the previous entry (in either world, as soon as the entry type keeps
                # the field at all: an async backend that learns to store creation times must not reset them at every publication)
                for fld, fallback in (("created", "now"), ("accessed", "None")):
                    if self.asyncw and fld not in d:
                        continue
                    v = d.get(fld)
                    prev = v is not None and any(x[0] == "call" and x[1] in ("HashMap::get", "HashMap::get_mut") and len(x[2]) == 2 and
                                                 x[2][1][0] == "field" and x[2][1][2] == dest_field for x in walk(v))
                    # and the mapped closure reads the same-named field
                    same = False
                    exact = True
                    if v is not None:
                        for x in walk(v):
                            if x[0] == "closure":
                                cb = facts.body(x[1])
                                if cb is not None:
                                    for ct, _, _ in self.inter.ret_cases(cb):
                                        c = norm(ct)
                                        if any(y[0] == "field" and y[2] == fld for y in walk(c)):
                                            same = True
                                            # ... the field itself (at most cloned / wrapped in Some), not something computed from it
                                            c2 = c
                                            while (c2[0] == "call" and c2[1] in ("Clone::clone", "Option::clone", "Deref::deref", "Option::cloned",
                                                                                  "Option::copied", "Into::into", "From::from") and c2[2]) or \
                                                    (c2[0] == "agg" and c2[2] == "Some" and len(c2[3]) == 1):
                                                c2 = c2[2][0] if c2[0] == "call" else c2[3][0][1]
                                            if not (c2[0] == "field" and c2[2] == fld):
                                                exact = False
                    # ... looked up under the very lock acquisition the insert is made under: a value read under an earlier (read) lock
                    # is stale by the time the write lock is taken — a set_*_time that completed in between is undone by the flush
                    def _acq(t_):
                        return {x[3] for x in walk(t_) if x[0] == "call" and isinstance(x[1], str) and
                                short(x[1]).split("<")[0] in ("RwLock::write", "RwLock::read", "Mutex::lock", "RwLock::try_write", "RwLock::try_read") and len(x) > 3}
                    ins_acq = _acq(a[0])
                    if v is not None and prev:
                        get_acq = set()
                        for x in walk(v):
                            if x[0] == "call" and x[1] in ("HashMap::get", "HashMap::get_mut") and len(x[2]) == 2:
                                get_acq |= _acq(x[2][0])
                        if ins_acq and get_acq and not (get_acq <= ins_acq):
                            prev = False
                    # the `match previous { Some(file) => file.<fld>, None => fallback }` spelling: the field of the looked-up entry
                    # itself is one alternative of the value
                    if v is not None and prev:
                        for a_ in alts(v):
                            c2 = a_
                            while (c2[0] == "call" and c2[1] in ("Clone::clone", "Option::clone", "Deref::deref", "Into::into", "From::from") and c2[2]) or \
                                    (c2[0] == "agg" and c2[2] == "Some" and len(c2[3]) == 1):
                                c2 = c2[2][0] if c2[0] == "call" else c2[3][0][1]
                            if c2[0] == "field" and c2[2] == fld and any(
                                    x[0] == "call" and x[1] in ("HashMap::get", "HashMap::get_mut") and len(x[2]) == 2 and x[2][1][0] == "field" and
                                    x[2][1][2] == dest_field for x in walk(c2[1])):
                                same = True
                    n += 1
                    rep.ob(rule_time, target.id, "flush keeps `%s` of the previous entry" % fld, prev and same, "" if (prev and same) else
                           "`%s` of the published entry is %s: it is not taken from the entry found under the destination at flush "
                           "time (a timestamp set in between is lost / content writes disturb it)" % (fld, fmt(v)[:70] if v else "?"), t.line)
                    n += 1
                    rep.ob(rule_time, target.id, "flush carries `%s` over unchanged" % fld, exact or not same, "" if (exact or not same) else
                           "`%s` of the published entry is computed from the previous value (clamped, compared, replaced for some values): "
                           "writing to a file changes a time stamp that was set explicitly" % fld, t.line)
        # every non-error return of the publication passes the insert
        if via is not None:
            tro = get_tracer(facts, outer)
            for ct, _, bb in self.inter.ret_cases(outer):
                if self.inter.case_polarity(ct) == "err":
                    continue
                ok = via.idx in tro.cfg.dominating_blocks(bb)
                n += 1
                rep.ob(rule_pub, outer.id, "every successful return has published", ok, "" if ok else
                       "the publication function can return without calling the helper that inserts the buffer", outer.blocks[bb].term.line)
        for ct, _, bb in self.inter.ret_cases(target):
            if self.inter.case_polarity(ct) == "err":
                continue
            doms = tr.cfg.dominating_blocks(bb)
            ok = any(blk.idx in doms for blk in inserts)
            n += 1
            rep.ob(rule_pub, target.id, "every successful return has published", ok, "" if ok else
                   "flush can return Ok without inserting the buffer into the map: flushed data is not visible to readers "
                   "(and is lost on drop if drop relies on flush)", target.blocks[bb].term.line)
        # drop calls flush on every path
        if drop is not None and pub is not None:
            trd = get_tracer(facts, drop)
            fl = [blk for blk in drop.calls() if sname(blk.term.callee() or "") == "flush"]
            rets = trd.cfg.return_blocks()
            ok = bool(fl) and all(any(f.idx in trd.cfg.dominating_blocks(r) for f in fl) for r in rets)
            n += 1
            rep.ob(rule_pub, drop.id, "drop publishes (calls flush on every path)", ok, "" if ok else
                   "dropping the writer does not always flush: bytes written but not flushed are lost", drop.span)
        return n
