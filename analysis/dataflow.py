"""Small classical dataflow helpers: reaching definitions of whole locals, uses of a local."""
from collections import defaultdict


def _places_in_operand(op):
    if op is not None and op.kind in ("copy", "move"):
        yield op.place


def _place_locals(place):
    yield place.local
    for p in place.proj:
        if isinstance(p, dict) and "index" in p:
            yield p["index"]


def local_uses(body):
    """{local: [(bb, idx|'term', how)]} for every read of a local (drops/storage markers excluded).
    how = 'move' | 'copy' | 'ref' | 'place' (projection base / discriminant / partial write base)"""
    uses = defaultdict(list)

    def op(o, bb, idx):
        if o is None:
            return
        if o.kind in ("copy", "move"):
            uses[o.place.local].append((bb, idx, o.kind if o.place.is_local() else "place"))
            for p in o.place.proj:
                if isinstance(p, dict) and "index" in p:
                    uses[p["index"]].append((bb, idx, "copy"))

    for b in body.blocks:
        if b.cleanup:
            continue
        for i, s in enumerate(b.stmts):
            if s.kind != "assign":
                continue
            rv = s.rv
            for o in rv.ops:
                op(o, b.idx, i)
            if rv.place is not None:
                how = "ref" if rv.kind in ("ref", "rawptr") else "place"
                uses[rv.place.local].append((b.idx, i, how))
            if not s.lhs.is_local():
                uses[s.lhs.local].append((b.idx, i, "place"))
        t = b.term
        if t.kind == "call":
            if t.func.kind in ("copy", "move"):
                op(t.func, b.idx, "term")
            for a in t.args:
                op(a, b.idx, "term")
            if t.dest is not None and not t.dest.is_local():
                uses[t.dest.local].append((b.idx, "term", "place"))
        elif t.kind == "switch":
            op(t.discr, b.idx, "term")
        elif t.kind == "assert":
            op(t.cond, b.idx, "term")
        elif t.kind == "yield":
            pass
    return uses


class ReachingDefs:
    """reaching definitions for whole-local writes (assign to `_n`, call destination `_n`)."""

    def __init__(self, body, cfg):
        self.body = body
        self.cfg = cfg
        n = len(body.blocks)
        self.defs = []  # (local, bb, idx)
        self.def_ids = defaultdict(list)
        for b in body.blocks:
            if b.cleanup:
                continue
            for i, s in enumerate(b.stmts):
                if s.kind == "assign" and s.lhs.is_local():
                    self._add(s.lhs.local, b.idx, i)
            t = b.term
            if t.kind == "call" and t.dest is not None and t.dest.is_local():
                self._add(t.dest.local, b.idx, "term")
        # per-block gen (last def per local) and kill
        gen = [dict() for _ in range(n)]
        for d, (l, bb, idx) in enumerate(self.defs):
            gen[bb][l] = d  # later defs overwrite earlier in the same block (stmts ordered; term last)
        self.gen = gen
        IN = [set() for _ in range(n)]
        OUT = [set() for _ in range(n)]
        # entry pseudo-defs: -(local+1) means "value at function entry"
        entry = {-(l + 1) for l in range(len(body.locals))}
        IN[0] = set(entry)
        work = [b.idx for b in body.blocks if not b.cleanup]
        changed = True
        while changed:
            changed = False
            for b in work:
                if b != 0:
                    s = set()
                    for p in cfg.pred[b]:
                        s |= OUT[p]
                    if s != IN[b]:
                        IN[b] = s
                        changed = True
                else:
                    s = set(entry)
                    for p in cfg.pred[b]:
                        s |= OUT[p]
                    if s != IN[b]:
                        IN[b] = s
                        changed = True
                killed = set(gen[b].keys())
                out = {d for d in IN[b] if self._local_of(d) not in killed} | set(gen[b].values())
                if out != OUT[b]:
                    OUT[b] = out
                    changed = True
        self.IN = IN
        self.OUT = OUT

    def _add(self, l, bb, idx):
        self.def_ids[l].append(len(self.defs))
        self.defs.append((l, bb, idx))

    def _local_of(self, d):
        if d < 0:
            return -d - 1
        return self.defs[d][0]

    def at(self, bb, idx, local):
        """definitions of `local` reaching the point just before statement idx ('term' = terminator) of bb.
        Returns a list of (bb, idx) sites; (None, None) stands for the value at function entry."""
        cur = {d for d in self.IN[bb] if self._local_of(d) == local}
        blk = self.body.blocks[bb]
        limit = len(blk.stmts) if idx == "term" else idx
        for i in range(limit):
            s = blk.stmts[i]
            if s.kind == "assign" and s.lhs.is_local() and s.lhs.local == local:
                cur = {self._find(local, bb, i)}
        out = []
        for d in cur:
            if d < 0:
                out.append((None, None))
            else:
                out.append((self.defs[d][1], self.defs[d][2]))
        return out

    def _find(self, l, bb, idx):
        for d in self.def_ids[l]:
            if self.defs[d][1] == bb and self.defs[d][2] == idx:
                return d
        return None
