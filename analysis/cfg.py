"""Control-flow graph utilities over a Body: unwind-free CFG, dominators over an edge-split graph
(so that *branch outcomes* can dominate a block), reachability, simple path enumeration."""
from collections import defaultdict


class CFG:
    def __init__(self, body):
        self.body = body
        n = len(body.blocks)
        self.n = n
        self.succ = [[] for _ in range(n)]
        self.pred = [[] for _ in range(n)]
        # edges: (src, dst, label) ; label = None | ('eq', v) | ('other', (v1, v2...))
        self.edges = []
        for b in body.blocks:
            if b.cleanup:
                continue
            t = b.term
            if t.kind == "switch":
                vals = tuple(v for v, _ in t.targets)
                known = self._const_discr(b)
                for v, d in t.targets:
                    if known is not None and v != known:
                        continue  # infeasible: the discriminant of a just-built aggregate is known
                    self._add(b.idx, d, ("eq", v))
                if known is None or known not in vals:
                    self._add(b.idx, t.otherwise, ("other", vals))
            else:
                for d in t.succs():
                    self._add(b.idx, d, None)
        self._thread_const_bools()
        self._dom = None
        self._reach_cache = {}

    def _thread_const_bools(self):
        """jump threading for the lowering of `matches!(..)` / `a && b` into a temporary:
             P1: _t = true;  goto J      P2: _t = false; goto J      J: switchInt(move _t) -> [0: F, otherwise: T]
        every predecessor that assigns the constant is wired straight to the arm it selects (J computes nothing else),
        so that path-insensitive reachability does not invent the paths P1->F and P2->T."""
        body = self.body
        for b in body.blocks:
            if b.cleanup or b.term.kind != "switch":
                continue
            t = b.term
            if t.discr is None or t.discr.place is None or not t.discr.place.is_local() or t.discr.kind not in ("move", "copy"):
                continue
            tl = t.discr.place.local
            # J may copy the temporary into the local it switches on (`let not_found = matches!(..); if not_found`):
            # follow pure copies backwards; anything else computed in J disables the threading
            ok_j = True
            for st in reversed(b.stmts):
                if st.kind != "assign":
                    continue
                if st.lhs.is_local() and st.lhs.local == tl and st.rv.kind == "use" and st.rv.ops and \
                        st.rv.ops[0].kind in ("move", "copy") and st.rv.ops[0].place.is_local():
                    tl = st.rv.ops[0].place.local
                    continue
                ok_j = False
            if not ok_j:
                continue
            for p in list(self.pred[b.idx]):
                pb = body.blocks[p]
                if pb.term.kind != "goto":
                    continue
                val = None
                for st in pb.stmts:
                    if st.kind == "assign" and st.lhs.is_local() and st.lhs.local == tl:
                        val = st.rv.ops[0].const_int() if st.rv.kind == "use" and st.rv.ops else None
                if val is None:
                    continue
                target = t.otherwise
                for v, d in t.targets:
                    if v == val:
                        target = d
                if body.blocks[target].cleanup:
                    continue
                # rewire p -> J into p -> target
                self.edges = [e for e in self.edges if not (e[0] == p and e[1] == b.idx)]
                self.succ[p] = [x for x in self.succ[p] if x != b.idx]
                self.pred[b.idx] = [x for x in self.pred[b.idx] if x != p]
                self.edges.append((p, target, None))
                self.succ[p].append(target)
                self.pred[target].append(p)

    @staticmethod
    def _const_discr(b):
        """variant index if the block switches on discriminant(x) where x was assigned a constant aggregate
        in the same block (e.g. async_trait's `if let Some(ret) = None::<T>` prologue)"""
        t = b.term
        if t.discr is None or t.discr.place is None or not t.discr.place.is_local():
            return None
        dl = t.discr.place.local
        src = None
        for st in b.stmts:
            if st.kind == "assign" and st.lhs.is_local() and st.lhs.local == dl and st.rv.kind == "discr" and st.rv.place.is_local():
                src = (st.rv.place.local, st.rv.j.get("variants") or [])
        if src is None:
            return None
        for st in b.stmts:
            if st.kind == "assign" and st.lhs.is_local() and st.lhs.local == src[0] and st.rv.kind == "agg" and \
                    st.rv.agg.get("kind") == "adt" and not st.rv.ops:
                v = st.rv.agg.get("variant")
                if v in src[1]:
                    return src[1].index(v)
        return None

    def _add(self, s, d, label):
        if self.body.blocks[d].cleanup:
            return
        self.edges.append((s, d, label))
        self.succ[s].append(d)
        self.pred[d].append(s)

    # ---------------------------------------------------------------- reachability
    def reachable_from(self, start):
        if start in self._reach_cache:
            return self._reach_cache[start]
        seen = {start}
        st = [start]
        while st:
            x = st.pop()
            for y in self.succ[x]:
                if y not in seen:
                    seen.add(y)
                    st.append(y)
        self._reach_cache[start] = seen
        return seen

    def live_blocks(self):
        """blocks reachable from entry whose path does not end only in `unreachable`"""
        return self.reachable_from(0)

    def return_blocks(self):
        return [b.idx for b in self.body.blocks if not b.cleanup and b.term.kind == "return"]

    def reaches(self, a, b):
        return b in self.reachable_from(a)

    def loop_blocks(self, header):
        """blocks on a cycle through `header` (its natural loop, nested loops included)"""
        fwd = self.reachable_from(header)
        return {x for x in fwd if x == header or header in self.reachable_from(x)}

    def loop_exit_edges(self, header):
        L = self.loop_blocks(header)
        return [(s, d, label) for (s, d, label) in self.edges if s in L and d not in L]

    def strictly_reaches(self, a, b):
        """b reachable from a through at least one edge"""
        for s in self.succ[a]:
            if b == s or b in self.reachable_from(s):
                return True
        return False

    # ---------------------------------------------------------------- dominators (edge split)
    def _compute_dom(self):
        # nodes: blocks 0..n-1, edge nodes n..n+len(edges)-1
        n = self.n
        m = n + len(self.edges)
        succ = [[] for _ in range(m)]
        pred = [[] for _ in range(m)]
        for i, (s, d, _) in enumerate(self.edges):
            e = n + i
            succ[s].append(e)
            pred[e].append(s)
            succ[e].append(d)
            pred[d].append(e)
        # reverse postorder from 0
        order = []
        seen = [False] * m
        stack = [(0, iter(succ[0]))]
        seen[0] = True
        while stack:
            node, it = stack[-1]
            adv = False
            for y in it:
                if not seen[y]:
                    seen[y] = True
                    stack.append((y, iter(succ[y])))
                    adv = True
                    break
            if not adv:
                order.append(node)
                stack.pop()
        order.reverse()
        rpo = {x: i for i, x in enumerate(order)}
        idom = {0: 0}
        changed = True
        while changed:
            changed = False
            for x in order[1:]:
                ps = [p for p in pred[x] if p in idom]
                if not ps:
                    continue
                new = ps[0]
                for p in ps[1:]:
                    a, b = p, new
                    while a != b:
                        while rpo[a] > rpo[b]:
                            a = idom[a]
                        while rpo[b] > rpo[a]:
                            b = idom[b]
                    new = a
                if idom.get(x) != new:
                    idom[x] = new
                    changed = True
        self._dom = idom

    def dominators(self, b):
        """list of dominating nodes (blocks and edge-nodes) of block b, from b up to entry"""
        if self._dom is None:
            self._compute_dom()
        out = []
        x = b
        if x not in self._dom:
            return out
        while True:
            out.append(x)
            if x == 0:
                break
            x = self._dom[x]
        return out

    def dominates(self, a, b):
        return a in self.dominators(b)

    def dominating_edges(self, b):
        """edges (src, dst, label) every path from entry to block b passes through, nearest first"""
        out = []
        for x in self.dominators(b):
            if x >= self.n:
                out.append(self.edges[x - self.n])
        return out

    def dominating_blocks(self, b):
        return [x for x in self.dominators(b) if x < self.n]

    # ---------------------------------------------------------------- paths
    def paths(self, src, dst_pred, limit=2000, max_visits=1):
        """enumerate paths (lists of edges) from src to any block satisfying dst_pred;
        each block is visited at most max_visits times per path.  Returns None if limit exceeded."""
        out = []
        edges_from = defaultdict(list)
        for e in self.edges:
            edges_from[e[0]].append(e)

        def rec(x, path, visits):
            if len(out) > limit:
                return
            if dst_pred(x) and path is not None:
                out.append(list(path))
                # continue: a later occurrence may also matter, but we stop at the first hit
                return
            for e in edges_from[x]:
                d = e[1]
                if visits.get(d, 0) >= max_visits:
                    continue
                visits[d] = visits.get(d, 0) + 1
                path.append(e)
                rec(d, path, visits)
                path.pop()
                visits[d] -= 1

        rec(src, [], {src: 1})
        if len(out) > limit:
            return None
        return out
