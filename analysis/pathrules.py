"""Rules on the path layer (VfsPath / AsyncVfsPath): Table P guards, transfer routes, create_dir_all.
Shared by C01 (R01.1), C02 (R02.3), C11 (R11.*), C17 (R17.1/2), C15 (async twin)."""
from .terms import get_tracer, short, strip, fmt, fmt_guard, walk, call_of, passthrough_of, alts
from .inter import Inter
from .pathflow import World, PathFlow, MUTATING
from .panics import Discharger, norm, nguard, unchecked_arith


def sname(p):
    return p.split("::")[-1] if isinstance(p, str) else ""


def is_method_call(t, name, world=None):
    """normalised term t is a call (possibly awaited/`?`-unwrapped) of a path/backend method called `name`"""
    while t[0] in ("okval", "await"):
        t = t[1]
    return t[0] == "call" and sname(t[1]) == name


def peel(t):
    while t[0] in ("okval", "await"):
        t = t[1]
    return t


class PathRules:
    def __init__(self, facts, world, D=None):
        self.facts = facts
        self.w = world
        self.inter = Inter(facts)
        self.pf = PathFlow(facts, world, self.inter)
        self.D = D or Discharger(facts)
        self.methods = world.path_methods()
        self._bodies = {}
        self._entered = {}      # pass-through helper id -> [(calling code body, block of the call)]

    # ------------------------------------------------------------------ helpers
    def bodies(self, name):
        """the method and the code that runs as that method: its closures / coroutine, and private helpers of the path type that
        receive every argument of the method unchanged and in place (the body moved into `fn name_internal(&self, ..)`), in
        which argument i still means argument i"""
        b = self.methods.get(name)
        if b is None:
            return None, []
        if name in self._bodies:
            return b, self._bodies[name]
        cbs = list(self.inter.code_bodies(b))
        seen = {c.id for c in cbs}
        for cb in list(cbs):
            tr = get_tracer(self.facts, cb)
            for s in self.inter.sites(cb):
                hb = self.inter.local_callee(s)
                if self.private_helper(hb) and hb.id != b.id and len(s.args) == b.arg_count and \
                        len(s.args) >= 1 and all(self.is_arg(tr.operand(a), i) for i, a in enumerate(s.args)):
                    self._entered.setdefault(hb.id, []).append((cb, s.bb))
                    for hcb in self.inter.code_bodies(hb):
                        if hcb.id not in seen:
                            seen.add(hcb.id)
                            cbs.append(hcb)
        self._bodies[name] = cbs
        return b, cbs

    def cbs(self, b):
        """code bodies of a method of the path type, pass-through helpers included (see bodies)"""
        if self.methods.get(b.name) is b:
            return self.bodies(b.name)[1]
        return list(self.inter.code_bodies(b))

    def deep_sites(self, name, depth=2):
        """[(code body, site, tracer, sub, guards)] call sites of method `name` and of the private helpers of the path type it calls
        (any arguments): `sub` maps a term of the body the site lies in into the method's name space (helper parameters replaced by
        the actual arguments), `guards` are the site's guards in that name space plus those of the chain of helper calls — a step
        extracted into `fn copy_entry_to(&self, dest: &VfsPath)` is still a step of copy_dir"""
        b, cbs = self.bodies(name)
        out = []
        if b is None:
            return out

        def rec(cbs_, sub, outer, depth_, seen):
            for cb in cbs_:
                tr = get_tracer(self.facts, cb)
                for s in self.inter.sites(cb):
                    gs = [(g[0], sub(g[1])) + tuple(g[2:]) for g in self.guards(cb, s.bb)] + list(outer)
                    out.append((cb, s, tr, sub, gs))
                    hb = self.inter.local_callee(s)
                    if depth_ > 0 and self.private_helper(hb) and hb.id != b.id and hb.id not in seen and \
                            not any(hcb.id in {c.id for c in cbs} for hcb in self.inter.code_bodies(hb)):
                        actuals = tuple(sub(tr.operand(a)) for a in s.args)
                        ids = self.inter.callee_ids(hb)
                        sub2 = (lambda ids_, act_: (lambda t: self.inter.subst(t, ids_, act_)))(ids, actuals)
                        rec(list(self.inter.code_bodies(hb)), sub2, gs, depth_ - 1, seen | {hb.id})
        rec(cbs, (lambda t: t), [], depth, set())
        return out

    def sites(self, name, pred):
        """[(code body, site)] call sites in method `name` (closures incl.) satisfying pred(site)"""
        b, cbs = self.bodies(name)
        out = []
        for cb in cbs:
            for s in self.inter.sites(cb):
                if pred(s):
                    out.append((cb, s))
        return out

    def guards(self, cb, bb):
        gs = list(self.D.guards(cb, bb))
        # inside a pass-through helper (see bodies) everything that held where the method entered it still holds
        # (argument i means the same value on both sides); with several call sites only what holds at all of them
        root = cb.root if cb.kind == "Closure" and cb.root else cb.id
        calls = self._entered.get(root)
        if calls:
            def canon(t):
                # the same argument of two callers (copy_file / move_file sharing a helper) is the same value inside the helper
                if isinstance(t, tuple):
                    if t and t[0] == "arg" and len(t) > 3:
                        return ("arg", t[1])
                    if t and t[0] == "call" and len(t) > 3:
                        return ("call", t[1], canon(t[2]))
                    return tuple(canon(x) for x in t)
                return t
            common = None
            for ccb, cbb in calls:
                g2 = self.guards(ccb, cbb)
                if common is None:
                    common = g2
                else:
                    c2 = {canon(g) for g in g2}
                    common = [g for g in common if canon(g) in c2]
            gs.extend(g for g in (common or []) if g not in gs)
        return gs

    def arg(self, b, i):
        return ("arg", i, None, b.id)

    def is_arg(self, t, i):
        t = norm(t)
        return t[0] == "arg" and t[1] == i

    def g_exists(self, gs, who_pred, value):
        """guard: exists(<path satisfying who_pred>) == value"""
        for g in gs:
            if g[0] == "bool" and g[2] is value:
                t = peel(g[1])
                if t[0] == "call" and sname(t[1]) == "exists" and t[2] and who_pred(norm(t[2][0])):
                    return True
        return False

    def g_type(self, gs, who_pred, want):
        """guard: metadata(<path>).file_type == want"""
        other = "Directory" if want == "File" else "File"
        for g in gs:
            if g[0] == "bool" and g[1][0] == "call" and g[1][1] in ("PartialEq::ne", "PartialEq::eq") and len(g[1][2]) == 2:
                a, b = g[1][2]
                if a[0] == "field" and a[2] == "file_type" and b[0] == "agg":
                    m = peel(a[1])
                    if m[0] == "call" and sname(m[1]) == "metadata" and m[2] and who_pred(norm(m[2][0])):
                        is_ne = g[1][1] == "PartialEq::ne"
                        eq_holds = (g[2] is False) if is_ne else (g[2] is True)
                        if (eq_holds and b[2] == want) or ((not eq_holds) and b[2] == other):
                            return True
            if g[0] == "variant" and g[1][0] == "field" and g[1][2] == "file_type" and g[3] == want:
                m = peel(g[1][1])
                if m[0] == "call" and sname(m[1]) == "metadata" and m[2] and who_pred(norm(m[2][0])):
                    return True
        return False

    def private_helper(self, hb):
        return hb is not None and bool(hb.impl) and hb.impl["trait"] is None and hb.impl["self_ty"] == self.w.path_ty and hb.vis != "pub"

    def through_helpers(self, t):
        """normalised term with calls of private helpers of the path type replaced by what they return, and
        projections of the tuples they return resolved"""
        t = norm(self.inter.inline_ret(t, depth=2, pred=self.private_helper))

        def simp(x):
            if not isinstance(x, tuple):
                return x
            x = tuple(simp(y) for y in x)
            if x and x[0] == "field" and len(x) == 3 and isinstance(x[1], tuple):
                inner = x[1]
                while inner and inner[0] in ("okval", "await"):
                    inner = inner[1]
                if inner and inner[0] == "tuple" and str(x[2]).isdigit() and int(x[2]) < len(inner[1]):
                    return inner[1][int(x[2])]
            return x
        return simp(t)

    def passthrough_helpers(self, name):
        """private helpers of the path type that method `name` calls with (self, destination) passed straight through:
        inside them argument 0/1 still mean the receiver / the destination"""
        b, cbs = self.bodies(name)
        out = []
        for cb in cbs:
            tr = get_tracer(self.facts, cb)
            for s in self.inter.sites(cb):
                hb = self.inter.local_callee(s)
                if self.private_helper(hb) and hb.id != b.id and len(s.args) >= 2 and \
                        self.is_arg(tr.operand(s.args[0]), 0) and self.is_arg(tr.operand(s.args[1]), 1):
                    out.extend(self.inter.code_bodies(hb))
        return out

    def parent_of_self(self, t):
        t = norm(t)
        return t[0] == "call" and sname(t[1]) == "parent" and t[2] and self.is_arg(t[2][0], 0)

    # ------------------------------------------------------------------ Table P rows
    def table_p(self, rep, rule):
        w = self.w
        n = 0
        # create_dir / create_file: ParentIsDir before the backend call
        for name in ("create_dir", "create_file"):
            b = self.methods.get(name)
            if b is None:
                rep.fail(rule, w.path_ty, "%s present" % name, "public method missing")
                continue
            ss = self.sites(name, lambda s: s.trait == w.trait and s.name == name)
            if not ss:
                rep.fail(rule, b.id, "backend %s call" % name, "no call to the backend's %s found" % name, b.span)
            for cb, s in ss:
                gs = self.guards(cb, s.bb)
                pe = self.g_exists(gs, self.parent_of_self, True)
                pd = self.g_type(gs, self.parent_of_self, "Directory")
                n += 2
                rep.ob(rule, b.id, "%s: parent exists before backend call" % name, pe,
                       "dominated by parent().exists()" if pe else
                       "the backend call is not dominated by a successful parent().exists() check: creating below a missing parent is not refused by the path layer", s.line)
                rep.ob(rule, b.id, "%s: parent is a directory before backend call" % name, pd,
                       "dominated by parent().metadata().file_type == Directory" if pd else
                       "the backend call is not dominated by a parent-is-directory check: creating below a file is not refused by the path layer", s.line)
        # transfer operations: destination must not exist, before any mutation
        for name in ("copy_file", "move_file", "copy_dir", "move_dir"):
            b = self.methods.get(name)
            if b is None:
                rep.fail(rule, w.path_ty, "%s present" % name, "public method missing")
                continue
            mut_sites = list(self.pf.mutated_operands(b))
            # a private helper that receives all arguments unchanged is part of the method: judge the mutating calls inside it
            # (where the guards are), not the call that enters it
            helpers = [hb for hb in self.bodies(name)[1] if hb.kind != "Closure" and hb.id != b.id]
            if helpers:
                hids = {hb.id for hb in helpers}
                mut_sites = [m for m in mut_sites if not (self.inter.local_callee(m[0]) is not None and self.inter.local_callee(m[0]).id in hids)]
                for hb in helpers:
                    mut_sites.extend(self.pf.mutated_operands(hb))
            if not mut_sites:
                rep.fail(rule, b.id, "%s mutates" % name, "no mutating call found", b.span)
            for site, j, origin in mut_sites:
                cb = site.body
                gs = self.guards(cb, site.bb)
                ok = self.g_exists(gs, lambda t: self.is_arg(t, 1), False)
                if not ok and name == "copy_dir":
                    # copy_dir has no fast path: its first mutation is destination.create_dir(), which itself refuses an
                    # occupied destination (C01); everything else only runs after that call succeeded
                    trs = get_tracer(self.facts, cb)
                    is_first = sname(site.path) == "create_dir" and site.args and self.is_arg(trs.operand(site.args[0]), 1)
                    after = any(g[0] == "variant" and g[2] == "ok" and peel(g[1])[0] == "call" and sname(peel(g[1])[1]) == "create_dir" and
                                peel(g[1])[2] and self.is_arg(peel(g[1])[2][0], 1) for g in gs)
                    ok = is_first or after
                n += 1
                rep.ob(rule, b.id, "%s: destination absent before %s" % (name, site.short), ok,
                       "dominated by !destination.exists()" if ok else
                       "mutating call %s is not dominated by a failed destination.exists() check: an existing "
                       "destination is not refused before side effects" % site.short, site.line)
            # stream route: nothing is created at the destination before the source has been opened successfully
            # (a source that is missing / a directory must fail the call with the destination untouched)
            if name in ("copy_file", "move_file"):
                cf = lambda s: sname(s.path) == "create_file" and s.self_ty and s.self_ty.endswith("VfsPath")
                hsites = [(hcb, s) for hcb in self.passthrough_helpers(name) for s in self.inter.sites(hcb) if cf(s)]
                nfound = 0
                for cb, s in self.sites(name, cf) + hsites:
                    trc = get_tracer(self.facts, cb)
                    if not (s.args and self.is_arg(trc.operand(s.args[0]), 1)):
                        continue
                    nfound += 1
                    gs = self.guards(cb, s.bb)
                    ok = any(g[0] == "variant" and g[2] == "ok" and peel(g[1])[0] == "call" and sname(peel(g[1])[1]) == "open_file" and
                             peel(g[1])[2] and self.is_arg(peel(g[1])[2][0], 0) for g in gs)
                    n += 1
                    rep.ob(rule, b.id, "%s: destination created only after the source was opened" % name, ok,
                           "destination.create_file() is dominated by the Ok edge of self.open_file()" if ok else
                           "destination.create_file() runs before self.open_file() has succeeded: a copy/move whose source is missing "
                           "or is a directory fails but leaves an empty file at the destination (through OverlayFS::append_file's "
                           "copy-up: a lower-layer directory is shadowed by an empty file)", s.line)
                if not nfound:
                    n += 1
                    rep.fail(rule, b.id, "%s: destination.create_file() site present" % name,
                             "the stream route's creation of the destination was not found (moved where the ordering rule cannot see it)", b.span)
            # ... and that is the only thing the transfer itself refuses: every error built here (or in a private helper that gets
            # (self, destination) passed through) sits on the destination-exists edge.  A second home-made refusal (e.g. a
            # string comparison of the two paths that forgets they may live on different filesystems) rejects valid transfers
            for cb_ in list(self.cbs(b)) + self.passthrough_helpers(name):
                for blk in cb_.blocks:
                    if blk.cleanup:
                        continue
                    for st in blk.stmts:
                        if st.kind == "assign" and st.rv.kind == "agg" and st.rv.agg.get("adt") == "error::VfsErrorKind":
                            gs_ = self.guards(cb_, blk.idx)
                            on_edge = self.g_exists(gs_, lambda t: self.is_arg(t, 1), True)
                            # (a refusal that first establishes that both paths live on the same filesystem instance concerns
                            # the nested-transfer case the contract leaves open; it is not a refusal of a valid transfer)
                            same_fs = any(g[0] == "bool" and g[2] is True and g[1][0] == "call" and g[1][1] == "Arc::ptr_eq" for g in gs_)
                            on_edge = on_edge or same_fs
                            n += 1
                            rep.ob(rule, b.id, "%s: refuses nothing but an existing destination" % name, on_edge,
                                   "on the destination.exists() edge" if on_edge else
                                   "%s builds an error (%s) that is not the existing-destination refusal: transfers the contract allows "
                                   "are rejected by the path layer itself" % (name, st.rv.agg.get("variant")), st.line)
            # the refusal builds an error
            ss = self.sites(name, lambda s: sname(s.path) == "exists")
            has_refusal = False
            bodies_ = list(self.cbs(b))
            # private helpers of the path type called from here (e.g. an extracted "ensure destination is free")
            helpers_ = []
            for cb in bodies_:
                for s_ in self.inter.sites(cb):
                    hb = self.inter.local_callee(s_)
                    if hb is not None and hb.vis != "pub" and hb.impl and hb.impl["trait"] is None and \
                            hb.impl["self_ty"] == w.path_ty and hb.id != b.id:
                        helpers_.extend(self.inter.code_bodies(hb))
            for cb in bodies_ + helpers_:
                tr = get_tracer(self.facts, cb)
                is_helper = cb in helpers_
                for blk in cb.blocks:
                    if blk.cleanup:
                        continue
                    for st in blk.stmts:
                        if st.kind == "assign" and st.lhs.local == 0 and st.rv.kind == "agg" and st.rv.agg.get("variant") == "Err":
                            gs = self.guards(cb, blk.idx)
                            if self.g_exists(gs, (lambda t: t[0] == "arg") if is_helper else (lambda t: self.is_arg(t, 1)), True):
                                has_refusal = True
            if name == "copy_dir" and not has_refusal:
                has_refusal = any(sname(s.path) == "create_dir" for cb in self.cbs(b) for s in self.inter.sites(cb)
                                  if s.args and self.is_arg(get_tracer(self.facts, cb).operand(s.args[0]), 1))
            n += 1
            rep.ob(rule, b.id, "%s: existing destination returns Err" % name, has_refusal,
                   "Err built on the destination.exists() edge" if has_refusal else "no Err return on the destination-exists edge", b.span)
        # move_file: source removed only after the copy succeeded
        for name, rm, after in (("move_file", "remove_file", ("copy",)), ("move_dir", "remove_dir_all", ("next",))):
            b = self.methods.get(name)
            if b is None:
                continue
            ss = self.sites(name, lambda s: sname(s.path) == rm and s.self_ty and (s.self_ty.endswith("VfsPath")))
            if not ss:
                rep.fail(rule, b.id, "%s: source removal present" % name, "no %s(self) call found" % rm, b.span)
            for cb, s in ss:
                tr = get_tracer(self.facts, cb)
                recv = norm(tr.operand(s.args[0]))
                gs = self.guards(cb, s.bb)
                if name == "move_file":
                    ok = any(g[0] == "variant" and g[2] == "ok" and any(x[0] == "call" and sname(x[1]) == "copy" and
                                                                         str(x[1]).endswith("io::copy") for x in walk(g[1]))
                             for g in gs)
                    why = "dominated by the Ok edge of io::copy" if ok else "source is removed without the stream copy having succeeded"
                else:
                    ok = any(g[0] == "variant" and g[2] == "err" and g[3] == "None" and peel(g[1])[0] == "call" and
                             sname(peel(g[1])[1]) == "next" for g in gs)
                    why = "dominated by the loop's normal exit (iterator exhausted)" if ok else \
                        "source tree is removed before the copy loop has finished"
                n += 2
                rep.ob(rule, b.id, "%s: %s only after the copy" % (name, rm), ok, why, s.line)
                rep.ob(rule, b.id, "%s: %s acts on self" % (name, rm), self.is_arg(recv, 0), fmt(recv)[:60], s.line)
        # remove_dir_all
        b = self.methods.get("remove_dir_all")
        if b is None:
            rep.fail(rule, w.path_ty, "remove_dir_all present", "public method missing")
        else:
            cbs = self.cbs(b)
            okret = False
            for cb in cbs:
                for blk in cb.blocks:
                    if blk.cleanup:
                        continue
                    for st in blk.stmts:
                        if st.kind == "assign" and st.lhs.local == 0 and st.rv.kind == "agg" and st.rv.agg.get("variant") == "Ok":
                            if self.g_exists(self.guards(cb, blk.idx), lambda t: self.is_arg(t, 0), False):
                                okret = True
            n += 1
            rep.ob(rule, b.id, "remove_dir_all: Ok on an absent path", okret,
                   "Ok(()) on the !exists edge" if okret else "no Ok return on the !self.exists() edge", b.span)
            for cb, s in self.sites("remove_dir_all", lambda s: sname(s.path) == "remove_dir"):
                gs = self.guards(cb, s.bb)
                ok = any(g[0] == "variant" and g[3] == "None" and peel(g[1])[0] == "call" and sname(peel(g[1])[1]) == "next" for g in gs)
                # ... or after `children.try_for_each(|child| ..)?` came back Ok: every child was visited and none failed
                ok = ok or any(g[0] == "variant" and g[2] == "ok" and peel(g[1])[0] == "call" and sname(peel(g[1])[1]) == "try_for_each" and
                               any(x[0] == "call" and sname(x[1]) == "read_dir" for x in walk(peel(g[1])[2][0])) for g in gs if peel(g[1])[0] == "call" and peel(g[1])[2])
                n += 1
                rep.ob(rule, b.id, "remove_dir_all: remove_dir(self) after the child loop", ok,
                       "dominated by the loop exit" if ok else "self.remove_dir() is not after the child loop", s.line)
            # ... and on every path: apart from the "nothing there" early return, Ok means the directory itself is gone
            # (also when it is the root of its filesystem: for an adapter that root is an ordinary directory underneath)
            cb0 = self.inter.code_body(b)
            for ct, _, bb in self.inter.ret_cases(b):
                if self.inter.case_polarity(ct) != "ok":
                    continue
                gs = self.guards(cb0, bb)
                early = self.g_exists(gs, lambda t: self.is_arg(t, 0), False)
                removed = any(g[0] == "variant" and g[2] == "ok" and peel(g[1])[0] == "call" and sname(peel(g[1])[1]) == "remove_dir" and
                              peel(g[1])[2] and self.is_arg(peel(g[1])[2][0], 0) for g in gs)
                n += 1
                rep.ob(rule, b.id, "remove_dir_all: Ok only after remove_dir(self) succeeded (or nothing was there)", early or removed,
                       "" if (early or removed) else "remove_dir_all can return Ok without having removed the directory itself "
                       "(the final remove_dir is conditional): the subtree's root stays behind", cb0.blocks[bb].term.line)
            # children dispatched by their own type
            for rmname, want in (("remove_file", "File"), ("remove_dir_all", "Directory")):
                for cb, s in self.sites("remove_dir_all", lambda s, rmname=rmname: sname(s.path) == rmname):
                    tr = get_tracer(self.facts, cb)
                    recv = norm(tr.operand(s.args[0]))
                    if self.is_arg(recv, 0):
                        continue
                    gs = self.guards(cb, s.bb)
                    ok = self.g_type(gs, lambda t, recv=recv: norm(t) == recv, want)
                    n += 1
                    rep.ob(rule, b.id, "remove_dir_all: child %s under type %s" % (rmname, want), ok,
                           "dispatched by the child's own metadata" if ok else
                           "child.%s() is not guarded by child.metadata().file_type == %s" % (rmname, want), s.line)
        n += self.ok_needs_effect(rep, rule)
        n += self.argument_only_refusals(rep, rule)
        return n

    # ------------------------------------------------------------------ route selection (R11.2)
    MUTATORS = ("create_dir", "create_file", "append_file", "remove_file", "remove_dir", "remove_dir_all", "copy_file", "move_file",
                "move_dir", "copy_dir", "create_dir_all", "set_creation_time", "set_modification_time", "set_access_time", "copy")

    def ok_needs_effect(self, rep, rule):
        """a mutating path operation reports success only after a mutating call of the backend (or of the path type) succeeded:
        there is no answer `Ok` that is decided by the arguments alone (same path, empty name, root, ...).  On a read-only
        backend this is what makes every mutating call fail; on the others it is what makes Ok mean that something happened.
        (create_dir_all and remove_dir_all have an `Ok` without effect by contract — already there / nothing there — and
        are decided by their own rules.)"""
        n = 0

        def has_effect(t):
            for x in walk(t):
                if x[0] == "call" and isinstance(x[1], str) and sname(x[1]) in self.MUTATORS:
                    return True
                if x[0] == "closure":
                    return True         # the closure's own returns are judged where it is defined
            return False
        for name in ("create_dir", "create_file", "append_file", "remove_file", "remove_dir", "copy_file", "move_file", "copy_dir",
                     "move_dir", "set_creation_time", "set_modification_time", "set_access_time"):
            b, cbs = self.bodies(name)
            if b is None:
                continue
            seen_cb = set()
            for cb in cbs:
                cases = self.inter.ret_cases(cb)
                cb = self.inter.code_body(cb)
                if cb.id in seen_cb:
                    continue
                seen_cb.add(cb.id)
                rty = cb.locals[0]["ty"]
                if "Result<" not in rty and "Poll<" not in rty:
                    continue            # a helper closure that does not return the operation's verdict
                for ct, _, bb in cases:
                    pol = self.inter.case_polarity(ct)
                    if pol == "err":
                        continue
                    t = norm(ct)
                    ok = has_effect(t)
                    if not ok:
                        for g in self.guards(cb, bb):
                            if g[0] == "variant" and g[2] == "ok" and has_effect(g[1]):
                                ok = True
                    n += 1
                    rep.ob(rule, b.id, "%s: Ok only after a mutating call succeeded" % name, ok, "" if ok else
                           "%s can answer %s without any mutating call of the backend having succeeded: the success is decided by "
                           "the arguments alone (a read-only backend no longer refuses it; a missing source is not reported)"
                           % (name, fmt(t)[:40]), cb.blocks[bb].term.line)
        return n

    def argument_only_refusals(self, rep, rule):
        """the path type refuses a mutating call only because of what the filesystem says (the parent is missing / not a
        directory, the destination exists, the backend's own answer) — never because of the path string alone (the root, an
        empty name): which paths an operation applies to is the backend's decision, and it differs per backend (a read-only
        one answers NotSupported for the root like for anything else)"""
        n = 0
        ops = ("create_dir", "create_file", "append_file", "remove_file", "remove_dir", "remove_dir_all", "create_dir_all",
               "copy_file", "move_file", "copy_dir", "move_dir", "set_creation_time", "set_modification_time", "set_access_time")
        roots = {}
        for name in ops:
            b, cbs = self.bodies(name)
            if b is None:
                continue
            # the method, and the private helpers of the path type it calls (get_parent)
            todo, seen = list(cbs), {c.id for c in cbs}
            for cb in list(todo):
                for s in self.inter.sites(cb):
                    hb = self.inter.local_callee(s)
                    if self.private_helper(hb) and hb.id not in seen:
                        for hcb in self.inter.code_bodies(hb):
                            if hcb.id not in seen:
                                seen.add(hcb.id)
                                todo.append(hcb)
            for cb in todo:
                roots.setdefault(cb.id, (cb, b, name))

        def asks_fs(t):
            for x in walk(t):
                if x[0] == "call" and isinstance(x[1], str):
                    nm = sname(x[1])
                    if nm in ("exists", "metadata", "read_dir", "open_file", "is_file", "is_dir", "walk_dir") or nm in self.MUTATORS or \
                            x[1].split("::")[0] in ("FileSystem", "AsyncFileSystem"):
                        return True
                if x[0] == "closure":
                    return True
            return False

        def about_path(t):
            return any((x[0] == "arg") or (x[0] == "field" and x[2] == "path") for x in walk(t))
        for cid, (cb, b, name) in sorted(roots.items()):
            for blk in cb.blocks:
                if blk.cleanup:
                    continue
                for st in blk.stmts:
                    if not (st.kind == "assign" and st.rv.kind == "agg" and st.rv.agg.get("adt") == "error::VfsErrorKind"):
                        continue
                    gs = self.guards(cb, blk.idx)
                    fsg = [g for g in gs if asks_fs(g[1])]
                    pag = [g for g in gs if not asks_fs(g[1]) and about_path(g[1]) and g[0] in ("bool", "inteq", "intne")]
                    bad = bool(pag) and not fsg
                    n += 1
                    rep.ob(rule, b.id, "%s: %s is answered because of the filesystem's state" % (name, st.rv.agg.get("variant")), not bad,
                           "" if not bad else "%s refuses with %s under a condition on the path string alone (%s): the backend is never asked"
                           % (name, st.rv.agg.get("variant"), "; ".join(fmt_guard(g)[:50] for g in pag)), st.line)
        return n

    def fast_paths(self, rep, rule):
        w = self.w
        n = 0
        for name in ("copy_file", "move_file", "move_dir"):
            b = self.methods.get(name)
            if b is None:
                continue
            ss = self.sites(name, lambda s: s.trait == w.trait and s.name == name)
            if not ss:
                rep.fail(rule, b.id, "%s: backend fast path present" % name, "no call to the backend's %s" % name, b.span)
            for cb, s in ss:
                gs = self.guards(cb, s.bb)
                pe = False
                for g in gs:
                    if g[0] == "bool" and g[2] is True and g[1][0] == "call" and g[1][1] == "Arc::ptr_eq" and len(g[1][2]) == 2:
                        a, c = g[1][2]
                        fa = a[0] == "field" and a[2] == "fs" and self.is_arg(a[1], 0)
                        fc = c[0] == "field" and c[2] == "fs" and self.is_arg(c[1], 1)
                        fa2 = a[0] == "field" and a[2] == "fs" and self.is_arg(a[1], 1)
                        fc2 = c[0] == "field" and c[2] == "fs" and self.is_arg(c[1], 0)
                        if (fa and fc) or (fa2 and fc2):
                            pe = True
                n += 1
                rep.ob(rule, b.id, "%s: fast path only on the same filesystem instance" % name, pe,
                       "under Arc::ptr_eq(self.fs, destination.fs)" if pe else
                       "the backend's same-filesystem %s is called without an Arc::ptr_eq(self.fs, destination.fs) guard" % name, s.line)
                # argument order (src, dest)
                tr = get_tracer(self.facts, cb)
                a1 = norm(tr.operand(s.args[1]))
                a2 = norm(tr.operand(s.args[2]))
                o1 = a1[0] == "field" and a1[2] == "path" and self.is_arg(a1[1], 0)
                o2 = a2[0] == "field" and a2[2] == "path" and self.is_arg(a2[1], 1)
                n += 1
                rep.ob(rule, b.id, "%s: fast path arguments (self.path, destination.path)" % name, o1 and o2,
                       "%s, %s" % (fmt(a1)[:30], fmt(a2)[:30]), s.line)
        # the backend's two-path operations act inside ONE filesystem: wherever else the path type calls them (a loop of
        # copy_dir, a helper), the two paths must be known to live on the same instance too
        for name, b in sorted(self.methods.items()):
            if name in ("copy_file", "move_file", "move_dir"):
                continue
            for cb, s in self.sites(name, lambda s: s.trait == w.trait and s.name in ("copy_file", "move_file", "move_dir")):
                gs = self.guards(cb, s.bb)
                pe = any(g[0] == "bool" and g[2] is True and g[1][0] == "call" and g[1][1] == "Arc::ptr_eq" for g in gs)
                n += 1
                rep.ob(rule, b.id, "%s: backend %s only on the same filesystem instance" % (name, s.name), pe, "" if pe else
                       "%s calls the backend's same-filesystem %s without an Arc::ptr_eq test of the two paths' filesystems: across "
                       "filesystems the source's backend is asked to write a path of its own namespace" % (name, s.name), s.line)
        return n

    # ------------------------------------------------------------------ generic routes (R11.3 / R04.4)
    def generic_routes(self, rep, rule):
        w = self.w
        n = 0
        for name in ("copy_file", "move_file"):
            b = self.methods.get(name)
            if b is None:
                continue
            for cb in self.cbs(b):
                tr = get_tracer(self.facts, cb)
                for s in self.inter.sites(cb):
                    if sname(s.path) == "copy" and s.path.endswith("io::copy"):
                        r = self.through_helpers(tr.operand(s.args[0]))
                        wri = self.through_helpers(tr.operand(s.args[1]))
                        rsrc = peel(r)
                        wsrc = peel(wri)
                        okr = rsrc[0] == "call" and sname(rsrc[1]) == "open_file" and rsrc[2] and self.is_arg(rsrc[2][0], 0)
                        okw = wsrc[0] == "call" and sname(wsrc[1]) == "create_file" and wsrc[2] and self.is_arg(wsrc[2][0], 1)
                        n += 2
                        rep.ob(rule, b.id, "%s: stream copy reads self.open_file()" % name, okr, fmt(r)[:60], s.line)
                        rep.ob(rule, b.id, "%s: stream copy writes destination.create_file()" % name, okw, fmt(wri)[:60], s.line)
            if not any(sname(s.path) == "copy" and s.path.endswith("io::copy") for cb in self.cbs(b) for s in self.inter.sites(cb)):
                rep.fail(rule, b.id, "%s: generic stream copy present" % name, "no io::copy call found", b.span)
            # the generic route needs nothing of a filesystem but open_file / create_file (+ remove_file for a move): any other
            # mutating call (carrying a time stamp over, fixing permissions) makes the transfer fail on backends that lack that
            # optional operation although every byte was copied
            allowed = {"create_file", name} | ({"remove_file"} if name == "move_file" else set())
            extra = []
            for cb in self.cbs(b):
                for s in self.inter.sites(cb):
                    nm = sname(s.path)
                    if nm in self.MUTATORS and nm != "copy" and nm not in allowed and \
                            ((s.self_ty or "").endswith("VfsPath") or s.trait == w.trait):
                        extra.append(nm)
            n += 1
            rep.ob(rule, b.id, "%s: the generic route makes no other mutating call" % name, not extra, "" if not extra else
                   "%s also calls %s: a backend without that optional operation fails the whole transfer (and copy_dir / move_dir stop "
                   "halfway)" % (name, ", ".join(sorted(set(extra)))), b.span)
        for name in ("copy_dir", "move_dir"):
            b = self.methods.get(name)
            if b is None:
                continue
            found = {"create_dir_dest": 0, "child_dir": 0, "child_file": 0}
            for cb, s, tr, sub, gs_deep in self.deep_sites(name):
                if True:
                    nm = sname(s.path)
                    if nm == "create_dir" and s.self_ty and s.self_ty.endswith("VfsPath"):
                        recv = norm(sub(tr.operand(s.args[0])))
                        if self.is_arg(recv, 1):
                            found["create_dir_dest"] += 1
                            continue
                        # child directory: receiver = destination.join(item minus prefix), guarded by item type
                        okj = self._is_rerooted_child(recv)
                        gs = gs_deep
                        okt = self.g_type(gs, self._is_walk_item, "Directory")
                        found["child_dir"] += 1
                        n += 2
                        rep.ob(rule, b.id, "%s: child directory created at destination.join(relative)" % name, okj, fmt(recv)[:80], s.line)
                        rep.ob(rule, b.id, "%s: child create_dir chosen by the item's own type" % name, okt,
                               "under item.metadata().file_type == Directory" if okt else "not guarded by the item's type", s.line)
                    if nm == "copy_file" and s.self_ty and s.self_ty.endswith("VfsPath"):
                        recv = norm(sub(tr.operand(s.args[0])))
                        dst = norm(sub(tr.operand(s.args[1])))
                        okr = self._is_walk_item(recv)
                        okd = self._is_rerooted_child(dst)
                        gs = gs_deep
                        okt = self.g_type(gs, self._is_walk_item, "File")
                        found["child_file"] += 1
                        n += 3
                        rep.ob(rule, b.id, "%s: file copied from the walked item" % name, okr, fmt(recv)[:60], s.line)
                        rep.ob(rule, b.id, "%s: file copied to destination.join(relative)" % name, okd, fmt(dst)[:80], s.line)
                        rep.ob(rule, b.id, "%s: child copy_file chosen by the item's own type" % name, okt,
                               "under item.metadata().file_type == File" if okt else "not guarded by the item's type", s.line)
            for k, v in found.items():
                n += 1
                rep.ob(rule, b.id, "%s: %s present" % (name, k), v >= 1, "%d site(s)" % v, b.span)
        return n

    def backend_passthrough(self, rep, rule, names):
        """what a method of the path type hands out is what the backend's method of the same name returned for this path, on every
        successful return: no other route to a handle (`create_file` answering with `append_file()` for an empty file), no remembered
        answer (metadata cached in the path value while it was walked)"""
        n = 0
        tname = self.w.trait
        for name in names:
            b = self.methods.get(name)
            if b is None:
                continue
            bad = []
            for ct, _, bb in self.inter.ret_cases(b):
                if self.inter.case_polarity(ct) == "err":
                    continue
                v = norm(ct)
                for a in alts(v if not (v[0] == "agg" and v[2] == "Ok" and v[3]) else norm(v[3][0][1])):
                    x = a
                    for _ in range(6):
                        x = peel(x)
                        if x[0] == "call" and isinstance(x[1], str) and short(x[1]) in ("Result::map_err", "Result::map", "Into::into", "From::from", "Ok") and x[2]:
                            x = norm(x[2][0])
                            continue
                        pt = passthrough_of(x)
                        if pt is not x and pt != x:
                            x = pt
                            continue
                        break
                    x = peel(x)
                    ok = x[0] == "call" and sname(x[1]) == name and len(x) > 3 and x[3] is not None
                    if ok:
                        sb = self.facts.body(x[3][0])
                        t_ = sb.blocks[x[3][1]].term if sb is not None else None
                        ok = t_ is not None and t_.func.kind == "fn" and (t_.func.fn.get("trait") or "") == tname
                    if not ok:
                        bad.append(fmt(a)[:60])
            n += 1
            rep.ob(rule, b.id, "%s hands out the backend's %s result for this path" % (name, name), not bad, "" if not bad else
                   "%s can answer with %s, which is not the result of the backend's %s call" % (name, bad[0], name), b.span)
        return n

    def _is_walk_item(self, t):
        t = norm(t)
        for x in walk(t):
            if x[0] == "call" and sname(x[1]) == "walk_dir" and x[2] and self.is_arg(x[2][0], 0):
                return peel(t)[0] == "call" and sname(peel(t)[1]) == "next" or True
        return False

    def _is_rerooted_child(self, t):
        """destination.join(item.as_str()[self.path.len() + 1 ..])"""
        t = peel(norm(t))
        if not (t[0] == "call" and sname(t[1]) == "join" and len(t[2]) == 2 and self.is_arg(t[2][0], 1)):
            return False
        a = t[2][1]
        if a[0] == "call" and a[1] == "Index::index" and len(a[2]) == 2:
            base, rng = a[2]
            if not self._is_walk_item(base):
                return False
            if rng[0] == "agg" and rng[1].endswith("RangeFrom"):
                st = dict(rng[3]).get("start")
                ar = unchecked_arith(st)
                if ar and ar[0] == "Add" and ar[2] == ("int", 1) and ar[1][0] == "call" and ar[1][1] in ("str::len", "String::len"):
                    x = ar[1][2][0]
                    return x[0] == "field" and x[2] == "path" and self.is_arg(x[1], 0)
        return False

    # ------------------------------------------------------------------ copy_dir counter (R11.4)
    def copy_dir_count(self, rep, rule):
        b = self.methods.get("copy_dir")
        if b is None:
            return 0
        n = 0
        # the returned Ok payload is a counter: phi(0, counter + 1); increments sit in the loop after copy succeeded
        incs = []
        for cb in self.cbs(b):
            tr = get_tracer(self.facts, cb)
            for blk in cb.blocks:
                if blk.cleanup:
                    continue
                t = blk.term
                if t.kind == "assert" and "Overflow(Add" in t.j["msg"]:
                    c = norm(tr.operand(t.cond))
                    if c[0] == "field" and c[1][0] == "bin" and c[1][3] == ("int", 1) and "u64" in repr(tr.body.local_ty(t.cond.place.local) if t.cond.place else ""):
                        incs.append((cb, blk.idx, t.line))
        # `+= 1` on a u64 (directly or through a captured &mut): the overflow assert names the constant 1_u64
        incs = []
        for cb in self.cbs(b):
            for blk in cb.blocks:
                if blk.cleanup:
                    continue
                t = blk.term
                if t.kind == "assert" and "Overflow(Add" in t.j["msg"] and "1_u64" in t.j["msg"]:
                    incs.append((cb, blk.idx, t.line))
        n += 1
        rep.ob(rule, b.id, "copy_dir: exactly one counter increment site", len(incs) == 1, "%d `+= 1` site(s) on a u64" % len(incs), b.span)
        for cb, bb, line in incs:
            gs = self.guards(cb, bb)
            in_loop = any(g[0] == "variant" and g[3] == "Some" and peel(g[1])[0] == "call" and sname(peel(g[1])[1]) == "next" for g in gs)
            # after the item's copy/create succeeded: dominated by an ok edge of copy_file or create_dir of a child
            tr = get_tracer(self.facts, cb)
            doms = tr.cfg.dominating_blocks(bb)
            after = False
            # the increment must come after the match on the item's type: both arms (create_dir / copy_file) `?`-checked
            # i.e. no path from loop head to the increment avoids a successful create_dir/copy_file
            sets = tr.path_guard_sets(bb)
            if sets is not None:
                after = True
                for gs2 in sets:
                    gs2 = [nguard(g) for g in gs2]
                    okp = any(g[0] == "variant" and g[2] == "ok" and peel(g[1])[0] == "call" and
                              sname(peel(g[1])[1]) in ("copy_file", "create_dir") and
                              not self.is_arg(norm(peel(g[1])[2][0]), 1) for g in gs2)
                    if not okp:
                        # ... or of a private helper of the path type every return of which hands on the result of one of the two
                        # (`src.copy_entry_to(&dest)?` with `match type { Directory => dest.create_dir(), File => self.copy_file(dest) }`)
                        for g in gs2:
                            if g[0] == "variant" and g[2] == "ok" and peel(g[1])[0] == "call":
                                hb = self.inter.body_of_call(peel(g[1]))
                                if self.private_helper(hb):
                                    cases = self.inter.ret_cases(hb)
                                    pts = [passthrough_of(norm(ct)) for ct, _, _ in cases if self.inter.case_polarity(ct) != "err"]
                                    if pts and all(pt[0] == "call" and sname(pt[1]) in ("copy_file", "create_dir") for pt in pts):
                                        okp = True
                    if not okp:
                        after = False
            n += 2
            rep.ob(rule, b.id, "copy_dir: increment once per walked item", in_loop, "inside the walk loop" if in_loop else "not inside the item loop", line)
            rep.ob(rule, b.id, "copy_dir: increment after the item was copied", after,
                   "every path to the increment passes a successful child create_dir/copy_file" if after else
                   "some path reaches the increment without a successful copy of the item", line)
        # returned value is the counter: the local returned in Ok(..) is the one the incrementing closure borrows mutably
        okret = False
        outer = b
        tr0 = get_tracer(self.facts, outer)
        ret_locals = set()
        for blk in outer.blocks:
            if blk.cleanup:
                continue
            for st in blk.stmts:
                if st.kind == "assign" and st.lhs.local == 0 and st.rv.kind == "agg" and st.rv.agg.get("variant") == "Ok" and st.rv.ops:
                    o = st.rv.ops[0]
                    if o.place is not None:
                        # follow one copy
                        l = o.place.local
                        ret_locals.add(l)
                        for kind, bb2, idx2 in tr0.defs.get(l, []):
                            if kind == "assign":
                                rv = outer.blocks[bb2].stmts[idx2].rv
                                if rv.kind == "use" and rv.ops[0].place is not None:
                                    ret_locals.add(rv.ops[0].place.local)
        borrowed = set()
        for blk in outer.blocks:
            if blk.cleanup:
                continue
            for st in blk.stmts:
                if st.kind == "assign" and st.rv.kind == "ref" and st.rv.mut and st.rv.place.is_local():
                    borrowed.add(st.rv.place.local)
        inc_in_closure = any(cb.kind == "Closure" and not cb.coroutine for cb, _, _ in incs)
        if inc_in_closure:
            okret = bool(ret_locals & borrowed)
        else:
            cases = self.inter.ret_cases(b)
            for ct, _, _ in cases:
                if self.inter.case_polarity(ct) == "ok" and "AddWithOverflow" in repr(norm(ct)):
                    okret = True
            # async form: the counter lives inside the async block and is its Ok payload
            for cb, bb, line in incs:
                for ct, _, _ in self.inter.ret_cases(cb):
                    if self.inter.case_polarity(ct) == "ok" and "AddWithOverflow" in repr(norm(ct)):
                        okret = True
        n += 1
        rep.ob(rule, b.id, "copy_dir: returns the counter", okret, "Ok payload derives from the incremented counter", b.span)
        return n

    # ------------------------------------------------------------------ create_dir_all (R17.1 / R17.2 / R11.5)
    def create_dir_all(self, rep, rule):
        w = self.w
        b = self.methods.get("create_dir_all")
        if b is None:
            rep.fail(rule, w.path_ty, "create_dir_all present", "public method missing")
            return 0
        n = 0
        cbs = self.cbs(b)
        creates = []
        observers = []
        for cb in cbs:
            for s in self.inter.sites(cb):
                if s.trait == w.trait and s.name == "create_dir":
                    creates.append((cb, s))
                if (s.trait == w.trait and s.name in ("exists", "metadata", "read_dir")) or \
                        sname(s.path) in ("exists", "metadata", "is_dir", "is_file") and s.self_ty and s.self_ty.endswith("VfsPath"):
                    observers.append((cb, s))
        n += 1
        rep.ob(rule, b.id, "create_dir_all: attempts create_dir on the backend", len(creates) >= 1, "%d site(s)" % len(creates), b.span)
        # R17.1 never ask first: no creating call is control-dependent on an observation
        for cb, s in creates:
            gs = self.guards(cb, s.bb)
            dep = [g for g in gs if any(x[0] == "call" and sname(x[1]) in ("exists", "metadata", "is_dir", "is_file", "read_dir")
                                         for x in walk(g[1]))]
            n += 1
            rep.ob(rule, b.id, "create_dir_all: create attempt not guarded by an existence check", not dep,
                   "attempt-then-tolerate" if not dep else
                   "the create_dir attempt depends on %s: check-then-create loses the race when another thread creates the "
                   "directory in between" % fmt_guard(dep[0])[:80], s.line)
            # the argument is a prefix of self.path
            tr = get_tracer(self.facts, cb)
            a = norm(tr.operand(s.args[1]))
            okp = a[0] == "call" and a[1] == "Index::index" and a[2][0][0] == "field" and a[2][0][2] == "path" and \
                a[2][1][0] == "agg" and a[2][1][1].endswith("RangeTo")
            n += 1
            rep.ob(rule, b.id, "create_dir_all: creates a prefix of self.path", okp, fmt(a)[:80], s.line)
        n += 1
        rep.ob(rule, b.id, "create_dir_all: no observation of the filesystem at all", not observers,
               "none" if not observers else "calls %s (%s)" % (observers[0][1].short, observers[0][1].line), b.span)
        # R17.2 only DirectoryExists tolerated: handled through the kind-switch table in results (C20 R20.2); here:
        from .results import ResultFlow
        tolerated = set()
        for cb in cbs:
            rf = ResultFlow(self.facts, cb)
            for (s_, d_, variant, eterm) in rf.kind_switch_edges():
                if variant is None:
                    variant = "<any other kind>"   # the catch-all arm: it must lead to the error return only
                # does this arm continue the loop (reach another create_dir attempt or an Ok return)?
                tr = get_tracer(self.facts, cb)
                reach = tr.cfg.reachable_from(d_)
                cont = False
                for r in reach:
                    blk = cb.blocks[r]
                    for st in blk.stmts:
                        if st.kind == "assign" and st.lhs.local == 0 and st.rv.kind == "agg" and st.rv.agg.get("variant") == "Ok":
                            cont = True
                if cont:
                    tolerated.add(variant)
                    if variant == "DirectoryExists":
                        # the tolerance is unconditional: from this arm no Err return is reachable before the next attempt
                        create_bbs = {s.bb for c2, s in creates if c2 is cb}
                        seen, st = set(), [d_]
                        bad_line = None
                        while st:
                            x = st.pop()
                            if x in seen:
                                continue
                            seen.add(x)
                            blk = cb.blocks[x]
                            for st_ in blk.stmts:
                                if st_.kind == "assign" and st_.lhs.local == 0 and st_.lhs.is_local() and st_.rv.kind == "agg" and \
                                        st_.rv.agg.get("variant") == "Err":
                                    bad_line = st_.line
                            if x in create_bbs:
                                continue
                            st.extend(tr.cfg.succ[x])
                        n += 1
                        rep.ob(rule, b.id, "create_dir_all: DirectoryExists is tolerated unconditionally", bad_line is None,
                               "no Err return between the DirectoryExists arm and the next attempt" if bad_line is None else
                               "the DirectoryExists arm can still return Err (the tolerance depends on further state): a caller "
                               "that is overtaken by a concurrent create_dir_all on an overlapping path fails with DirectoryExists", bad_line or b.span)
            # the catch-all arm must return the error
            for e in rf.err_edges():
                pass
        n += 1
        rep.ob(rule, b.id, "create_dir_all: tolerates exactly DirectoryExists", tolerated == {"DirectoryExists"},
               "tolerated kinds: %s" % sorted(tolerated), b.span)
        # root returns Ok immediately
        okroot = False
        for cb in cbs:
            for blk in cb.blocks:
                for st in blk.stmts:
                    if st.kind == "assign" and st.lhs.local == 0 and st.rv.kind == "agg" and st.rv.agg.get("variant") == "Ok":
                        gs = self.guards(cb, blk.idx)
                        if any(g[0] == "bool" and g[2] is True and g[1][0] == "call" and g[1][1] in ("str::is_empty", "String::is_empty") for g in gs):
                            okroot = True
        n += 1
        rep.ob(rule, b.id, "create_dir_all: root returns Ok immediately", okroot, "", b.span)
        return n
