"""Lock-region analysis for std::sync::RwLock / Mutex guards (C16, C17, C13-D9)."""
from .terms import get_tracer, short, strip, fmt
from .dataflow import local_uses

ACQUIRE = {"RwLock::read": "read", "RwLock::write": "write", "Mutex::lock": "write",
           "RwLock::try_read": "read", "RwLock::try_write": "write"}
GUARD_TYPES = ("std::sync::RwLockReadGuard<", "std::sync::RwLockWriteGuard<", "std::sync::MutexGuard<")


class Acquisition:
    __slots__ = ("body", "bb", "mode", "lock_term", "guard_local", "start", "region", "drops", "line", "escapes")

    def __init__(self):
        self.escapes = False

    def describe(self):
        return "%s-lock at %s" % (self.mode, self.line)


def is_guard_ty(ty):
    return ty.startswith(GUARD_TYPES)


class LockInfo:
    """direct acquisitions in one body and their regions"""

    def __init__(self, facts, body):
        self.facts = facts
        self.body = body
        self.tr = get_tracer(facts, body)
        self.cfg = self.tr.cfg
        self.acqs = []
        self._find()

    def _find(self):
        body = self.body
        uses = None
        for b in body.calls():
            t = b.term
            sh = short(t.callee()) if t.callee() else ""
            if sh not in ACQUIRE or not t.callee().startswith("std::sync"):
                continue
            a = Acquisition()
            a.body = body
            a.bb = b.idx
            a.mode = ACQUIRE[sh]
            a.line = t.line
            a.lock_term = strip(self.tr.operand(t.args[0])) if t.args else ("unknown",)
            # find the guard local: follow the LockResult through unwrap/expect/`?`/match
            res_local = t.dest.local if t.dest is not None and t.dest.is_local() else None
            gl = None
            start = t.target
            cur = res_local
            hops = 0
            while cur is not None and hops < 6:
                hops += 1
                if is_guard_ty(body.local_ty(cur)):
                    gl = cur
                    break
                nxt = None
                for bb2 in body.calls():
                    t2 = bb2.term
                    for arg in t2.args:
                        if arg.kind in ("move", "copy") and arg.place.is_local() and arg.place.local == cur:
                            if t2.dest is not None and t2.dest.is_local():
                                nxt = t2.dest.local
                                start = t2.target
                if nxt is None:
                    # assigned by statement (move / downcast payload)
                    for blk in body.blocks:
                        if blk.cleanup:
                            continue
                        for s in blk.stmts:
                            if s.kind == "assign" and s.lhs.is_local() and s.rv.kind == "use" and \
                                    s.rv.ops[0].kind in ("move", "copy") and s.rv.ops[0].place.local == cur:
                                nxt = s.lhs.local
                                start = blk.idx
                cur = nxt
            a.guard_local = gl
            a.start = start
            a.drops = []
            a.region = set()
            if gl is None or start is None:
                a.escapes = True
                self.acqs.append(a)
                continue
            # region: forward from start, stopping after blocks that drop the guard
            seen = set()
            st = [start]
            while st:
                x = st.pop()
                if x in seen:
                    continue
                seen.add(x)
                blk = body.blocks[x]
                tt = blk.term
                if tt.kind == "drop" and tt.place.is_local() and tt.place.local == gl:
                    a.drops.append(x)
                    continue
                # StorageDead(gl) without drop (moved out)
                if any(s.kind == "dead" and s.local == gl for s in blk.stmts) and x != start:
                    continue
                st.extend(self.cfg.succ[x])
            a.region = seen
            # does the guard escape (moved into a call / aggregate / return)?
            if uses is None:
                uses = local_uses(body)
            for (ubb, uidx, how) in uses.get(gl, []):
                if how == "move":
                    a.escapes = True
            self.acqs.append(a)

    def sites_in_region(self, a):
        """blocks in the region whose terminator is a call (excluding the drop blocks)"""
        return [x for x in a.region if self.body.blocks[x].term.kind == "call"]


class LockSummary:
    """interprocedural: which functions acquire (directly or through in-crate callees)"""

    def __init__(self, facts, inter):
        self.facts = facts
        self.inter = inter
        self._info = {}
        self._acq = {}

    def info(self, body):
        if body.id not in self._info:
            self._info[body.id] = LockInfo(self.facts, body)
        return self._info[body.id]

    def events(self, body, _stack=()):
        """lock events of one body in CFG terms: [(bb, kind, detail)] where kind = 'acquire' (direct) or
        'call' (callee that acquires, transitively), closures excluded (they run inside callees)"""
        out = []
        li = self.info(body)
        for a in li.acqs:
            out.append((a.bb, "acquire", a))
        for s in self.inter.sites(body):
            c = self.inter.local_callee(s)
            if c is None or c.id in _stack or c.id == body.id:
                continue
            if self.acquires(c, _stack + (body.id,)):
                out.append((s.bb, "call", c))
        return out

    def acquires(self, body, _stack=()):
        if body.id in self._acq:
            return self._acq[body.id]
        if body.id in _stack:
            return False
        res = False
        for cb in self.inter.code_bodies(body):
            if self.info(cb).acqs:
                res = True
                break
            for s in self.inter.sites(cb):
                c = self.inter.local_callee(s)
                if c is not None and c.id != body.id and self.acquires(c, _stack + (body.id,)):
                    res = True
                    break
            if res:
                break
        self._acq[body.id] = res
        return res
