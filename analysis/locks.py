"""Lock-region analysis for std::sync::RwLock / Mutex guards (C16, C17, C13-D9)."""
from .terms import get_tracer, short, strip, fmt
from .dataflow import local_uses

ACQUIRE = {"RwLock::read": "read", "RwLock::write": "write", "Mutex::lock": "write",
           "RwLock::try_read": "read", "RwLock::try_write": "write"}
GUARD_TYPES = ("std::sync::RwLockReadGuard<", "std::sync::RwLockWriteGuard<", "std::sync::MutexGuard<")
ASYNC_GUARD_TYPES = {"read": ("async_std::sync::RwLockReadGuard<", "async_lock::rwlock::RwLockReadGuard<", "async_lock::RwLockReadGuard<"),
                     "write": ("async_std::sync::RwLockWriteGuard<", "async_lock::rwlock::RwLockWriteGuard<", "async_lock::RwLockWriteGuard<",
                               "async_std::sync::MutexGuard<", "async_lock::mutex::MutexGuard<", "async_lock::MutexGuard<")}
ASYNC_LOCK_PREFIXES = ("async_std::sync::", "async_lock::")


class Acquisition:
    __slots__ = ("body", "bb", "mode", "lock_term", "guard_local", "start", "region", "drops", "line", "escapes", "is_async")

    def __init__(self):
        self.escapes = False
        self.is_async = False

    def describe(self):
        return "%s-lock at %s" % (self.mode, self.line)


def is_guard_ty(ty):
    return ty.startswith(GUARD_TYPES) or any(ty.startswith(v) for v in ASYNC_GUARD_TYPES.values())


class LockInfo:
    """direct acquisitions in one body and their regions"""

    def __init__(self, facts, body):
        self.facts = facts
        self.body = body
        self.tr = get_tracer(facts, body)
        self.cfg = self.tr.cfg
        self.acqs = []
        self._find()

    def _find(self):
        body = self.body
        uses = None
        for b in body.calls():
            t = b.term
            sh = short(t.callee()) if t.callee() else ""
            if sh in ACQUIRE and t.callee().startswith(ASYNC_LOCK_PREFIXES):
                self._find_async(b, ACQUIRE[sh])
                continue
            if sh not in ACQUIRE or not t.callee().startswith("std::sync"):
                continue
            a = Acquisition()
            a.body = body
            a.bb = b.idx
            a.mode = ACQUIRE[sh]
            a.line = t.line
            a.lock_term = strip(self.tr.operand(t.args[0])) if t.args else ("unknown",)
            # find the guard local: follow the LockResult through unwrap/expect/`?`/match
            res_local = t.dest.local if t.dest is not None and t.dest.is_local() else None
            gl = None
            start = t.target
            cur = res_local
            hops = 0
            while cur is not None and hops < 6:
                hops += 1
                if is_guard_ty(body.local_ty(cur)):
                    gl = cur
                    break
                nxt = None
                for bb2 in body.calls():
                    t2 = bb2.term
                    for arg in t2.args:
                        if arg.kind in ("move", "copy") and arg.place.is_local() and arg.place.local == cur:
                            if t2.dest is not None and t2.dest.is_local():
                                nxt = t2.dest.local
                                start = t2.target
                if nxt is None:
                    # assigned by statement (move / downcast payload)
                    for blk in body.blocks:
                        if blk.cleanup:
                            continue
                        for s in blk.stmts:
                            if s.kind == "assign" and s.lhs.is_local() and s.rv.kind == "use" and \
                                    s.rv.ops[0].kind in ("move", "copy") and s.rv.ops[0].place.local == cur:
                                nxt = s.lhs.local
                                start = blk.idx
                cur = nxt
            a.guard_local = gl
            a.start = start
            a.drops = []
            a.region = set()
            if gl is None or start is None:
                a.escapes = True
                self.acqs.append(a)
                continue
            # region: forward from start, stopping after blocks that drop the guard
            seen = set()
            st = [start]
            while st:
                x = st.pop()
                if x in seen:
                    continue
                seen.add(x)
                blk = body.blocks[x]
                tt = blk.term
                if tt.kind == "drop" and tt.place.is_local() and tt.place.local == gl:
                    a.drops.append(x)
                    continue
                # StorageDead(gl) without drop (moved out)
                if any(s.kind == "dead" and s.local == gl for s in blk.stmts) and x != start:
                    continue
                st.extend(self.cfg.succ[x])
            a.region = seen
            # does the guard escape (moved into a call / aggregate / return)?
            if uses is None:
                uses = local_uses(body)
            for (ubb, uidx, how) in uses.get(gl, []):
                if how == "move":
                    a.escapes = True
            self.acqs.append(a)

    def _find_async(self, b, mode):
        """`lock.read().await` / `block_on(lock.write())` / `try_write()`: the guard reaches its holder through the await
        expansion (IntoFuture, poll, Poll::Ready payload) or a combinator, so the holder is found by type — the guard-typed
        local that is never moved out of — and paired with the nearest dominating acquisition of its mode."""
        body = self.body
        t = b.term
        a = Acquisition()
        a.body = body
        a.bb = b.idx
        a.mode = mode
        a.line = t.line
        a.lock_term = strip(self.tr.operand(t.args[0])) if t.args else ("unknown",)
        a.drops = []
        a.region = set()
        a.guard_local = None
        a.start = None
        a.is_async = True
        uses = local_uses(body)
        holders = []
        for l in range(len(body.locals)):
            ty = body.local_ty(l)
            if not ty.startswith(ASYNC_GUARD_TYPES[mode]):
                continue
            if any(how == "move" for (_, _, how) in uses.get(l, [])):
                continue
            defs = [(body.blocks[bb].term.target if kind == "call" and body.blocks[bb].term.target is not None else bb)
                    for kind, bb, idx in self.tr.defs.get(l, [])]
            for d in defs:
                if b.idx in self.cfg.dominating_blocks(d) or d == b.idx:
                    holders.append((l, d))
        # nearest: the holder whose definition is dominated by this acquisition and by no later acquisition of the same mode
        later = [x.idx for x in body.calls() if x.idx != b.idx and x.term.callee() and short(x.term.callee()) in ACQUIRE and
                 ACQUIRE[short(x.term.callee())] == mode and x.term.callee().startswith(ASYNC_LOCK_PREFIXES) and
                 b.idx in self.cfg.dominating_blocks(x.idx)]
        holders = [(l, d) for (l, d) in holders if not any(x in self.cfg.dominating_blocks(d) for x in later)]
        if not holders:
            a.escapes = True
            self.acqs.append(a)
            return
        gl, start = holders[0]
        a.guard_local = gl
        a.start = start
        seen = set()
        st = [start]
        while st:
            x = st.pop()
            if x in seen:
                continue
            seen.add(x)
            tt = body.blocks[x].term
            if tt.kind == "drop" and tt.place.is_local() and tt.place.local == gl:
                a.drops.append(x)
                continue
            st.extend(self.cfg.succ[x])
        a.region = seen
        self.acqs.append(a)

    def sites_in_region(self, a):
        """blocks in the region whose terminator is a call (excluding the drop blocks)"""
        return [x for x in a.region if self.body.blocks[x].term.kind == "call"]


class LockSummary:
    """interprocedural: which functions acquire (directly or through in-crate callees)"""

    def __init__(self, facts, inter):
        self.facts = facts
        self.inter = inter
        self._info = {}
        self._acq = {}

    def info(self, body):
        if body.id not in self._info:
            self._info[body.id] = LockInfo(self.facts, body)
        return self._info[body.id]

    def events(self, body, _stack=()):
        """lock events of one body in CFG terms: [(bb, kind, detail)] where kind = 'acquire' (direct) or
        'call' (callee that acquires, transitively), closures excluded (they run inside callees)"""
        out = []
        li = self.info(body)
        for a in li.acqs:
            out.append((a.bb, "acquire", a))
        for s in self.inter.sites(body):
            c = self.inter.local_callee(s)
            if c is None or c.id in _stack or c.id == body.id:
                continue
            if c.kind == "Closure" and c.coroutine:
                continue  # polling a future: the call that created it is the event
            if self.acquires(c, _stack + (body.id,)):
                out.append((s.bb, "call", c))
        return out

    def acquires(self, body, _stack=()):
        if body.id in self._acq:
            return self._acq[body.id]
        if body.id in _stack:
            return False
        res = False
        for cb in self.inter.code_bodies(body):
            if self.info(cb).acqs:
                res = True
                break
            for s in self.inter.sites(cb):
                c = self.inter.local_callee(s)
                if c is not None and c.id != body.id and self.acquires(c, _stack + (body.id,)):
                    res = True
                    break
            if res:
                break
        self._acq[body.id] = res
        return res
