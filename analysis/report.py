"""Obligation bookkeeping shared by all property checkers."""
import json
from collections import defaultdict


class Report:
    def __init__(self, prop):
        self.prop = prop
        self.obligations = []   # dicts: rule, key, ok, detail, loc
        self._ord = defaultdict(int)
        self.counts = []        # (name, measured, floor)
        self.notes = []
        self.analysed = set()   # function ids looked at
        self.assumptions = []
        self.partial = False    # facts of a sub-configuration (a feature is compiled out): absent worlds/floors tolerated

    def key(self, rule, fn, desc):
        base = "%s|%s|%s" % (rule, fn, desc)
        n = self._ord[base]
        self._ord[base] += 1
        return "%s|#%d" % (base, n)

    def ob(self, rule, fn, desc, ok, detail="", loc=None):
        """record one obligation; returns its key"""
        if self.partial and not ok and (desc.endswith("present") or "world present" in desc):
            ok, detail = True, "not compiled in this feature configuration"
        k = self.key(rule, fn, desc)
        self.obligations.append({"rule": rule, "key": k, "ok": bool(ok), "detail": detail, "loc": loc or "", "fn": fn})
        if fn:
            self.analysed.add(fn)
        return k

    def fail(self, rule, fn, desc, detail="", loc=None):
        return self.ob(rule, fn, desc, False, detail, loc)

    def floor(self, name, measured, floor):
        """fail closed when a rule matches fewer instances than were confirmed by hand"""
        self.counts.append((name, measured, floor))
        if self.partial:
            self.ob("FLOOR", "", name, True, "%d (floor not applied to a sub-configuration)" % measured)
            return
        if measured < floor:
            self.ob("FLOOR", "", name, False,
                    "rule instance count %d is below the confirmed floor %d: the rule no longer recognises "
                    "the code (or the anchor disappeared)" % (measured, floor))
        else:
            self.ob("FLOOR", "", name, True, "%d >= %d" % (measured, floor))

    def note(self, text):
        self.notes.append(text)

    def assume(self, text):
        if text not in self.assumptions:
            self.assumptions.append(text)

    def violations(self):
        return [o for o in self.obligations if not o["ok"]]

    def summary(self):
        n = len(self.obligations)
        d = sum(1 for o in self.obligations if o["ok"])
        return n, d
