"""Symbolic value terms (value origin / provenance) over a Body, and guard facts.

A *term* is a nested tuple describing where a value comes from, computed by a backward def-use
closure.  References and dereferences are transparent (a pointer and its pointee share a term).

  ('arg', i, name)                     i-th argument of the (root) function
  ('const', text)                      constant operand (string literals as ('str', s))
  ('str', s) / ('char', c) / ('int', n)
  ('call', path, (args...), site)      result of a call; site = (body_id, bb)
  ('await', t)                         value of `t.await`
  ('field', t, name)                   field of a struct value
  ('vfield', t, variant, name)         field of an enum variant payload
  ('okval', t) / ('errval', t)         Ok/Some/Continue resp. Err/Break payload of t (`?` collapsed)
  ('agg', adt, variant, ((field, term)...))
  ('tuple', (terms...)) / ('array', (terms...))
  ('closure', def, ((i, term)...))
  ('bin', op, a, b) / ('un', op, a) / ('cast', a, ty)
  ('discr', t)
  ('index', t, i)                      t[i] via place projection
  ('phi', (terms...))                  several reaching definitions (flow-insensitive)
  ('upvar', name)                      unresolved closure capture
  ('rec',)                             cycle cut
  ('unknown', text)
"""
import re
from collections import defaultdict

from .cfg import CFG

OK_VARIANTS = {"Ok", "Some", "Continue"}
ERR_VARIANTS = {"Err", "None", "Break"}

TRY_BRANCH = "std::ops::Try::branch"
FROM_RESIDUAL = "std::ops::FromResidual::from_residual"


OKVAL_COMBINATORS = {"Option::map", "Option::and_then", "Option::filter", "Option::is_some_and", "Option::inspect",
                     "Result::map", "Result::and_then", "Result::is_ok_and", "Result::inspect", "Option::map_or_else",
                     "Option::is_none_or", "Poll::map", "Option::map_or", "Result::map_or", "Result::map_or_else"}
ERRVAL_COMBINATORS = {"Result::map_err", "Result::or_else", "Result::unwrap_or_else", "Result::is_err_and",
                      "Result::inspect_err"}
ELEM_COMBINATORS = {"Iterator::map", "Iterator::filter", "Iterator::filter_map", "Iterator::for_each", "Iterator::any",
                    "Iterator::all", "Iterator::find", "Iterator::position", "Iterator::flat_map", "Iterator::take_while",
                    "Iterator::skip_while", "Iterator::inspect", "Iterator::find_map", "StreamExt::map",
                    "StreamExt::filter", "StreamExt::filter_map", "StreamExt::for_each", "StreamExt::then",
                    "Iterator::map_while", "Iterator::partition", "Iterator::max_by_key", "Iterator::min_by_key"}


def short(path):
    """last two segments of a def path without generic args: 'std::collections::HashMap::<K,V>::insert' -> 'HashMap::insert'"""
    p = re.sub(r"num::<impl ([iu](?:8|16|32|64|128|size))>", r"\1", path)
    p = re.sub(r"<[^<>]*>", "", p)
    while "<" in p:
        q = re.sub(r"<[^<>]*>", "", p)
        if q == p:
            break
        p = q
    segs = [s for s in p.split("::") if s]
    return "::".join(segs[-2:])


def _has_rec(t):
    st = [t]
    while st:
        x = st.pop()
        if isinstance(x, tuple):
            if x == ("rec",):
                return True
            st.extend(x)
    return False


class Tracer:
    def __init__(self, facts, body, parent_tracer=None):
        self.facts = facts
        self.body = body
        self.cfg = CFG(body)
        self._parent = parent_tracer
        self.defs = defaultdict(list)      # local -> [(kind, bb, idx)]
        self.partial = defaultdict(list)   # local -> [(bb, idx, place, rv)]
        for b in body.blocks:
            if b.cleanup:
                continue
            for i, s in enumerate(b.stmts):
                if s.kind == "assign":
                    if s.lhs.is_local():
                        self.defs[s.lhs.local].append(("assign", b.idx, i))
                    else:
                        self.partial[s.lhs.local].append((b.idx, i, s.lhs, s.rv))
            t = b.term
            if t.kind == "call" and t.dest is not None:
                if t.dest.is_local():
                    self.defs[t.dest.local].append(("call", b.idx, None))
                else:
                    self.partial[t.dest.local].append((b.idx, None, t.dest, None))
            if t.kind == "yield" and t.dest is not None and t.dest.is_local():
                self.defs[t.dest.local].append(("yield", b.idx, None))
        # values exchanged through mem::swap(&mut a, &mut b)
        for b in body.blocks:
            if b.cleanup or b.term.kind != "call":
                continue
            t = b.term
            if t.callee() and short(t.callee()) == "mem::swap" and len(t.args) == 2:
                targets = []
                def ref_target(l, depth=0):
                    if depth > 4:
                        return None
                    for kind, bb, idx in self.defs.get(l, []):
                        if kind == "assign":
                            rv = body.blocks[bb].stmts[idx].rv
                            if rv.kind == "ref":
                                if rv.place.is_local():
                                    return rv.place.local
                                if rv.place.proj == ["deref"]:
                                    return ref_target(rv.place.local, depth + 1)
                    return None
                for a in t.args:
                    L = None
                    if a.kind in ("move", "copy") and a.place.is_local():
                        L = ref_target(a.place.local)
                    targets.append(L)
                for i in (0, 1):
                    if targets[i] is not None:
                        self.defs[targets[i]].append(("swap", b.idx, 1 - i))
        self._memo = {}
        self._memo_rec = {}
        self._agg_site = None

    # ------------------------------------------------------------------ closure env
    def parent_tracer(self):
        if self._parent is None and self.body.kind == "Closure" and self.body.parent:
            pb = self.facts.body(self.body.parent)
            if pb is not None:
                self._parent = get_tracer(self.facts, pb)
        return self._parent

    def _closure_agg(self):
        """(block, stmt, rvalue) in the parent body that builds this closure/coroutine"""
        if self._agg_site is None:
            self._agg_site = False
            pt = self.parent_tracer()
            if pt is not None:
                for b in pt.body.blocks:
                    if b.cleanup:
                        continue
                    for i, s in enumerate(b.stmts):
                        if s.kind == "assign" and s.rv.kind == "agg" and s.rv.agg.get("def") == self.body.id:
                            self._agg_site = (b.idx, i, s.rv)
        return self._agg_site or None

    def callback_site(self):
        """for a closure handed to a private function of the same file that invokes it exactly once (`fn update_file(&self, path, update:
        impl FnOnce(&mut MemoryFile))` … `update(file)`): (helper body, block of the invocation in the helper, the tuple of values the
        helper passes, {helper argument index: term the caller passed}); None otherwise"""
        if hasattr(self, "_cbs"):
            return self._cbs
        self._cbs = None
        site = self._closure_agg()
        pt = self.parent_tracer()
        if site is None or pt is None or self.body.coroutine:
            return None
        bb, idx, rv = site
        clo_local = pt.body.blocks[bb].stmts[idx].lhs
        if not clo_local.is_local():
            return None
        cl = clo_local.local
        for b in pt.body.calls():
            t = b.term
            for ai, a in enumerate(t.args):
                if not (a.kind in ("move", "copy") and a.place.is_local() and a.place.local == cl):
                    continue
                res = t.resolved()
                tp = (res.get("path") if isinstance(res, dict) else res) if res else None
                hb = None
                for cand in (tp, t.callee()):
                    if cand and self.facts.body(cand) is not None:
                        hb = self.facts.body(cand)
                        break
                if hb is None or hb.kind == "Closure" or hb.vis == "pub" or hb.file != self.body.file or \
                        (hb.impl and hb.impl.get("trait")) or hb.id == pt.body.id:
                    return None
                ht = get_tracer(self.facts, hb)
                calls = []
                for hblk in hb.calls():
                    ht_ = hblk.term
                    if short(ht_.callee() or "") in ("FnOnce::call_once", "FnMut::call_mut", "Fn::call") and len(ht_.args) == 2 and \
                            ht_.args[0].place is not None and ht_.args[0].place.is_local():
                        l0 = ht_.args[0].place.local
                        # the callee operand is (a move of) the helper's parameter number ai
                        for _ in range(3):
                            ds = ht.defs.get(l0, [])
                            if 1 <= l0 <= hb.arg_count or len(ds) != 1 or ds[0][0] != "assign":
                                break
                            rv0 = hb.blocks[ds[0][1]].stmts[ds[0][2]].rv
                            if rv0.kind in ("use",) and rv0.ops[0].place is not None and rv0.ops[0].place.is_local():
                                l0 = rv0.ops[0].place.local
                            elif rv0.kind == "ref" and rv0.place.is_local():
                                l0 = rv0.place.local
                            else:
                                break
                        if l0 == ai + 1:
                            calls.append(hblk)
                if len(calls) != 1:
                    return None
                vals = ht.operand(calls[0].term.args[1])
                acts = {j: pt.operand(x) for j, x in enumerate(t.args)}
                self._cbs = (hb, calls[0].idx, vals, acts)
                return self._cbs
        return None

    @staticmethod
    def subst_args(term, hid, acts):
        """term of the helper `hid` with its parameters replaced by what the caller passed"""
        if not isinstance(term, tuple):
            return term
        if len(term) >= 4 and term[0] == "arg" and term[3] == hid and term[1] in acts:
            return acts[term[1]]
        return tuple(Tracer.subst_args(x, hid, acts) if isinstance(x, tuple) else x for x in term)

    def param_binding(self, l):
        """for a closure passed directly to a known combinator: what its first parameter is bound to"""
        if l != 2:
            return None
        if hasattr(self, "_pb"):
            return self._pb
        self._pb = None
        cbs = self.callback_site()
        if cbs is not None:
            hb, _, vals, acts = cbs
            if vals[0] == "tuple" and len(vals[1]) >= 1:
                self._pb = Tracer.subst_args(vals[1][0], hb.id, acts)
                return self._pb
        site = self._closure_agg()
        pt = self.parent_tracer()
        if site is None or pt is None:
            return None
        bb, idx, rv = site
        clo_local = pt.body.blocks[bb].stmts[idx].lhs
        if not clo_local.is_local():
            return None
        cl = clo_local.local
        for b in pt.body.calls():
            t = b.term
            for ai, a in enumerate(t.args):
                if a.kind in ("move", "copy") and a.place.is_local() and a.place.local == cl and ai >= 1:
                    sh = short(t.callee()) if t.callee() else ""
                    a0 = pt.operand(t.args[0])
                    if sh in OKVAL_COMBINATORS:
                        self._pb = ("okval", a0)
                    elif sh in ERRVAL_COMBINATORS:
                        self._pb = ("errval", a0)
                    elif sh in ELEM_COMBINATORS:
                        self._pb = ("okval", ("call", "std::iter::Iterator::next", (a0,), None))
                    return self._pb
        return None

    def upvar_term(self, place, seen):
        """place = projection rooted at _1 (closure env) inside a closure body"""
        # find the first field projection: index of captured variable
        idx = None
        for p in place.proj:
            if isinstance(p, dict) and "f" in p:
                idx = p["f"]
                break
        if idx is None:
            return ("unknown", "env")
        site = self._closure_agg()
        name = self.body.capture_name(place)
        if site is None:
            return ("upvar", name or str(idx))
        _, _, rv = site
        if idx >= len(rv.ops):
            return ("upvar", name or str(idx))
        pt = self.parent_tracer()
        base = pt.operand(rv.ops[idx])
        # remaining projections after the capture field
        rest = []
        hit = False
        for p in place.proj:
            if not hit:
                if isinstance(p, dict) and "f" in p:
                    hit = True
                continue
            rest.append(p)
        return self._project(base, rest, seen)

    # ------------------------------------------------------------------ terms
    def operand(self, op, seen=None):
        if op.kind in ("copy", "move"):
            return self.place(op.place, seen)
        if op.kind == "const":
            s = op.const_str()
            if s is not None:
                return ("str", s)
            c = op.const_char()
            if c is not None:
                return ("char", c)
            n = op.const_int()
            if n is not None:
                return ("int", n)
            bs = op.const_bytes()
            if bs is not None:
                return ("bytes", bs)
            return ("const", op.const["v"])
        if op.kind == "fn":
            return ("fnitem", op.fn["path"])
        return ("unknown", "operand")

    def place(self, place, seen=None):
        if seen is None:
            seen = frozenset()
        if self.body.kind == "Closure" and place.local == 1 and place.proj:
            # closure / coroutine environment access
            if any(isinstance(p, dict) and "f" in p for p in place.proj):
                return self.upvar_term(place, seen)
        base = self.local(place.local, seen)
        return self._project(base, place.proj, seen)

    def _project(self, base, proj, seen):
        t = base
        i = 0
        while i < len(proj):
            p = proj[i]
            if p == "deref" or p == "opaque":
                pass
            elif isinstance(p, dict) and "downcast" in p:
                variant = p["downcast"]
                # expect a following field
                if i + 1 < len(proj) and isinstance(proj[i + 1], dict) and "f" in proj[i + 1]:
                    fname = proj[i + 1]["name"]
                    t = self._vfield(t, variant, fname)
                    i += 1
                else:
                    t = ("vcast", t, variant)
            elif isinstance(p, dict) and "f" in p:
                t = self._field(t, p["name"])
            elif isinstance(p, dict) and "index" in p:
                t = ("index", t, self.local(p["index"], seen))
            elif isinstance(p, dict) and "cidx" in p:
                t = ("index", t, ("int", -p["cidx"] if p["from_end"] else p["cidx"]))
            else:
                t = ("proj", t, str(p))
            i += 1
        return t

    def _field(self, t, name):
        if t[0] == "agg":
            for f, v in t[3]:
                if f == name:
                    return v
        if t[0] == "tuple":
            try:
                return t[1][int(name)]
            except Exception:
                pass
        if t[0] == "phi":
            return _phi([self._field(x, name) for x in t[1]])
        return ("field", t, name)

    def _vfield(self, t, variant, name):
        if t[0] == "phi":
            # an alternative built as another variant cannot be the value that is downcast to this one
            alts = [x for x in t[1] if not (x[0] == "agg" and x[2] and x[2] != variant)]
            if alts:
                return _phi([self._vfield(x, variant, name) for x in alts])
        if t[0] == "agg" and t[2] == variant:
            for f, v in t[3]:
                if f == name:
                    return v
        if variant in OK_VARIANTS or variant in ERR_VARIANTS:
            inner = t
            if t[0] == "call" and t[1] == TRY_BRANCH and t[2]:
                inner = t[2][0]
            if variant == "Ready":
                pass
            return ("okval", inner) if variant in OK_VARIANTS else ("errval", inner)
        if variant == "Ready" and t[0] == "call" and short(t[1]) == "Future::poll":
            return ("await", self._await_target(t))
        return ("vfield", t, variant, name)

    def _await_target(self, poll_term):
        args = poll_term[2]
        if not args:
            return ("unknown", "await")
        pin = args[0]
        # Pin::new_unchecked(&mut fut)
        x = pin
        for _ in range(6):
            if x[0] == "call" and short(x[1]) in ("Pin::new_unchecked", "Pin::new", "IntoFuture::into_future",
                                                   "Pin::as_mut", "DerefMut::deref_mut", "Deref::deref"):
                if x[2]:
                    x = x[2][0]
                    continue
            break
        return x

    def local(self, l, seen=None):
        if seen is None:
            seen = frozenset()
        if l in seen:
            return ("rec",)
        if l in self._memo and (not seen or not self._memo_rec.get(l)):
            # a memoised term that contains a cycle marker was unrolled relative to *its* root: re-using it inside another
            # local's expansion would make the shape of that term depend on which local was asked for first
            return self._memo[l]
        seen2 = seen | {l}
        parts = []
        body = self.body
        if 1 <= l <= body.arg_count:
            if body.kind == "Closure" and l == 1:
                parts.append(("env",))
            elif body.kind == "Closure" and not body.coroutine and self.param_binding(l) is not None:
                parts.append(self.param_binding(l))
            else:
                parts.append(("arg", l - 1, body.name_of_local(l) or "_%d" % l, body.id))
        for kind, bb, idx in self.defs.get(l, []):
            blk = body.blocks[bb]
            if kind == "assign":
                parts.append(self.rvalue(blk.stmts[idx].rv, seen2, (bb, idx)))
            elif kind == "call":
                t = blk.term
                if t.func.kind == "fn":
                    path = t.func.fn["path"]
                else:
                    path = ("indirect", self.operand(t.func, seen2))
                args = tuple(self.operand(a, seen2) for a in t.args)
                parts.append(("call", path, args, (body.id, bb)))
            elif kind == "yield":
                parts.append(("resume",))
            elif kind == "swap":
                parts.append(self.operand(blk.term.args[idx], seen2))
        # struct built by partial writes (e.g. _0.field = ...): ignored here; see partial_fields()
        if not parts:
            res = ("undef", l)
        else:
            res = _phi(parts)
        if not seen:  # only memoise top-level results
            self._memo[l] = res
            self._memo_rec[l] = _has_rec(res)
        return res

    def rvalue(self, rv, seen, site=None):
        k = rv.kind
        if k == "use":
            return self.operand(rv.ops[0], seen)
        if k in ("ref", "rawptr", "cfd"):
            return self.place(rv.place, seen)
        if k == "cast":
            inner = self.operand(rv.ops[0], seen)
            if rv.cast.startswith("PointerCoercion"):
                return inner  # unsizing etc.: same value
            return ("cast", inner, rv.ty)
        if k == "bin":
            return ("bin", rv.op, self.operand(rv.ops[0], seen), self.operand(rv.ops[1], seen))
        if k == "un":
            return ("un", rv.op, self.operand(rv.ops[0], seen))
        if k == "discr":
            return ("discr", self.place(rv.place, seen), tuple(rv.j.get("variants") or ()))
        if k == "agg":
            a = rv.agg
            ops = [self.operand(o, seen) for o in rv.ops]
            if a["kind"] == "adt":
                return ("agg", a["adt"], a["variant"], tuple(zip(a["fields"], ops)))
            if a["kind"] == "tuple":
                return ("tuple", tuple(ops))
            if a["kind"] == "array":
                return ("array", tuple(ops))
            if a["kind"] in ("closure", "coroutine", "coroutine_closure"):
                return ("closure", a["def"], tuple(ops))
            return ("unknown", "agg")
        if k == "repeat":
            return ("array", (self.operand(rv.ops[0], seen),))
        return ("unknown", k)

    # ------------------------------------------------------------------ guards
    def operand_cases(self, op, depth=6):
        """[(term, guards of the assigning block)]: when the operand is (a chain of copies / reborrows of) a local that is assigned
        in several places — the value of an `if` / `match` expression — one case per assignment, each with the branch outcomes
        that hold where it is made; otherwise the single flow-insensitive term with no extra guards"""
        body = self.body
        if op.place is None or not op.place.is_local():
            return [(self.operand(op), [])]
        l = op.place.local
        while depth > 0:
            depth -= 1
            ds = self.defs.get(l, [])
            if 1 <= l <= body.arg_count or len(ds) != 1 or ds[0][0] != "assign":
                break
            rv = body.blocks[ds[0][1]].stmts[ds[0][2]].rv
            if rv.kind == "use" and rv.ops[0].place is not None and rv.ops[0].place.is_local():
                l = rv.ops[0].place.local
                continue
            if rv.kind == "ref" and all(p_ == "deref" for p_ in rv.place.proj):
                l = rv.place.local
                continue
            break
        ds = self.defs.get(l, [])
        if len(ds) >= 2 and all(d[0] == "assign" for d in ds) and not (1 <= l <= body.arg_count):
            return [(self.rvalue(body.blocks[bb].stmts[ix].rv, frozenset(), (bb, ix)), self.guards_at(bb)) for _, bb, ix in ds]
        return [(self.operand(op), [])]

    def guards_at(self, bb):
        """branch outcomes that hold on every path from entry to block bb, as normalised predicates:
           ('bool', term, True|False) / ('variant', term, name) / ('notvariant', term, (names)) /
           ('inteq', term, v) / ('intne', term, (vs))"""
        return self._guards_at(bb, frozenset())

    def _guards_at(self, bb, seen):
        out = []
        for (s, d, label) in self.cfg.dominating_edges(bb):
            if label is None:
                continue
            t = self.body.blocks[s].term
            if t.kind != "switch":
                continue
            out.extend(self.edge_pred(t, label, s))
            # `let v = match c { A => Some(..), B => None }; if let Some(..) = v`: the arm taken tells which assignment
            # of v ran last, hence that its block was passed — everything known there is known here
            db = self._implied_def_block(s, label)
            if db is not None and db not in seen and db != bb:
                for g in self._guards_at(db, seen | {bb, db}):
                    if g not in out:
                        out.append(g)
        return out

    def _implied_def_block(self, s, label):
        """block of the single whole-value assignment `x = Variant(..)` that can have produced the variant selected by
        this edge of `switch discriminant(x)`; None unless x is a local assigned only by enum aggregates of known variant
        (never by a call, through a projection, or behind a mutable borrow)"""
        blk = self.body.blocks[s]
        t = blk.term
        if t.discr is None or t.discr.place is None or not t.discr.place.is_local():
            return None
        dl = t.discr.place.local
        x = names = None
        for st in blk.stmts:
            if st.kind == "assign" and st.lhs.is_local() and st.lhs.local == dl and st.rv.kind == "discr" and st.rv.place.is_local():
                x, names = st.rv.place.local, st.rv.j.get("variants") or []
        if x is None or not names:
            return None
        if label[0] == "eq":
            want = {names[label[1]]} if label[1] < len(names) else set()
        else:
            want = set(names) - {names[v] for v in label[1] if v < len(names)}
        if x <= self.body.arg_count:
            return None
        defs = []
        for b2 in self.body.blocks:
            if b2.cleanup:
                continue
            for st in b2.stmts:
                if st.kind != "assign":
                    continue
                if st.rv.kind in ("ref", "rawptr") and st.rv.place is not None and st.rv.place.local == x and getattr(st.rv, "mut", False):
                    return None
                if st.lhs.local == x:
                    if not st.lhs.is_local() or st.rv.kind != "agg" or st.rv.agg.get("kind") != "adt" or not st.rv.agg.get("variant"):
                        return None
                    defs.append((b2.idx, st.rv.agg["variant"]))
            t2 = b2.term
            if t2.kind == "call" and t2.dest is not None and t2.dest.local == x:
                return None
        hit = [d for d, v in defs if v in want]
        if len(hit) != 1 or not defs:
            return None
        return hit[0]

    def path_guard_sets(self, bb, limit=400):
        """one guard list per acyclic entry->bb path (None if there are too many paths)"""
        ps = self.cfg.paths(0, lambda x: x == bb, limit=limit)
        if ps is None:
            return None
        if bb == 0:
            return [[]]
        out = []
        for path in ps:
            gs = []
            for (s, d, label) in path:
                if label is None:
                    continue
                t = self.body.blocks[s].term
                if t.kind == "switch":
                    gs.extend(self.edge_pred(t, label, s))
            out.append(gs)
        return out

    def edge_pred(self, switch_term, label, bb=None):
        dt = self.operand(switch_term.discr)
        if dt[0] == "phi" and bb is not None:
            # `let t = a && f(x); if t` — once the constant alternative has been threaded away (cfg), the block that switches
            # on the temporary has a single predecessor, and that predecessor's assignment is the value switched on
            one = self._single_pred_def(bb, switch_term.discr)
            if one is not None:
                dt = one
        dty = switch_term.j.get("discr_ty")
        res = []
        for d in (dt[1] if dt[0] == "phi" else (dt,)):
            res.extend(self._pred_of(d, dty, label))
        if dt[0] == "phi":
            # a phi discriminant: keep only predicates common... conservatively none
            return []
        return res

    def _single_pred_def(self, bb, discr):
        if discr is None or discr.place is None or not discr.place.is_local():
            return None
        tl = discr.place.local
        blk = self.body.blocks[bb]
        # follow pure copies inside the switching block
        for st in reversed(blk.stmts):
            if st.kind == "assign" and st.lhs.is_local() and st.lhs.local == tl:
                if st.rv.kind == "use" and st.rv.ops and st.rv.ops[0].kind in ("move", "copy") and st.rv.ops[0].place.is_local():
                    tl = st.rv.ops[0].place.local
                else:
                    return None
        cur = bb
        for _ in range(8):      # back along a chain of single-predecessor blocks (drops of temporaries sit in between)
            preds = [p for p in self.cfg.pred[cur] if not self.body.blocks[p].cleanup]
            if len(set(preds)) != 1:
                return None
            pb = self.body.blocks[preds[0]]
            val = None
            for st in pb.stmts:
                if st.kind == "assign" and st.lhs.is_local() and st.lhs.local == tl:
                    val = st
            if val is not None:
                return self.rvalue(val.rv, frozenset())
            if pb.term.kind == "call" and pb.term.dest is not None and pb.term.dest.is_local() and pb.term.dest.local == tl:
                t = pb.term
                path = t.func.fn["path"] if t.func.kind == "fn" else ("indirect",)
                return ("call", path, tuple(self.operand(a) for a in t.args), (self.body.id, pb.idx))
            cur = pb.idx
        return None

    def _pred_of(self, d, dty, label):
        # boolean negation
        neg = False
        while d[0] == "un" and d[1] == "Not":
            d = d[2]
            neg = not neg
        if d[0] == "discr":
            names = d[2]
            x = d[1]
            if x[0] == "call" and x[1] == TRY_BRANCH and x[2]:
                x = x[2][0]
            if label[0] == "eq":
                v = label[1]
                if v < len(names):
                    return [("variant", x, _norm_variant(names[v]), names[v])]
                return []
            else:
                excl = [names[v] for v in label[1] if v < len(names)]
                rest = [n for n in names if n not in excl]
                if len(rest) == 1:
                    return [("variant", x, _norm_variant(rest[0]), rest[0])]
                return [("notvariant", x, tuple(excl))]
        if dty == "bool":
            if label[0] == "eq":
                val = bool(label[1])
            else:
                # otherwise edge of a bool switch on 0 => true
                val = not all(v == 0 for v in label[1]) if False else (0 in label[1])
            if neg:
                val = not val
            return [("bool", d, val)]
        if label[0] == "eq":
            return [("inteq", d, label[1])]
        return [("intne", d, tuple(label[1]))]


def _norm_variant(n):
    if n in OK_VARIANTS:
        return "ok"
    if n in ERR_VARIANTS:
        return "err"
    return n


def _phi(parts):
    flat = []
    for p in parts:
        if p[0] == "phi":
            for q in p[1]:
                if q not in flat:
                    flat.append(q)
        elif p not in flat:
            flat.append(p)
    flat = [p for p in flat if p != ("rec",)] or [("rec",)]
    if len(flat) == 1:
        return flat[0]
    return ("phi", tuple(flat))


_TRACERS = {}


def get_tracer(facts, body):
    key = (id(facts), body.id)
    t = _TRACERS.get(key)
    if t is None:
        t = Tracer(facts, body)
        _TRACERS[key] = t
    return t


# ---------------------------------------------------------------------- term utilities

TRANSPARENT = {
    "Deref::deref", "DerefMut::deref_mut", "AsRef::as_ref", "Borrow::borrow", "BorrowMut::borrow_mut",
    "Clone::clone", "ToString::to_string", "ToOwned::to_owned", "Into::into", "From::from",
    "String::as_str", "String::as_ref", "Box::new", "Arc::new", "Pin::new", "Pin::new_unchecked",
    "IntoFuture::into_future", "Pin::get_mut", "Pin::as_mut", "Option::as_ref", "Option::as_mut",
    "Option::as_deref", "Result::as_ref", "String::from", "Arc::from", "PathBuf::as_path",
    "Path::to_path_buf", "Vec::as_slice", "Vec::as_mut_slice", "Cow::into_owned", "Cursor::get_ref",
    "Cursor::get_mut", "Arc::as_ref", "IntoIterator::into_iter", "ToOwned::clone_into", "str::to_string",
    "str::to_owned", "Cow::as_ref", "Pin::into_inner", "Pin::get_ref", "OccupiedEntry::get",
    "OccupiedEntry::get_mut", "OccupiedEntry::into_mut", "hint::must_use",
}


def strip(t, extra=()):
    """peel value-preserving wrappers (deref/clone/to_string/into...)"""
    while True:
        if t[0] == "call" and isinstance(t[1], str) and (short(t[1]) in TRANSPARENT or short(t[1]) in extra) and t[2]:
            t = t[2][0]
            continue
        if t[0] == "cast":
            t = t[1]
            continue
        return t


def alts(t):
    """alternatives of a phi (or the term itself)"""
    if t[0] == "phi":
        return list(t[1])
    return [t]


def walk(t):
    """all sub-terms (pre-order)"""
    yield t
    if not isinstance(t, tuple):
        return
    for x in t[1:]:
        if isinstance(x, tuple):
            if x and isinstance(x[0], str):
                yield from walk(x)
            else:
                for y in x:
                    if isinstance(y, tuple):
                        if y and isinstance(y[0], str):
                            yield from walk(y)
                        else:
                            for z in y:
                                if isinstance(z, tuple) and z and isinstance(z[0], str):
                                    yield from walk(z)


def is_call(t, *names):
    """t is a (possibly awaited) call whose short name is one of names"""
    if t[0] == "await":
        t = t[1]
    return t[0] == "call" and isinstance(t[1], str) and (short(t[1]) in names or t[1] in names)


def call_of(t):
    """(path, args, site) of a (possibly awaited) call term, else None"""
    if t[0] == "await":
        t = strip(t[1])
    if t[0] == "call" and isinstance(t[1], str):
        return t[1], t[2], t[3]
    return None


def fmt(t, depth=0):
    """compact rendering for reports"""
    if not isinstance(t, tuple) or not t:
        return str(t)
    k = t[0]
    if depth > 6:
        return "…"
    if k == "arg":
        return t[2]
    if k == "str":
        return repr(t[1])
    if k == "char":
        return "'%s'" % t[1]
    if k == "bytes":
        return repr(t[1])
    if k == "int":
        return str(t[1])
    if k == "const":
        return t[1].replace("const ", "")
    if k == "call":
        p = t[1] if isinstance(t[1], str) else "<indirect>"
        return "%s(%s)" % (short(p), ", ".join(fmt(a, depth + 1) for a in t[2]))
    if k == "await":
        return fmt(t[1], depth) + ".await"
    if k == "field":
        return "%s.%s" % (fmt(t[1], depth + 1), t[2])
    if k == "vfield":
        return "(%s as %s).%s" % (fmt(t[1], depth + 1), t[2], t[3])
    if k == "okval":
        return fmt(t[1], depth + 1) + "?"
    if k == "errval":
        return "err(%s)" % fmt(t[1], depth + 1)
    if k == "agg":
        return "%s::%s{%s}" % (short(t[1]), t[2], ", ".join("%s: %s" % (f, fmt(v, depth + 1)) for f, v in t[3]))
    if k == "phi":
        return "φ(" + " | ".join(fmt(x, depth + 1) for x in t[1]) + ")"
    if k == "bin":
        return "(%s %s %s)" % (fmt(t[2], depth + 1), t[1], fmt(t[3], depth + 1))
    if k == "un":
        return "%s(%s)" % (t[1], fmt(t[2], depth + 1))
    if k == "cast":
        return "(%s as %s)" % (fmt(t[1], depth + 1), t[2])
    if k == "discr":
        return "discr(%s)" % fmt(t[1], depth + 1)
    if k == "index":
        return "%s[%s]" % (fmt(t[1], depth + 1), fmt(t[2], depth + 1))
    if k == "tuple":
        return "(" + ", ".join(fmt(x, depth + 1) for x in t[1]) + ")"
    if k == "closure":
        return "closure<%s>" % short(t[1])
    return "<" + " ".join(str(x) if not isinstance(x, tuple) else fmt(x, depth + 1) for x in t) + ">"


def fmt_guard(g):
    if g[0] == "bool":
        return ("" if g[2] else "!") + fmt(g[1])
    if g[0] == "variant":
        return "%s is %s" % (fmt(g[1]), g[3])
    if g[0] == "notvariant":
        return "%s not in %s" % (fmt(g[1]), "/".join(g[2]))
    if g[0] == "inteq":
        return "%s == %s" % (fmt(g[1]), g[2])
    if g[0] == "intne":
        return "%s not in %s" % (fmt(g[1]), list(g[2]))
    return str(g)


def passthrough_of(t):
    """the term whose result a return case hands on unchanged: t itself, or X for the two halves of `let v = X?; Ok(v)`
    (`Ok{0: okval(X)}` and `from_residual(errval(X))` — the conversion `?` applies is the identity when the error types agree,
    and is fixed by the type checker otherwise)"""
    if t[0] == "agg" and t[2] in ("Ok",) and len(t[3]) == 1 and t[3][0][1][0] == "okval":
        return t[3][0][1][1]
    if t[0] == "call" and t[1].split("::")[-1] == "from_residual" and len(t[2]) == 1 and t[2][0][0] == "errval":
        return t[2][0][1]
    return t
