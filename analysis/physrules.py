"""PhysicalFS: each operation is exactly its Table-O std call on the translated path (R01.4, R02.1, R11.7, R19.3)."""
from .terms import get_tracer, short, strip, fmt, walk, fmt_guard
from .inter import Inter
from .panics import norm

# filesystem-effect / observation callees of std / async-std / filetime, by short name -> abstract syscall
EFFECTS = {
    "fs::create_dir": "mkdir", "fs::create_dir_all": "mkdir -p", "fs::remove_file": "unlink", "fs::remove_dir": "rmdir",
    "fs::remove_dir_all": "rm -r", "fs::rename": "rename", "fs::copy": "copy", "fs::hard_link": "link",
    "fs::soft_link": "symlink", "fs::write": "write-file", "fs::set_permissions": "chmod", "fs::read_dir": "opendir",
    "Path::read_dir": "opendir", "fs::metadata": "stat", "Path::metadata": "stat", "fs::symlink_metadata": "lstat",
    "Path::symlink_metadata": "lstat", "Path::exists": "access", "Path::try_exists": "access", "Path::is_dir": "stat",
    "Path::is_file": "stat", "fs::read": "read-file", "fs::read_to_string": "read-file", "fs::canonicalize": "realpath",
    "File::open": "open:read", "File::create": "open:create+trunc+write", "File::create_new": "open:create_new+write",
    "OpenOptions::open": "open:?", "filetime::set_file_mtime": "utimens:m", "filetime::set_file_atime": "utimens:a",
    "filetime::set_file_times": "utimens:am", "filetime::set_file_handle_times": "utimens:am", "File::set_times": "utimens:am",
    "File::set_modified": "utimens:m", "File::set_len": "truncate", "unix::symlink": "symlink",
    "File::metadata": "fstat",
}

# expected abstract effects per FileSystem operation of PhysicalFS (Table O rows)
EXPECTED = {
    "read_dir": ["opendir"],
    "create_dir": ["mkdir", "stat"],           # stat only to classify AlreadyExists
    "open_file": ["open:read", "fstat"],        # fstat only to refuse directories
    "create_file": ["open:create+trunc+write"],
    "append_file": ["open:append"],
    "metadata": ["stat"],
    "set_modification_time": ["utimens:m"],
    "set_access_time": ["utimens:a"],
    "exists": ["access"],
    "remove_file": ["unlink"],
    "remove_dir": ["rmdir"],
    "copy_file": ["copy"],
    "move_file": ["rename"],
    "move_dir": ["rename"],
}
# equivalent single-probe forms: Path::exists() is defined as fs::metadata(path).is_ok() (that exists never fails is a rule of its own)
ALTERNATIVES = {"exists": (["stat"],)}
NOT_OVERRIDDEN = ["set_creation_time"]


def sname_(t):
    while t[0] in ("okval", "await"):
        t = t[1]
    return t[1].split("::")[-1] if t[0] == "call" and isinstance(t[1], str) else ""


def open_options(tr, recv):
    """option set of an OpenOptions builder chain: {'read','write','append','create','truncate','create_new'} with constant true"""
    opts = set()
    t = norm(recv)
    seen = 0
    while t[0] == "call" and seen < 12:
        seen += 1
        sh = t[1] if isinstance(t[1], str) else ""
        if sh.startswith("OpenOptions::") and sh != "OpenOptions::new":
            name = sh.split("::")[1]
            val = t[2][1] if len(t[2]) > 1 else None
            if val == ("int", 1):
                opts.add(name)
            elif val != ("int", 0):
                opts.add(name + "?")
            t = t[2][0]
            continue
        break
    return opts


def effects_of(facts, inter, b, _depth=0):
    """[(abstract effect, path-argument terms, line)] of one operation (closures and private in-crate helpers included)"""
    out = []
    for cb in inter.code_bodies(b):
        tr = get_tracer(facts, cb)
        for s in inter.sites(cb):
            sh = s.short
            key = sh
            if s.path.startswith("filetime::"):
                key = "filetime::" + sh.split("::")[-1]
            if key not in EFFECTS:
                hb = inter.local_callee(s) if _depth < 2 else None
                if hb is not None and hb.id != b.id and not (hb.impl and hb.impl["trait"]) and hb.vis != "pub":
                    # an extracted helper: its effects count as the operation's, on the arguments passed to it
                    for eff, _, _ in effects_of(facts, inter, hb, _depth + 1):
                        out.append((eff, [norm(tr.operand(a)) for a in s.args], s.line))
                continue
            eff = EFFECTS[key]
            args = [norm(tr.operand(a)) for a in s.args]
            if eff == "open:?":
                opts = open_options(tr, tr.operand(s.args[0]))
                if opts == {"append"} or opts == {"append", "write"}:
                    eff = "open:append"
                elif opts == {"write", "create", "truncate"}:
                    eff = "open:create+trunc+write"
                elif opts == {"read"}:
                    eff = "open:read"
                else:
                    eff = "open:" + "+".join(sorted(opts))
                args = args[1:]
            out.append((eff, args, s.line))
    return out


def code_guards(facts, inter, b):
    """guards PhysicalFS establishes in its own code before returning Ok: {'notdir'} when every Ok return
    is dominated by !is_dir() of the opened handle / path"""
    out = set()
    cb = inter.code_body(b)
    tr = get_tracer(facts, cb)
    oks = [(ct, bb) for ct, _, bb in inter.ret_cases(b) if inter.case_polarity(ct) == "ok"]
    if not oks:
        return out
    all_guarded = True
    for ct, bb in oks:
        g_ok = False
        for g in tr.guards_at(bb):
            if g[0] == "bool" and g[2] is False:
                for x in walk(g[1]):
                    if x[0] == "call" and isinstance(x[1], str) and short(x[1]) in ("Metadata::is_dir", "Path::is_dir", "FileType::is_dir"):
                        g_ok = True
        if not g_ok:
            all_guarded = False
    if all_guarded:
        out.add("notdir")
        out.add("F")
    return out


def translated(arg_terms, b, which, facts=None, inter=None):
    """does one of the path arguments originate from the translator applied to <the op's path argument #which>?
    The translator is identified by role — a private inherent helper of the same backend type — never by name."""
    for a in arg_terms:
        for x in walk(a):
            if x[0] == "call" and isinstance(x[1], str) and len(x[2]) == 2:
                k = x[2][1]
                if not (k[0] == "arg" and k[1] == which):
                    continue
                hb = inter.body_of_call(x) if inter is not None else None
                if hb is not None and hb.impl and hb.impl["trait"] is None and b.impl and hb.impl["self_ty"] == b.impl["self_ty"]:
                    return True
                if hb is None and inter is None and x[1].split("::")[-1] == "get_path":
                    return True
    return False


def table_o_shape(facts, rep, rule, w):
    inter = Inter(facts)
    ops = facts.impl_methods(w.trait.rsplit("::", 1)[1], w.physical)
    n = 0
    for op, exp in EXPECTED.items():
        b = ops.get(op)
        if b is None:
            rep.fail(rule, w.physical, "%s implemented" % op, "PhysicalFS does not implement %s" % op)
            continue
        effs = effects_of(facts, inter, b)
        got = sorted(e[0] for e in effs)
        n += 1
        ok = got == sorted(exp) or any(got == sorted(alt) for alt in ALTERNATIVES.get(op, ()))
        rep.ob(rule, b.id, "%s performs exactly %s" % (op, "+".join(exp)), ok,
               "effects: %s" % got if ok else
               "filesystem effects of PhysicalFS::%s are %s, expected %s: the operation's preconditions/effect differ "
               "from the OS call the abstract contract (and MemoryFS) is modelled on" % (op, got, sorted(exp)), b.span)
        # path arguments go through the translator
        for eff, args, line in effs:
            if eff == "fstat":
                continue
            idxs = (1, 2) if op in ("copy_file", "move_file", "move_dir") else (1,)
            okp = all(translated(args, b, i, facts, inter) for i in idxs[:1]) if len(idxs) == 1 else \
                (translated(args[:1], b, 1, facts, inter) and translated(args[1:2], b, 2, facts, inter))
            n += 1
            rep.ob(rule, b.id, "%s: %s on translator(path)" % (op, eff), okp,
                   "translated path%s" % (" (src, dest in order)" if len(idxs) == 2 else "") if okp else
                   "the std call does not take translator(<own path argument>) %s" % ("in (src, dest) order" if len(idxs) == 2 else ""), line)
    # the mandatory operations do not depend on which executor drives them: only move_dir (fallback signal) and the optional time
    # setters may answer NotSupported — a remove_file routed through the runtime-bound blocking helper "is not supported" outside
    # tokio and leaves the entry in the tree
    for opn, bo in sorted(ops.items()):
        if opn in ("move_dir", "set_creation_time", "set_modification_time", "set_access_time", "copy_file", "move_file"):
            continue
        kinds_o, _c = inter.kinds_and_calls(bo)
        n += 1
        rep.ob(rule, bo.id, "%s never answers NotSupported" % opn, "NotSupported" not in kinds_o, "" if "NotSupported" not in kinds_o else
               "%s can answer NotSupported (through a helper that depends on the executor / platform): a mandatory operation fails on "
               "some configurations and leaves its target as it was" % opn, bo.span)
    # exists is total: every failure of the probe (ENOTDIR below a file, EACCES, ...) means "not there", like the in-memory
    # backend's map lookup, which cannot fail
    b = ops.get("exists")
    if b is not None:
        errs = [ct for ct, _, _ in inter.ret_cases(b) if inter.case_polarity(ct) != "ok"]
        n += 1
        rep.ob(rule, b.id, "exists never fails", not errs, "no Err return" if not errs else
               "PhysicalFS::exists can return Err (%s): a probe below a regular file (ENOTDIR) is an error here but Ok(false) "
               "on the in-memory backend, and is_file/is_dir/remove_dir_all inherit the difference" % fmt(norm(errs[0]))[:80], b.span)
    # move_dir: whatever makes the native rename fail, the answer is NotSupported, so that the path layer decides the call by
    # its generic route — the same route the in-memory backend always takes (same refusals, same partial effects)
    b = ops.get("move_dir")
    if b is not None:
        bad = []
        for ct, _, bb in inter.ret_cases(b):
            c0 = norm(ct)
            for c in (c0[1] if c0[0] == "phi" else (c0,)):   # a `match` that feeds one return: look at each arm
                if inter.case_polarity(c) == "ok":
                    continue
                kinds = [x[2] for x in walk(c) if x[0] == "agg" and x[1] == "error::VfsErrorKind"]
                # `rename(..).map_err(|_| NotSupported.into())` as the tail: every error is what the closure builds
                cm = c
                while cm[0] == "await":
                    cm = cm[1]
                if cm[0] == "call" and cm[1] == "Result::map_err" and len(cm[2]) == 2 and strip(cm[2][1])[0] == "closure":
                    fc = facts.body(strip(cm[2][1])[1])
                    if fc is not None:
                        kinds = []
                        for ct2, _, _ in inter.ret_cases(fc):
                            ks = [x[2] for x in walk(norm(ct2)) if x[0] == "agg" and x[1] == "error::VfsErrorKind"]
                            kinds = ks if (ks == ["NotSupported"] and kinds in ([], ["NotSupported"])) else ["?"]
                if kinds != ["NotSupported"]:
                    bad.append(fmt(c)[:60])
        n += 1
        rep.ob(rule, b.id, "move_dir: a failed rename always falls back (NotSupported)", not bad, "" if not bad else
               "PhysicalFS::move_dir returns %s for some failures instead of NotSupported: the generic route (which the in-memory "
               "backend always takes) is skipped, so the two backends leave different trees behind after the same failing call" % bad[0], b.span)
    # read_dir hands out names only when they convert losslessly (a lossy name would be listed but not exist)
    b = ops.get("read_dir")
    if b is not None:
        lossy = [s_.line for cb in inter.code_bodies(b) for s_ in inter.sites(cb)
                 if s_.short.split("::")[-1] in ("to_string_lossy", "from_utf8_lossy")]
        n += 1
        rep.ob(rule, b.id, "read_dir: names are converted losslessly", not lossy, "" if not lossy else
               "a lossy conversion (to_string_lossy) is applied to entry names: a non-UTF-8 name is listed with U+FFFD and "
               "the listed path does not exist", lossy[0] if lossy else b.span)
    # ... and every entry the OS yields is handed out: the loop keeps each name unconditionally, nothing filters the listing
    # (a hidden dot-file still exists, is found by exists()/metadata() and keeps its directory from being removed)
    if b is not None:
        shaping, cond = [], []
        pushes = 0
        for cb in inter.code_bodies(b):
            trp = get_tracer(facts, cb)
            for s_ in inter.sites(cb):
                ad = s_.short.split("::")[-1]
                if s_.short.split("::")[0] in ("Iterator", "StreamExt", "Stream", "Itertools") and ad in (
                        "filter", "filter_map", "skip", "skip_while", "take", "take_while", "step_by", "map_while", "scan", "nth", "last"):
                    shaping.append(s_.short)
                if s_.short in ("Vec::push", "VecDeque::push_back", "Vec::insert"):
                    pushes += 1
                    for g in trp.guards_at(s_.bb):
                        if g[0] in ("bool", "inteq", "intne"):
                            cond.append(fmt_guard(g)[:60])
        # a name that cannot be handed out (not UTF-8) fails the listing — it is not left out: the Err side of the name
        # conversion leads to Err returns only
        for cb in inter.code_bodies(b):
            trp = get_tracer(facts, cb)
            cases_ = inter.ret_cases(cb) if cb.kind != "Closure" or cb.coroutine else inter.ret_cases(cb)
            for blk in cb.blocks:
                if blk.cleanup or blk.term.kind != "switch":
                    continue
                dt_ = trp.operand(blk.term.discr)
                if not any(x[0] == "call" and isinstance(x[1], str) and short(x[1]).split("::")[-1] in ("into_string", "to_str", "from_utf8")
                           for x in walk(dt_)):
                    continue
                for (es, ed, lab) in trp.cfg.edges:
                    if es != blk.idx or lab is None:
                        continue
                    if not any(p_[0] == "variant" and p_[2] == "err" for p_ in trp.edge_pred(blk.term, lab)):
                        continue
                    after = trp.cfg.reachable_from(ed)
                    pols = {inter.case_polarity(ct) for ct, _, rbb in cases_ if rbb in after}
                    if pols - {"err"}:
                        cond.append("its name converts (a name that does not is skipped)")
        # ... whatever shape the condition has (a disjunction dominates nothing): every turn of the loop over the OS listing passes
        # the push — without the push block the loop header cannot be reached again from itself
        for cb in inter.code_bodies(b):
            trp = get_tracer(facts, cb)
            cfgp = trp.cfg
            push_blocks = [s_.bb for s_ in inter.sites(cb) if s_.short in ("Vec::push", "VecDeque::push_back", "Vec::insert")]
            if not push_blocks:
                continue
            for blk in cb.calls():
                shn = short(blk.term.callee() or "")
                if shn.split("::")[-1] not in ("next", "poll_next", "poll_next_unpin") or blk.idx in push_blocks:
                    continue
                if not any(cfgp.dominates(blk.idx, pb) and cfgp.reaches(pb, blk.idx) for pb in push_blocks):
                    continue
                # can the header be reached again without passing a push?
                seen_, st_ = set(), [x for x in cfgp.succ[blk.idx]]
                skipped = False
                while st_:
                    x = st_.pop()
                    if x in seen_ or x in push_blocks:
                        continue
                    seen_.add(x)
                    if x == blk.idx:
                        skipped = True
                        break
                    st_.extend(cfgp.succ[x])
                if skipped:
                    cond.append("some condition of the loop body holds (an iteration can end without listing its entry)")
        okl = not shaping and not cond
        n += 1
        rep.ob(rule, b.id, "read_dir: every entry of the directory is listed (no filter, no condition)", okl, "" if okl else
               "the listing %s: an entry the OS reports is not handed out although it exists" %
               ("passes through " + ", ".join(sorted(set(shaping))) if shaping else "keeps a name only if " + "; ".join(cond)), b.span)
    # the setters hand the caller's SystemTime to filetime through its own conversion (FileTime::from): no hand-made
    # seconds / nanoseconds arithmetic (which is where pre-epoch and sub-second values go wrong)
    for op in ("set_modification_time", "set_access_time"):
        b = ops.get(op)
        if b is None:
            continue
        okc = False
        shown = ""
        def _time_terms(cb, actuals, depth=0):
            """terms handed to filetime as the time, in cb and in private helpers it calls (formals replaced by actuals)"""
            trc = get_tracer(facts, cb)
            for s_ in inter.sites(cb):
                if s_.path.startswith("filetime::") and s_.short.split("::")[-1] in ("set_file_mtime", "set_file_atime", "set_file_times") and len(s_.args) >= 2:
                    x = norm(trc.operand(s_.args[1]))
                    while x[0] in ("okval", "await"):
                        x = x[1]
                    if x[0] == "call" and x[1] in ("From::from", "Into::into", "FileTime::from_system_time", "FileTime::from") and x[2]:
                        x = norm(x[2][0])
                    if actuals is not None and x[0] == "arg":
                        x = actuals[x[1]] if 0 <= x[1] < len(actuals) else ("unknown",)
                    yield x
                    continue
                hb = inter.local_callee(s_) if depth < 2 else None
                if hb is not None and hb.id != b.id and not (hb.impl and hb.impl["trait"]) and hb.vis != "pub":
                    acts = [norm(trc.operand(a)) for a in s_.args]
                    if actuals is not None:
                        acts = [actuals[a[1]] if a[0] == "arg" and 0 <= a[1] < len(actuals) else a for a in acts]
                    for hcb in inter.code_bodies(hb):
                        for x in _time_terms(hcb, acts, depth + 1):
                            yield x
        for cb in inter.code_bodies(b):
            for x in _time_terms(cb, None):
                shown = fmt(x)[:60]
                # (norm() already erases From/Into: what is left must be the method's own time argument)
                okc = x[0] == "arg" and x[1] == 2
        n += 1
        rep.ob(rule, b.id, "%s: the time is converted with FileTime::from(time)" % op, okc, shown if okc else
               "the value handed to filetime is %s, not FileTime::from(<the time argument>): a hand-made conversion does not round-trip "
               "every SystemTime (pre-epoch, sub-second)" % (shown or "?"), b.span)
    # where an operation cannot be carried out at all (the async setters without a tokio runtime to run the blocking call on) the
    # answer is NotSupported, like for every other optional operation a backend lacks — whichever way the test is spelled
    for op in ("set_modification_time", "set_access_time"):
        b = ops.get(op)
        if b is None:
            continue
        seen_rt = set()
        for rb in inter.reachable([b], through_dyn=False).values():
            if not rb.file.startswith("src/"):
                continue
            for cb in inter.code_bodies(rb):
                if cb.id in seen_rt:
                    continue
                seen_rt.add(cb.id)
                trr = get_tracer(facts, cb)
                if not any(short(bl.term.callee() or "") == "Handle::try_current" for bl in cb.calls()):
                    continue
                wrong = []
                for blk in cb.blocks:
                    if blk.cleanup:
                        continue
                    for st in blk.stmts:
                        if st.kind == "assign" and st.rv.kind == "agg" and st.rv.agg.get("adt") == "error::VfsErrorKind":
                            # built where the runtime is known to be missing?
                            norun = False
                            for g in trr.guards_at(blk.idx):
                                txt = [x for x in walk(g[1]) if x[0] == "call" and isinstance(x[1], str) and short(x[1]) == "Handle::try_current"]
                                if not txt:
                                    continue
                                if (g[0] == "variant" and g[2] == "err") or \
                                        (g[0] == "bool" and any(x[0] == "call" and short(x[1]) == "Result::is_ok" for x in walk(g[1])) and g[2] is False) or \
                                        (g[0] == "bool" and any(x[0] == "call" and short(x[1]) == "Result::is_err" for x in walk(g[1])) and g[2] is True):
                                    norun = True
                            if norun and st.rv.agg.get("variant") != "NotSupported":
                                wrong.append((st.rv.agg.get("variant"), st.line))
                # ... or inside the closure of `try_current().map_err(|e| ..)`
                for s_ in inter.sites(cb):
                    if s_.short in ("Result::map_err", "Result::or_else") and s_.args and \
                            any(x[0] == "call" and isinstance(x[1], str) and short(x[1]) == "Handle::try_current" for x in walk(trr.operand(s_.args[0]))):
                        for a_ in s_.args[1:]:
                            ct_ = trr.operand(a_)
                            for x in walk(ct_):
                                if x[0] == "closure":
                                    clb = facts.body(x[1])
                                    if clb is not None:
                                        for bl2 in clb.blocks:
                                            for st2 in bl2.stmts:
                                                if st2.kind == "assign" and st2.rv.kind == "agg" and st2.rv.agg.get("adt") == "error::VfsErrorKind" \
                                                        and st2.rv.agg.get("variant") != "NotSupported":
                                                    wrong.append((st2.rv.agg.get("variant"), st2.line))
                n += 1
                rep.ob(rule, b.id, "%s: without a runtime the answer is NotSupported" % op, not wrong, "" if not wrong else
                       "the missing-runtime case is answered with %s: callers that probe for the optional operation see a failure of "
                       "another class" % wrong[0][0], wrong[0][1] if wrong else cb.span)
    # metadata reports the OS time stamps as std hands them out (Metadata::modified/created/accessed), unconverted
    b = ops.get("metadata")
    if b is not None:
        okt = True
        seen_fields = 0
        why = ""
        for ct, _, bb in inter.ret_cases(b):
            if inter.case_polarity(ct) != "ok":
                continue
            v = ct
            if v[0] == "agg" and v[2] == "Ok" and v[3]:
                v = v[3][0][1]
            v = norm(v)
            for alt in (v[1] if v[0] == "phi" else (v,)):
                if alt[0] != "agg":
                    continue
                d = dict(alt[3])
                for fld, getter in (("modified", "modified"), ("created", "created"), ("accessed", "accessed")):
                    t = d.get(fld)
                    if t is None:
                        continue
                    seen_fields += 1
                    x = t
                    while x[0] in ("okval", "await"):
                        x = x[1]
                    good = x[0] == "call" and x[1] == "Result::ok" and x[2] and norm(x[2][0])[0] in ("call", "await") and \
                        sname_(norm(x[2][0])) == getter
                    if not good:
                        okt = False
                        why = "%s = %s" % (fld, fmt(t)[:60])
        n += 1
        rep.ob(rule, b.id, "metadata: time stamps are Metadata::modified/created/accessed(..).ok(), unconverted", okt and seen_fields >= 3,
               "%d fields" % seen_fields if okt else "a reported time stamp is computed by hand (%s): values the conversion gets wrong "
               "(pre-epoch, sub-second) no longer round-trip" % why, b.span)
    for op in NOT_OVERRIDDEN:
        n += 1
        rep.ob(rule, w.physical, "%s not overridden" % op, op not in ops,
               "falls to the trait's NotSupported default" if op not in ops else "unexpected override", "")
    # create_dir: AlreadyExists mapped by the occupant's is_dir
    b = ops.get("create_dir")
    if b is not None:
        kinds = {}
        has_is_dir = False
        for cb in inter.code_bodies(b):
            for s in inter.sites(cb):
                if s.short in ("Metadata::is_dir", "Path::is_dir", "FileType::is_dir"):
                    has_is_dir = True
        for cb in inter.code_bodies(b):
            tr = get_tracer(facts, cb)
            for blk in cb.blocks:
                if blk.cleanup:
                    continue
                for st in blk.stmts:
                    if st.kind == "assign" and st.rv.kind == "agg" and st.rv.agg.get("adt") == "error::VfsErrorKind":
                        v = st.rv.agg["variant"]
                        gs = tr.guards_at(blk.idx)
                        by_stat = False
                        for g in gs:
                            if g[0] in ("bool", "variant"):
                                for x in walk(g[1]):
                                    if x[0] == "call" and isinstance(x[1], str) and short(x[1]) in (
                                            "fs::metadata", "Path::metadata", "Path::is_dir", "Metadata::is_dir", "fs::symlink_metadata"):
                                        by_stat = True
                        by_stat = by_stat or _stat_switch(tr, cb, blk.idx)
                        kinds[v] = (by_stat and has_is_dir, st.line)
            # ... or inside a private helper that is handed the probe's answer (`exists_kind(is_dir)`): its conditions, with the
            # helper's parameters replaced by what the call passes
            for s_ in inter.sites(cb):
                hb = inter.local_callee(s_)
                if hb is None or hb.vis == "pub" or (hb.impl and hb.impl.get("trait")) or hb.file != b.file or hb.id == b.id:
                    continue
                acts = [tr.operand(a) for a in s_.args]
                for hcb in inter.code_bodies(hb):
                    htr = get_tracer(facts, hcb)
                    for blk in hcb.blocks:
                        if blk.cleanup:
                            continue
                        for st in blk.stmts:
                            if st.kind == "assign" and st.rv.kind == "agg" and st.rv.agg.get("adt") == "error::VfsErrorKind":
                                v = st.rv.agg["variant"]
                                by_stat = False
                                for g in htr.guards_at(blk.idx):
                                    if g[0] in ("bool", "variant"):
                                        gt = inter.subst(g[1], {hb.id, hcb.id}, acts)
                                        for x in walk(gt):
                                            if x[0] == "call" and isinstance(x[1], str) and short(x[1]) in (
                                                    "fs::metadata", "Path::metadata", "Path::is_dir", "Metadata::is_dir", "fs::symlink_metadata"):
                                                by_stat = True
                                h_is_dir = has_is_dir or any(s2.short in ("Metadata::is_dir", "Path::is_dir", "FileType::is_dir")
                                                             for c2 in inter.code_bodies(hb) for s2 in inter.sites(c2))
                                by_stat = by_stat or _stat_switch(htr, hcb, blk.idx)
                                if v not in kinds or not kinds[v][0]:
                                    kinds[v] = (by_stat and h_is_dir, st.line)
        # the probe only classifies: if it fails itself (dangling symlink, occupant removed meanwhile) the answer is still an
        # "exists" kind, never the probe's own error
        escaping = []
        for cb in inter.code_bodies(b):
            trc = get_tracer(facts, cb)
            stat_sites = {(cb.id, s_.bb) for s_ in inter.sites(cb) if EFFECTS.get(s_.short) in ("stat", "lstat")}
            for blk in cb.blocks:
                t = blk.term
                if t.kind == "call" and short(t.callee() or "") == "Try::branch" and t.args:
                    x = trc.operand(t.args[0])
                    if any(y[0] == "call" and len(y) > 3 and y[3] in stat_sites for y in walk(x)):
                        escaping.append(t.line)
        n += 1
        rep.ob(rule, b.id, "create_dir: a failing occupant probe does not replace the exists-kind", not escaping, "" if not escaping else
               "the stat that classifies AlreadyExists is propagated with `?`: a dangling symlink (or an occupant removed in between) makes "
               "create_dir return the probe's error instead of FileExists / DirectoryExists", escaping[0] if escaping else b.span)
        for v in ("DirectoryExists", "FileExists"):
            ok = v in kinds and kinds[v][0]
            n += 1
            rep.ob(rule, b.id, "create_dir: %s decided by the occupant's is_dir()" % v, ok,
                   "under a test of the occupant's metadata().is_dir()" if ok else
                   "AlreadyExists is not classified by the occupant's type", kinds.get(v, (0, b.span))[1])
    return n


def _stat_switch(tr, cb, bb):
    """a branch that dominates block bb tests a local holding the probe's answer in every arm that computes one
    (`let is_dir = match fs::metadata(p) { Ok(m) => m.is_dir(), Err(_) => false }; if is_dir {..}`)"""
    for (s, d, label) in tr.cfg.dominating_edges(bb):
        t = cb.blocks[s].term
        if label is None or t.kind != "switch" or t.discr is None:
            continue
        for term, gs in tr.operand_cases(t.discr):
            for x in list(walk(term)) + [y for g in gs if len(g) > 1 and isinstance(g[1], tuple) for y in walk(g[1])]:
                if x[0] == "call" and isinstance(x[1], str) and short(x[1]) in (
                        "fs::metadata", "Path::metadata", "Path::is_dir", "Metadata::is_dir", "fs::symlink_metadata"):
                    return True
    return False


def mkdir_not_asked(facts, rep, rule, w, D):
    """fs::create_dir is attempted without a prior stat (attempt, then classify AlreadyExists)"""
    pb = facts.impl_methods(w.trait.rsplit("::", 1)[1], w.physical).get("create_dir")
    n = 0
    if pb is None:
        return 0
    inter = D.inter
    for cb in inter.code_bodies(pb):
        for blk in cb.calls():
            if short(blk.term.callee() or "") == "fs::create_dir":
                gs = D.guards(cb, blk.idx)
                asked = [g for g in gs if any(x in repr(g) for x in ("fs::metadata", "Path::exists", "Path::is_dir", "symlink_metadata", "Path::metadata", "Path::try_exists"))]
                n += 1
                rep.ob(rule, pb.id, "mkdir is attempted without asking first", not asked, "" if not asked else
                       "fs::create_dir is control-dependent on a prior stat: check-then-create loses the race and reports a raw "
                       "AlreadyExists I/O error instead of DirectoryExists/FileExists", blk.term.line)
                # the probe that classifies AlreadyExists runs after the failed attempt: a probe made before it can be stale
                # (directory created by another thread in between -> classified FileExists, which create_dir_all does not tolerate)
                tr = get_tracer(facts, cb)
                for cb2 in inter.code_bodies(pb):
                    for s2 in inter.sites(cb2):
                        key = s2.short
                        if EFFECTS.get(key) not in ("stat", "lstat", "access"):
                            continue
                        if cb2 is cb:
                            after = blk.idx in tr.cfg.dominating_blocks(s2.bb) and s2.bb != blk.idx
                        else:
                            # inside a closure: it must be the error mapper applied to the attempt's own result
                            after = cb2.parent == cb.id or cb2.root == cb.id
                            if after:
                                after = False
                                for b3 in cb.calls():
                                    if any(("closure", cb2.id) == strip(tr.operand(a))[:2] for a in b3.term.args) and \
                                            any(x[0] == "call" and len(x) > 3 and x[3] == (cb.id, blk.idx) for a in b3.term.args for x in walk(tr.operand(a))):
                                        after = True
                        n += 1
                        rep.ob(rule, pb.id, "occupant probe runs after the failed mkdir", after, "" if after else
                               "%s is evaluated before fs::create_dir was attempted: the AlreadyExists classification uses a stale answer, "
                               "so a caller that loses the mkdir race reports FileExists for a directory and create_dir_all fails" % key, s2.line)
    return n
