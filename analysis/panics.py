"""Panic-site inventory (C13; also used by C06, C14, C16, C18, C20)."""
import re
from .terms import get_tracer, short, strip, fmt, fmt_guard, alts, walk, call_of

# std callees documented to panic on some argument/state.  Short names as printed by terms.short().
PANICKING_CALLEES = {
    "Option::unwrap": "None", "Option::expect": "None", "Result::unwrap": "Err", "Result::expect": "Err",
    "Result::unwrap_err": "Ok", "Result::expect_err": "Ok",
    "Index::index": "out of range / not a char boundary / missing key", "IndexMut::index_mut": "out of range",
    "str::split_at": "not a char boundary / out of range", "str::split_at_mut": "boundary",
    "slice::split_at": "mid > len", "slice::split_at_mut": "mid > len",
    "slice::copy_from_slice": "length mismatch", "slice::clone_from_slice": "length mismatch",
    "Vec::remove": "index out of bounds", "Vec::insert": "index > len", "Vec::swap_remove": "index out of bounds",
    "Vec::drain": "range out of bounds", "Vec::split_off": "at > len", "Vec::swap": "index", "slice::swap": "index",
    "String::remove": "boundary", "String::insert": "boundary", "String::insert_str": "boundary",
    "String::drain": "boundary", "String::replace_range": "boundary", "String::split_off": "boundary",
    "String::truncate": "not a char boundary",
    "slice::chunks": "size 0", "slice::windows": "size 0", "Iterator::step_by": "step 0",
    "slice::chunks_exact": "size 0", "slice::rchunks": "size 0", "slice::chunks_mut": "size 0",
    "slice::rotate_left": "mid > len", "slice::rotate_right": "k > len", "slice::copy_within": "range out of bounds",
    "Vec::extend_from_within": "range out of bounds", "Vec::splice": "range out of bounds", "slice::select_nth_unstable": "index >= len",
    "str::repeat": "capacity overflow", "char::from_digit": "radix > 36", "char::to_digit": "radix > 36",
    "VecDeque::swap": "index", "VecDeque::insert": "index > len", "VecDeque::split_off": "at > len", "VecDeque::drain": "range out of bounds",
    "Iterator::sum": "overflow (inherits the caller's overflow checks)", "Iterator::product": "overflow (inherits the caller's overflow checks)",
    "Duration::new": "overflow", "Duration::from_secs_f32": "negative/overflow", "Instant::duration_since": None,
    "Div::div": "division by zero (Duration / u32, integers behind a trait call)", "Rem::rem": "division by zero",
    "Mul::mul": "overflow (Duration * u32)", "DivAssign::div_assign": "division by zero", "RemAssign::rem_assign": "division by zero",
    "MulAssign::mul_assign": "overflow", "Neg::neg": "overflow for MIN",
    "process::exit": "terminates the process", "process::abort": "aborts the process", "thread::spawn": "OS thread creation failure",
    "RefCell::borrow": "already mutably borrowed", "RefCell::borrow_mut": "already borrowed",
    "Add::add": "overflow (time types)", "Sub::sub": "overflow (time types)", "AddAssign::add_assign": "overflow",
    "SubAssign::sub_assign": "overflow",
    "executor::block_on": "called from within another executor", "local_pool::block_on": "nested executor",
    "task::spawn_blocking": "no tokio runtime", "Handle::current": "no runtime", "task::spawn": "no runtime",
    "io::_print": "stdout write failure", "io::_eprint": "stderr write failure",
    "panicking::panic": "explicit", "panicking::panic_fmt": "explicit", "panicking::panic_display": "explicit",
    "panicking::unreachable_display": "explicit", "panicking::assert_failed": "assert", "rt::begin_panic": "explicit",
    "panicking::panic_explicit": "explicit", "panicking::panic_nounwind": "explicit",
    "option::unwrap_failed": "explicit", "result::unwrap_failed": "explicit", "option::expect_failed": "explicit",
    "rt::panic_fmt": "explicit", "panicking::begin_panic": "explicit",
    "Duration::from_secs_f64": "negative/overflow", "SystemTime::duration_since": None,
    "slice::sort_by": None,
    "Cursor::set_position": None,
}
# integer methods that inherit the caller's overflow checks (#[rustc_inherit_overflow_checks]) or panic on a zero /
# out-of-domain argument: `i64::MIN.abs()` panics in builds with overflow checks just like `-x` does
for _t in ("i8", "i16", "i32", "i64", "i128", "isize"):
    PANICKING_CALLEES["%s::abs" % _t] = "overflow for MIN"
    PANICKING_CALLEES["%s::pow" % _t] = "overflow"
    PANICKING_CALLEES["%s::div_euclid" % _t] = "division by zero / overflow"
    PANICKING_CALLEES["%s::rem_euclid" % _t] = "division by zero / overflow"
    PANICKING_CALLEES["%s::abs_diff" % _t] = None
for _t in ("u8", "u16", "u32", "u64", "u128", "usize"):
    PANICKING_CALLEES["%s::pow" % _t] = "overflow"
    PANICKING_CALLEES["%s::next_power_of_two" % _t] = "overflow"
    PANICKING_CALLEES["%s::div_euclid" % _t] = "division by zero"
    PANICKING_CALLEES["%s::rem_euclid" % _t] = "division by zero"
    PANICKING_CALLEES["%s::div_ceil" % _t] = "division by zero"
    PANICKING_CALLEES["%s::ilog2" % _t] = "zero"
    PANICKING_CALLEES["%s::ilog10" % _t] = "zero"
PANICKING_CALLEES = {k: v for k, v in PANICKING_CALLEES.items() if v is not None}


class PanicSite:
    __slots__ = ("body", "bb", "kind", "what", "line", "term", "discharge", "reason", "desc")

    def key_desc(self):
        return self.desc


def _time_type(ty):
    return any(x in ty for x in ("SystemTime", "Duration", "Instant"))


def inventory(facts, body):
    """all panic sites of one body: asserts + calls into the panicking-callee table"""
    tr = get_tracer(facts, body)
    out = []
    for b in body.blocks:
        if b.cleanup:
            continue
        t = b.term
        if t.kind == "assert":
            msg = t.j["msg"]
            m = re.match(r"^(\w+)\(?(\w+)?", msg)
            what = m.group(1) + (("(" + m.group(2) + ")") if m and m.group(2) else "") if m else msg[:30]
            if what.startswith("Resumed"):
                continue
            s = PanicSite()
            s.body, s.bb, s.kind, s.what, s.line, s.term = body, b.idx, "assert", what, t.line, t
            s.discharge, s.reason = None, ""
            s.desc = "assert %s" % what
            out.append(s)
        elif t.kind == "call":
            cal = t.callee()
            if not cal:
                continue
            sh = short(cal)
            if sh not in PANICKING_CALLEES:
                continue
            fn = t.func.fn
            if sh in ("Add::add", "Sub::sub", "AddAssign::add_assign", "SubAssign::sub_assign"):
                if not _time_type(fn.get("self_ty") or ""):
                    continue
            if sh in ("Index::index", "IndexMut::index_mut"):
                pass
            if fn.get("crate") == facts.crate and fn.get("local"):
                continue
            s = PanicSite()
            s.body, s.bb, s.kind, s.what, s.line, s.term = body, b.idx, "call", sh, t.line, t
            s.discharge, s.reason = None, ""
            st = fn.get("self_ty") or ""
            st = re.sub(r"<.*", "", st).split("::")[-1] if st and st != "null" else ""
            idx = ""
            if sh in ("Index::index", "IndexMut::index_mut") and len(fn.get("args", [])) >= 2:
                a = fn["args"]
                idx = "[%s by %s]" % (re.sub(r"^std::\w+::(\w+::)*", "", a[0])[:30], re.sub(r"^std::ops::", "", a[1])[:30])
            s.desc = "%s%s" % (sh, idx)
            out.append(s)
    return out


# ====================================================================== discharge engine
from .terms import TRANSPARENT  # noqa: E402
from .inter import Inter  # noqa: E402
from .locks import LockSummary, is_guard_ty  # noqa: E402

PURE = {"str::len", "String::len", "Vec::len", "slice::len", "str::is_empty", "String::is_empty", "Vec::is_empty",
        "slice::is_empty", "str::rfind", "str::find", "str::starts_with", "str::ends_with", "cmp::min", "cmp::max",
        "Ord::min", "Ord::max", "String::as_str", "str::as_bytes", "VfsPath::as_str", "AsyncVfsPath::as_str",
        "u64::saturating_sub", "usize::saturating_sub", "u64::checked_sub", "usize::checked_sub", "i64::checked_add",
        "u64::checked_add", "u64::checked_add_signed", "usize::min", "u64::min", "Option::is_some", "Option::is_none",
        "Result::is_ok", "Result::is_err", "VfsPath::filename", "AsyncVfsPath::filename", "PathLike::get_path",
        "PathLike::filename_internal", "HashMap::contains_key", "HashMap::get", "Handle::try_current"}
STRIP_EXTRA = ("String::as_str", "str::as_ref", "Vec::as_slice", "String::deref", "PathLike::get_path")


def norm(t):
    """normal form for comparing values: wrappers peeled recursively, call sites dropped for pure callees"""
    if not isinstance(t, tuple) or not t:
        return t
    t = strip(t, extra=STRIP_EXTRA)
    k = t[0]
    if k == "call":
        path = t[1]
        args = tuple(norm(a) for a in t[2])
        if isinstance(path, str) and short(path) in ("VfsPath::as_str", "AsyncVfsPath::as_str") and len(args) == 1:
            # trivial accessor of the private `path` field (its body is checked by R06.5)
            return ("field", args[0], "path")
        if isinstance(path, str) and short(path) in PURE:
            return ("call", short(path), args, None)
        return ("call", path if not isinstance(path, str) else short(path), args, t[3])
    if k in ("str", "char", "int", "const", "bytes", "arg", "rec", "undef", "unknown", "upvar", "env", "resume", "fnitem"):
        return t if k != "arg" else ("arg", t[1], t[2], t[3] if len(t) > 3 else None)
    if k == "cast":
        return norm(t[1])
    if k == "bin" and t[1] in ("Eq", "Ne", "Gt", "Lt", "Le", "Ge"):
        a, b = norm(t[2]), norm(t[3])
        # x.len() == 0  <=>  x.is_empty()   (and the mirrored / negated spellings)
        emp = None
        if b == ("int", 0) and a[0] == "call" and a[1] in _LEN_TO_EMPTY:
            if t[1] in ("Eq", "Le"):
                emp = (a, False)
            elif t[1] in ("Ne", "Gt"):
                emp = (a, True)
        if a == ("int", 0) and b[0] == "call" and b[1] in _LEN_TO_EMPTY:
            if t[1] in ("Eq", "Ge"):
                emp = (b, False)
            elif t[1] in ("Ne", "Lt"):
                emp = (b, True)
        if emp is not None:
            c = ("call", _LEN_TO_EMPTY[emp[0][1]], emp[0][2], None)
            return ("un", "Not", c) if emp[1] else c
        return ("bin", t[1], a, b)
    if k == "phi":
        return ("phi", tuple(sorted({norm(x) for x in t[1]}, key=repr)))
    if k == "agg":
        return ("agg", t[1], t[2], tuple((f, norm(v)) for f, v in t[3]))
    if k in ("tuple", "array"):
        return (k, tuple(norm(x) for x in t[1]))
    if k == "closure":
        return ("closure", t[1], ())
    if k == "discr":
        return ("discr", norm(t[1]), t[2])
    out = [k]
    for x in t[1:]:
        out.append(norm(x) if isinstance(x, tuple) and x and isinstance(x[0], str) else x)
    return tuple(out)


_LEN_TO_EMPTY = {"str::len": "str::is_empty", "String::len": "String::is_empty", "Vec::len": "Vec::is_empty",
                 "slice::len": "slice::is_empty"}


def nguard(g):
    t = norm(g[1])
    if g[0] == "bool":
        v = g[2]
        while t[0] == "un" and t[1] == "Not":
            t = t[2]
            v = not v
        # a slice pattern `[]` / `[first, ..]` compares the slice's length (its pointer metadata) with 0: the same predicate as
        # `is_empty()`, spelled by the pattern lowering
        if t[0] == "bin" and t[1] in ("Eq", "Ne") and len(t) == 4:
            for a_, b_ in ((t[2], t[3]), (t[3], t[2])):
                if b_ == ("int", 0) and a_[0] == "un" and a_[1] == "PtrMetadata":
                    return ("bool", ("call", "slice::is_empty", (a_[2],), None), v if t[1] == "Eq" else (not v))
        return ("bool", t, v)
    return (g[0], t) + tuple(g[2:])


def is_ascii_pat(t):
    if t[0] == "char":
        return len(t[1]) == 1 and ord(t[1]) < 128
    if t[0] == "str":
        return all(ord(c) < 128 for c in t[1]) and len(t[1]) > 0
    return False


def pat_len(t):
    if t[0] == "char":
        return 1
    if t[0] == "str":
        return len(t[1].encode())
    return None


def unchecked_arith(t):
    """(op, a, b) if t is the value part of a checked arithmetic `(a OpWithOverflow b).0` or a plain bin op"""
    if t[0] == "field" and t[2] == "0" and t[1][0] == "bin" and t[1][1].endswith("WithOverflow"):
        return t[1][1].replace("WithOverflow", ""), t[1][2], t[1][3]
    if t[0] == "bin" and t[1] in ("Add", "Sub", "Mul", "AddUnchecked", "SubUnchecked"):
        return t[1].replace("Unchecked", ""), t[2], t[3]
    return None


class Discharger:
    def __init__(self, facts, records=None):
        self.facts = facts
        self.inter = Inter(facts)
        self.records = records or {}
        self.locks = LockSummary(facts, self.inter)
        self._guards = {}

    # ------------------------------------------------------------ helpers
    def guards(self, body, bb):
        key = (body.id, bb)
        if key not in self._guards:
            tr = get_tracer(self.facts, body)
            gs = self.inter.expand_guards(tr.guards_at(bb))
            # closures also inherit the guards that dominate their creation site in the parent
            cur = body
            depth = 0
            while cur.kind == "Closure" and cur.parent and depth < 4:
                depth += 1
                pb = self.facts.body(cur.parent)
                if pb is None:
                    break
                ptr = get_tracer(self.facts, pb)
                ctr = get_tracer(self.facts, cur)
                site = ctr._closure_agg()
                if site is not None:
                    gs = gs + self.inter.expand_guards(ptr.guards_at(site[0]))
                # ... and a closure that a private helper of the same file invokes (`self.update_file(path, |file| ..)`) runs under what
                # holds at the invocation inside the helper, read with the helper's parameters replaced by the caller's arguments
                cbs = ctr.callback_site()
                if cbs is not None:
                    hb_, hbb_, _vals, acts_ = cbs
                    htr_ = get_tracer(self.facts, hb_)
                    for g_ in self.inter.expand_guards(htr_.guards_at(hbb_)):
                        if len(g_) > 1 and isinstance(g_[1], tuple):
                            gs = gs + [(g_[0], type(htr_).subst_args(g_[1], hb_.id, acts_)) + tuple(g_[2:])]
                cur = pb
            self._guards[key] = [nguard(g) for g in gs]
        return self._guards[key]

    def has_bool(self, gs, pred_short, args_pred, value):
        """a guard `callee(args) == value` where callee short name == pred_short and args_pred(args) holds"""
        for g in gs:
            if g[0] == "bool" and g[2] == value:
                t = g[1]
                if t[0] == "call" and t[1] == pred_short and args_pred(t[2]):
                    return True
        return False

    def nonempty(self, gs, s):
        """s (normalised) is known non-empty"""
        if self.has_bool(gs, "str::is_empty", lambda a: a and a[0] == s, False):
            return True
        if self.has_bool(gs, "String::is_empty", lambda a: a and a[0] == s, False):
            return True
        if self.has_bool(gs, "Vec::is_empty", lambda a: a and a[0] == s, False):
            return True
        if self.has_bool(gs, "slice::is_empty", lambda a: a and a[0] == s, False):
            return True
        if self.has_bool(gs, "str::starts_with", lambda a: len(a) == 2 and a[0] == s and is_ascii_pat(a[1]), True):
            return True
        return False

    # ------------------------------------------------------------ idioms
    def discharge(self, site):
        body = site.body
        tr = get_tracer(self.facts, body)
        gs = self.guards(body, site.bb)
        t = site.term
        if site.kind == "call":
            sh = site.what
            args = [norm(tr.operand(a)) for a in t.args]
            if sh in ("Index::index", "IndexMut::index_mut") and len(args) == 2:
                r = self.d_index(body, gs, args[0], args[1], site)
                if r:
                    return r
            if sh in ("str::split_at",) and len(args) == 2:
                if args[1] == ("int", 1) and self.nonempty(gs, args[0]):
                    return ("D1", "split_at(1) under a non-empty / starts_with guard")
            if sh in ("Vec::remove",) and len(args) == 2 and args[1][0] == "int":
                r = self.d_vec_remove(body, gs, args[0], args[1][1], site)
                if r:
                    return r
            if sh in ("Option::unwrap", "Option::expect") and args:
                r = self.d_unwrap_option(gs, args[0])
                if r:
                    return r
            if sh in ("Result::unwrap", "Result::expect") and args:
                r = self.d_unwrap_result(body, gs, args[0], site)
                if r:
                    return r
            if sh == "slice::copy_from_slice" and len(args) == 2:
                r = self.d_copy_from_slice(args[0], args[1])
                if r:
                    return r
            if sh == "task::spawn_blocking":
                for g in gs:
                    if g[0] == "bool" and g[1][0] == "call" and g[1][2] and g[1][2][0][0] == "call" and \
                            g[1][2][0][1] == "Handle::try_current" and \
                            ((g[1][1] == "Result::is_ok" and g[2] is True) or (g[1][1] == "Result::is_err" and g[2] is False)):
                        return ("D11", "spawn_blocking under Handle::try_current().is_ok()")
                    if g[0] == "variant" and g[2] == "ok" and g[1][0] == "call" and g[1][1] == "Handle::try_current":
                        return ("D11", "spawn_blocking under Ok(_) = Handle::try_current()")
        else:
            cond = tr.operand(t.cond)
            r = self.d_assert(body, gs, site, cond)
            if r:
                return r
        rec = self.record_for(site)
        if rec:
            return rec
        return None

    # -- index / slicing
    def d_index(self, body, gs, base, idx, site):
        # HashMap / Vec by value index
        if idx[0] == "agg" and idx[1].endswith("RangeFrom"):
            start = dict(idx[3]).get("start")
            return self.d_slice_from(gs, base, start)
        if idx[0] == "agg" and idx[1].endswith("RangeTo"):
            end = dict(idx[3]).get("end")
            return self.d_slice_to(gs, base, end)
        if idx[0] == "agg" and idx[1].endswith("ops::Range"):
            d = dict(idx[3])
            return self.d_slice_range(gs, base, d.get("start"), d.get("end"))
        # c[p] under n == k >= 1 with n = min(_, len(c) saturating- p)
        for g in gs:
            if g[0] == "bool" and g[2] is True and g[1][0] == "bin" and g[1][1] == "Eq" and g[1][3][0] == "int" and g[1][3][1] >= 1:
                if self.window_ok(gs, g[1][2], base, idx):
                    return ("D5w", "c[p] under min(_, len(c) saturating- p) == k >= 1")
        # layers[0] style
        if idx == ("int", 0):
            r = self.d_nonempty_vec_field(base)
            if r:
                return r
        # v[len-1]
        ar = unchecked_arith(idx)
        if ar and ar[0] == "Sub" and ar[2] == ("int", 1) and ar[1][0] == "call" and ar[1][1] in ("Vec::len", "slice::len") \
                and ar[1][2] and ar[1][2][0] == base and self.nonempty(gs, base):
            return ("D6", "v[len-1] under !is_empty(v)")
        return None

    def d_slice_from(self, gs, s, start):
        if start is None:
            return None
        if start == ("int", 1) and self.nonempty(gs, s):
            return ("D1", "s[1..] under !is_empty(s) / starts_with(s, ascii)")
        if start == ("int", 0):
            return ("D0", "s[0..]")
        # s[p.len()..] under starts_with(s, p)
        if start[0] == "call" and start[1] in ("String::len", "str::len") and start[2]:
            p = start[2][0]
            if self.has_bool(gs, "str::starts_with", lambda a: len(a) == 2 and a[0] == s and a[1] == p, True):
                return ("D4", "s[p.len()..] under starts_with(s, p)")
        # s[i..] / s[i+1..] with i from find/rfind on s
        if self.index_from_find(start, s, allow_plus=True):
            return ("D2", "s[i..] with i = find/rfind(s, ascii)(+pattern length) or 0")
        return None

    def d_slice_to(self, gs, s, end):
        if end is None:
            return None
        if self.index_from_find(end, s, allow_plus=False):
            return ("D2", "s[..i] with i = find/rfind(s, ascii)")
        # s[..len-k] under ends_with(s, lit) len(lit)==k
        ar = unchecked_arith(end)
        if ar and ar[0] == "Sub" and ar[2][0] == "int" and ar[1][0] == "call" and ar[1][1] in ("String::len", "str::len") \
                and ar[1][2] and ar[1][2][0] == s:
            k = ar[2][1]
            if self.has_bool(gs, "str::ends_with", lambda a: len(a) == 2 and a[0] == s and is_ascii_pat(a[1]) and pat_len(a[1]) == k, True):
                return ("D3", "s[..len-k] under ends_with(s, ascii literal of length k)")
        # b[..min(b.len(), _)]
        if self.is_min_with_len(end, s):
            return ("D5", "b[..min(b.len(), _)]")
        return None

    def is_min_with_len(self, n, b):
        n0 = n
        if n0[0] == "call" and n0[1] in ("cmp::min", "Ord::min", "usize::min", "u64::min") and len(n0[2]) == 2:
            for a in n0[2]:
                a = norm(a)
                if a[0] == "call" and a[1] in ("slice::len", "Vec::len", "str::len") and a[2] and a[2][0] == b:
                    return True
        return False

    def length_of(self, L):
        """the collection term c if L is (a helper returning) len(c), else None"""
        L = norm(L)
        if L[0] == "call" and L[1] in ("Vec::len", "slice::len", "str::len", "String::len") and L[2]:
            return L[2][0]
        if L[0] == "call" and L[3] is not None:
            for st in self._inline_cases(L):
                if st is None:
                    return None
                c = self.length_of(st) if st[0] == "call" and st[3] is None else None
                if c is not None:
                    return c
        return None

    def _inline_cases(self, callt):
        """normalised return terms of an in-crate helper call (arguments substituted); [None] if unknown"""
        sb = self.facts.body(callt[3][0]) if callt[3] else None
        if sb is None:
            return [None]
        t = sb.blocks[callt[3][1]].term
        body = self.facts.body(t.resolved() or "") or self.facts.body(t.callee() or "")
        if body is None:
            return [None]
        tr = get_tracer(self.facts, sb)
        actuals = tuple(tr.operand(a) for a in t.args)
        cases = self.inter.ret_cases(body)
        ids = self.inter.callee_ids(body)
        if len(cases) != 1:
            return [None]
        return [norm(self.inter.subst(cases[0][0], ids, actuals))]

    def remainder_of(self, t):
        """(c, p) if t == len(c) saturating- p (directly or through a one-line helper)"""
        t = norm(t)
        if t[0] == "call" and t[1] in ("u64::saturating_sub", "usize::saturating_sub") and len(t[2]) == 2:
            c = self.length_of(t[2][0])
            if c is not None:
                return c, norm(t[2][1])
        if t[0] == "call" and t[3] is not None:
            for st in self._inline_cases(t):
                if st is not None and st[0] == "call" and st[3] is None:
                    return self.remainder_of(st)
        return None

    def window_of(self, n):
        """(c, p, rem_term) if n == min(_, len(c) saturating- p)"""
        n = norm(n)
        if n[0] == "call" and n[1] in ("cmp::min", "Ord::min", "usize::min", "u64::min") and len(n[2]) == 2:
            for a in n[2]:
                r = self.remainder_of(a)
                if r is not None:
                    return r[0], r[1], norm(a)
        return None

    def nonzero(self, gs, t):
        t = norm(t)
        for g in gs:
            if g[0] == "bool" and g[1][0] == "bin" and g[1][1] in ("Eq", "Ne"):
                a, b = g[1][2], g[1][3]
                if a == t and b[0] == "int":
                    if g[1][1] == "Eq" and b[1] == 0 and g[2] is False:
                        return True
                    if g[1][1] == "Eq" and b[1] >= 1 and g[2] is True:
                        return True
                    if g[1][1] == "Ne" and b[1] == 0 and g[2] is True:
                        return True
            if g[0] == "bool" and g[1][0] == "bin" and g[1][1] == "Gt" and g[1][2] == t and g[1][3] == ("int", 0) and g[2] is True:
                return True
        return False

    def window_ok(self, gs, n, c, p):
        """n = min(_, len(c) saturating- p) and (n != 0 or the remainder != 0): then p < len(c) and p + n <= len(c)"""
        w = self.window_of(n)
        if w is None:
            return False
        wc, wp, rem = w
        if wc != norm(c) or wp != norm(p):
            return False
        return self.nonzero(gs, n) or self.nonzero(gs, rem)

    def d_slice_range(self, gs, c, start, end):
        if start is None or end is None:
            return None
        ar = unchecked_arith(end)
        if ar and ar[0] == "Add" and ar[1] == start and self.window_ok(gs, ar[2], c, start):
            return ("D5w", "c[p..p+n] with n = min(_, len(c) saturating- p) and n (or the remainder) != 0")
        return None

    def index_from_find(self, i, s, allow_plus):
        alts_ = i[1] if i[0] == "phi" else (i,)
        ok = True
        for x in alts_:
            if not self._one_index_from_find(x, s, allow_plus):
                ok = False
        return ok

    def _one_index_from_find(self, x, s, allow_plus):
        if x == ("int", 0):
            return True     # s[0..] and s[..0] are in bounds and on a char boundary for every s
        # unwrap_or(map(find.., +1), 0)
        if x[0] == "call" and x[1] in ("Option::unwrap_or", "Option::unwrap_or_default") and x[2]:
            ok = self._opt_index(x[2][0], s, allow_plus)
            if len(x[2]) > 1:
                ok = ok and x[2][1] == ("int", 0)
            return ok
        if x[0] == "okval":
            return self._opt_index(x[1], s, allow_plus)
        ar = unchecked_arith(x)
        if ar and ar[0] == "Add" and allow_plus and ar[2] == ("int", 1):
            return self._one_index_from_find(ar[1], s, False) and self._find_pat_len(ar[1], s) == 1
        return False

    def _opt_index(self, o, s, allow_plus):
        """o is an Option<usize> term: find/rfind(s, ascii) possibly mapped by |x| x + patlen"""
        if o[0] == "call" and o[1] in ("str::rfind", "str::find") and len(o[2]) == 2 and o[2][0] == s and is_ascii_pat(o[2][1]):
            return True
        if o[0] == "call" and o[1] == "Option::map" and len(o[2]) == 2 and allow_plus:
            inner = o[2][0]
            clo = o[2][1]
            if self._opt_index(inner, s, False) and clo[0] == "closure":
                cb = self.facts.body(clo[1])
                if cb is not None:
                    cases = self.inter.ret_cases(cb)
                    good = 0
                    for ct, _, _ in cases:
                        n = norm(ct)
                        ar = unchecked_arith(n)
                        if ar and ar[0] == "Add" and ar[2][0] == "int" and ar[1][0] == "okval" and \
                                ar[2][1] == pat_len(inner[2][1]):
                            good += 1
                    return bool(cases) and good == len(cases)
        return False

    def _find_pat_len(self, x, s):
        if x[0] == "okval" and x[1][0] == "call" and x[1][1] in ("str::rfind", "str::find") and len(x[1][2]) == 2:
            return pat_len(x[1][2][1])
        return None

    def d_nonempty_vec_field(self, base):
        """v[0] where v is a struct field whose every construction is dominated by !is_empty (type invariant)"""
        if base[0] != "field":
            return None
        fname = base[2]
        owner = base[1]
        if owner[0] != "arg":
            return None
        # type of the owner: look up the body and local type
        ob = self.facts.body(owner[3]) if owner[3] else None
        if ob is None:
            return None
        root = ob
        ty = root.local_ty(owner[1] + 1).lstrip("&").replace("mut ", "").strip()
        adt = self.facts.adts.get(ty)
        if adt is None:
            return None
        sites = 0
        for b in self.facts.bodies:
            derived = bool(b.impl and b.impl.get("derived"))
            for blk in b.blocks:
                if blk.cleanup:
                    continue
                for st in blk.stmts:
                    if st.kind == "assign" and st.rv.kind == "agg" and st.rv.agg.get("adt") == ty:
                        tr = get_tracer(self.facts, b)
                        tt = tr.rvalue(st.rv, frozenset())
                        val = norm(dict(tt[3]).get(fname))
                        if derived:
                            # a derived Clone copies the field of an existing value (the invariant carries over); any other
                            # derived constructor (Default: an empty vector) is a second, unchecked way to build the type
                            v2 = val
                            while v2[0] == "call" and v2[1] in ("Clone::clone", "Vec::clone") and v2[2]:
                                v2 = norm(v2[2][0])
                            if v2[0] == "field" and v2[2] == fname and v2[1][0] == "arg":
                                continue
                            return None
                        sites += 1
                        gs = self.guards(b, blk.idx)
                        # value is to_vec/clone/collect of x with guard !is_empty(x)
                        src = val
                        while src[0] == "call" and src[1] in ("slice::to_vec", "Vec::from", "Vec::clone", "Iterator::collect",
                                                              "slice::iter", "Iterator::cloned") and src[2]:
                            src = src[2][0]
                        if not self.nonempty(gs, src):
                            return None
        if sites == 0:
            return None
        return ("D8", "%s.%s is non-empty by construction (%d guarded constructor site(s))" % (ty.split("::")[-1], fname, sites))

    def d_vec_remove(self, body, gs, v, k, site):
        # guard Vec::len(v) == c
        c = None
        for g in gs:
            if g[0] == "bool" and g[2] is True and g[1][0] == "bin" and g[1][1] == "Eq":
                a, b = g[1][2], g[1][3]
                if a[0] == "call" and a[1] == "Vec::len" and a[2] and a[2][0] == v and b[0] == "int":
                    c = b[1]
        if c is None:
            return None
        # number of removals on v that dominate this one
        tr = get_tracer(self.facts, body)
        doms = tr.cfg.dominating_blocks(site.bb)
        prior = 0
        for d in doms:
            if d == site.bb:
                continue
            tt = body.blocks[d].term
            if tt.kind == "call" and short(tt.callee() or "") == "Vec::remove" and norm(tr.operand(tt.args[0])) == v:
                prior += 1
        if k < c - prior:
            return ("D6", "Vec::remove(%d) with len == %d and %d earlier removal(s)" % (k, c, prior))
        return None

    def d_unwrap_option(self, gs, o):
        x = o
        if x[0] == "call" and x[1] == "Option::take" and x[2]:
            x = x[2][0]
        for g in gs:
            if g[0] == "bool" and g[2] is True and g[1][0] == "call" and g[1][1] == "Option::is_some" and g[1][2] and g[1][2][0] == x:
                return ("D12", "unwrap of an Option under is_some() of the same place")
            if g[0] == "bool" and g[2] is False and g[1][0] == "call" and g[1][1] == "Option::is_none" and g[1][2] and g[1][2][0] == x:
                return ("D12", "unwrap of an Option under !is_none() of the same place")
            if g[0] == "variant" and g[1] == x and g[2] == "ok":
                return ("D12", "unwrap under a Some match of the same place")
        return None

    def d_unwrap_result(self, body, gs, r, site):
        # lock poisoning
        if r[0] == "call" and r[1] in ("RwLock::read", "RwLock::write", "Mutex::lock"):
            bad = self.panics_under_lock()
            if not bad:
                return ("D9", "lock result unwrap: no undischarged panic site lies inside any lock region, so the lock "
                              "can never be poisoned")
            return None
        for g in gs:
            if g[0] == "bool" and g[2] is True and g[1][0] == "call" and g[1][1] == "Result::is_ok" and g[1][2] and g[1][2][0] == r:
                return ("D12", "unwrap under is_ok()")
        return None

    def d_copy_from_slice(self, dst, src):
        # dst = b[..n], src = c[p..p+n]
        def rng(x):
            if x[0] == "call" and x[1] in ("Index::index", "IndexMut::index_mut") and len(x[2]) == 2 and x[2][1][0] == "agg":
                return x[2][0], x[2][1]
            return None
        d, s = rng(dst), rng(src)
        if not d or not s:
            return None
        if d[1][1].endswith("RangeTo") and s[1][1].endswith("ops::Range"):
            n = dict(d[1][3]).get("end")
            sd = dict(s[1][3])
            ar = unchecked_arith(sd.get("end"))
            if ar and ar[0] == "Add" and ar[1] == sd.get("start") and ar[2] == n:
                return ("D5c", "copy_from_slice(b[..n], c[p..p+n]): equal lengths by construction")
        return None

    # -- asserts
    def d_assert(self, body, gs, site, cond):
        tr = get_tracer(self.facts, body)
        what = site.what
        c = norm(cond)
        if what.startswith("Overflow"):
            # cond = (a OpWithOverflow b).1
            if c[0] == "field" and c[2] == "1" and c[1][0] == "bin":
                op = c[1][1].replace("WithOverflow", "")
                a, b = c[1][2], c[1][3]
                return self.d_overflow(body, gs, op, a, b, site)
        if what.startswith("BoundsCheck"):
            # cond = (idx Lt len(buf))
            if c[0] == "bin" and c[1] == "Lt":
                i, ln = c[2], c[3]
                if i[0] == "int" and ln[0] == "un" and ln[1] == "PtrMetadata":
                    buf = ln[2]
                    # guard: min(len(buf), _) == k  with k > i
                    for g in gs:
                        if g[0] == "bool" and g[2] is True and g[1][0] == "bin" and g[1][1] == "Eq":
                            x, k = g[1][2], g[1][3]
                            if k[0] == "int" and k[1] > i[1] and self.is_min_with_len(x, buf):
                                return ("D5", "b[%d] under min(b.len(), _) == %d" % (i[1], k[1]))
        return None

    def is_len(self, t):
        return t[0] == "call" and t[1] in ("str::len", "String::len", "Vec::len", "slice::len")

    def d_overflow(self, body, gs, op, a, b, site):
        if op == "Sub":
            # len(v) - k under !is_empty / ends_with
            if self.is_len(a) and b[0] == "int" and a[2]:
                v = a[2][0]
                if b[1] == 1 and self.nonempty(gs, v):
                    return ("D6", "len(v) - 1 under !is_empty(v)")
                k = b[1]
                if self.has_bool(gs, "str::ends_with", lambda x: len(x) == 2 and x[0] == v and pat_len(x[1]) == k, True):
                    return ("D3", "len(s) - k under ends_with(s, literal of length k)")
        if op == "Add":
            # index or length + small constant: lengths are <= isize::MAX
            if b[0] == "int" and 0 <= b[1] <= 4096:
                if self.is_len(a) or self.is_index_value(a):
                    return ("D7", "length/index + small constant cannot overflow usize (lengths <= isize::MAX)")
                # u64 counter initialised with a constant and only incremented by one
                if self.is_unit_counter(body, a):
                    return ("D7b", "u64 counter from 0 stepping by 1")
            if self.is_index_value(a) and self.is_index_value(b):
                return ("D7", "sum of two in-bounds string indices of one string (<= 2*isize::MAX < usize::MAX)")
            # p + n with n = min(_, len(c) saturating- p)
            cnd = self.window_content(body, gs, a, b)
            if cnd:
                return cnd
        return None

    def window_content(self, body, gs, p, n):
        """p + n where n = min(_, len(c) saturating- p), n or remainder != 0  =>  p + n <= len(c) <= isize::MAX"""
        w = self.window_of(n)
        if w is None:
            return None
        if w[1] == norm(p) and (self.nonzero(gs, n) or self.nonzero(gs, w[2])):
            return ("D5w", "p + n with n = min(_, len(c) saturating- p) and n (or the remainder) != 0")
        return None

    def is_index_value(self, t):
        """t is a position inside a string/slice: result of find/rfind, or such plus a constant, or a phi of those / small ints"""
        if t[0] == "okval" and t[1][0] == "call" and t[1][1] in ("str::find", "str::rfind", "Iterator::position"):
            return True
        if t[0] == "int" and 0 <= t[1] <= 4096:
            return True
        if t[0] == "phi":
            return all(self.is_index_value(x) for x in t[1])
        if self.is_len(t):
            return True
        ar = unchecked_arith(t)
        if ar and ar[0] == "Add" and ar[2][0] == "int" and 0 <= ar[2][1] <= 4096:
            return self.is_index_value(ar[1])
        if ar and ar[0] == "Add":
            return self.is_index_value(ar[1]) and self.is_index_value(ar[2])
        if t[0] == "call" and t[1] in ("Option::unwrap_or_else", "Option::unwrap_or") and t[2]:
            o = t[2][0]
            ok = False
            if o[0] == "call" and o[1] == "Option::map" and o[2] and o[2][0][0] == "call" and o[2][0][1] in ("str::find", "str::rfind"):
                ok = True
            if o[0] == "call" and o[1] in ("str::find", "str::rfind"):
                ok = True
            return ok
        if t[0] == "rec":
            return True
        if t[0] == "field" and t[1] == ("rec",) and t[2] == "0":
            return True     # the value half of a checked addition further round the same cycle
        return False

    def is_unit_counter(self, body, a):
        alts_ = a[1] if a[0] == "phi" else (a,)
        for x in alts_:
            if x[0] == "int":
                continue
            if x[0] == "rec":
                continue
            if x[0] == "field" and x[2] == "0" and x[1][0] in ("rec",):
                continue
            ar = unchecked_arith(x)
            if ar and ar[0] == "Add" and ar[2] == ("int", 1):
                continue
            if x[0] == "field" and x[1][0] == "rec":
                continue
            return False
        return True

    # ------------------------------------------------------------ lock regions
    def panics_under_lock(self, async_locks=False):
        """undischarged panic sites that lie inside a lock region (directly, or in a callee invoked there).
        std locks by default (they poison: D9); async_locks=True looks at async_std lock regions instead (no poisoning,
        but a panic there still unwinds through a half-done critical section)"""
        if async_locks:
            if hasattr(self, "_pul_async"):
                return self._pul_async
        elif hasattr(self, "_pul"):
            return self._pul
        if not async_locks:
            self._pul = []  # prevent recursion through D9
        bad = []
        for b in self.facts.bodies:
            if b.impl and b.impl.get("derived"):
                continue
            li = self.locks.info(b)
            for a in li.acqs:
                if a.is_async != async_locks:
                    continue
                for bb in a.region:
                    blk = b.blocks[bb]
                    # panic sites directly in region
                    for s in inventory(self.facts, b):
                        if s.bb == bb and not (s.kind == "call" and s.what in ("Result::unwrap", "Result::expect") and
                                               self._is_lock_unwrap(b, s)):
                            if self.discharge_no_d9(s) is None:
                                bad.append((b, s, a))
                    t = blk.term
                    if t.kind == "call":
                        # callees (in-crate) and closures passed at this site
                        for cb in self._callees_at(b, blk):
                            for rb in self.inter.reachable([cb], through_dyn=False).values():
                                for s in inventory(self.facts, rb):
                                    if s.kind == "call" and s.what in ("Result::unwrap", "Result::expect") and self._is_lock_unwrap(rb, s):
                                        continue
                                    if self.discharge_no_d9(s) is None:
                                        bad.append((rb, s, a))
        if async_locks:
            self._pul_async = bad
        else:
            self._pul = bad
        return bad

    def _callees_at(self, body, blk):
        out = []
        t = blk.term
        for s in self.inter.sites(body):
            if s.bb == blk.idx:
                c = self.inter.local_callee(s)
                if c is not None:
                    out.append(c)
        tr = get_tracer(self.facts, body)
        for a in t.args:
            x = strip(tr.operand(a))
            for y in (x[1] if x[0] == "phi" else (x,)):
                if y[0] == "closure":
                    cb = self.facts.body(y[1])
                    if cb is not None:
                        out.append(cb)
        return out

    def _is_lock_unwrap(self, body, s):
        tr = get_tracer(self.facts, body)
        if not s.term.args:
            return False
        r = norm(tr.operand(s.term.args[0]))
        return r[0] == "call" and r[1] in ("RwLock::read", "RwLock::write", "Mutex::lock")

    def discharge_no_d9(self, site):
        # same as discharge but lock unwraps are not asked again
        return self.discharge(site)

    # ------------------------------------------------------------ attribution of sites in private helpers
    def owner_id(self, body):
        """the function a panic site is attributed to (violation keys, reviewed records): a private helper with exactly
        one entry point (non-helper function that reaches it through helpers only) is folded into that entry point, so
        that extracting code into a helper — or inlining it back — does not rename the site"""
        if not hasattr(self, "_owner"):
            self._owner = {}
            self._callers = {}
            for b2 in self.facts.bodies:
                r2 = self.facts.body(b2.root) if b2.kind == "Closure" and b2.root else b2
                if r2 is None:
                    continue
                for s2 in self.inter.sites(b2):
                    c = self.inter.local_callee(s2)
                    if c is not None and c.id != r2.id:
                        self._callers.setdefault(c.id, set()).add(r2.id)
        root = self.facts.body(body.root) if body.kind == "Closure" and body.root else body
        if root is None:
            return body.id
        if root.id not in self._owner:
            def is_helper(f):
                return f.kind != "Closure" and f.vis != "pub" and not (f.impl and f.impl.get("trait")) and not f.trait_item_of
            entries, seen, st = set(), {root.id}, [root]
            while st:
                f = st.pop()
                cs = self._callers.get(f.id, set())
                if not is_helper(f) or not cs:
                    entries.add(f.id)
                    continue
                for cid in cs:
                    if cid not in seen:
                        seen.add(cid)
                        cb = self.facts.body(cid)
                        if cb is not None:
                            st.append(cb)
            self._owner[root.id] = next(iter(entries)) if len(entries) == 1 else root.id
        own = self._owner[root.id]
        if body.id.startswith(root.id) and own != root.id:
            return own + body.id[len(root.id):]
        return own if body is root else body.id

    def owner_ordinal(self, site):
        """ordinal of the site among equal descriptors attributed to the same owner (facts order)"""
        own = self.owner_id(site.body)
        n = 0
        for b2 in self.facts.bodies:
            if b2.impl and b2.impl.get("derived"):
                continue
            if self.owner_id(b2) != own:
                continue
            for s in inventory(self.facts, b2):
                if b2 is site.body and s.bb == site.bb and s.kind == site.kind and s.desc == site.desc:
                    return n
                if s.desc == site.desc:
                    n += 1
        return n

    # ------------------------------------------------------------ reviewed records
    def site_ordinal(self, site):
        n = 0
        for s in inventory(self.facts, site.body):
            if s.bb == site.bb and s.kind == site.kind and s.desc == site.desc:
                return n
            if s.desc == site.desc:
                n += 1
        return n

    def record_for(self, site):
        recs = self.records.get((site.body.id, site.desc, self.site_ordinal(site)))
        if not recs:
            own = self.owner_id(site.body)
            if own != site.body.id:
                recs = self.records.get((own, site.desc, self.owner_ordinal(site)))
        if not recs:
            # the record names a closure of the owning function (an immediately-invoked closure, an async block) and the code
            # has since moved into the function itself or a private helper of it: same owner, same descriptor, same ordinal
            # among the owner's sites — and the premises are re-checked on the site as it is now
            own = self.owner_id(site.body)
            oo = None
            for (fn_, desc_, ord_), r_ in self.records.items():
                if desc_ == site.desc and "::{closure" in fn_ and fn_.split("::{closure")[0] == own:
                    if oo is None:
                        oo = self.owner_ordinal(site)
                    if ord_ == oo:
                        recs = r_
                        break
        if not recs:
            return None
        failed = []
        for prem in recs["premises"]:
            fn = PREMISES.get(prem)
            if fn is None:
                failed.append("unknown premise %s" % prem)
                continue
            ok, why = fn(self, site)
            if not ok:
                failed.append("%s: %s" % (prem, why))
        if failed:
            site.reason = "reviewed record exists but its premise no longer holds: " + "; ".join(failed)
            return None
        return ("REC", "reviewed record (premises re-checked: %s)" % ", ".join(recs["premises"]))


def load_records(path):
    import json
    j = json.load(open(path))
    out = {}
    for r in j["records"]:
        out[(r["fn"], r["desc"], r.get("ord", 0))] = r
    return out


# ---------------------------------------------------------------------- premises of reviewed records
def p_documented_empty_layers_panic(D, site):
    gs = D.guards(site.body, site.bb)
    for g in gs:
        if g[0] == "bool" and g[2] is True and g[1][0] == "call" and g[1][1] in ("slice::is_empty", "Vec::is_empty") \
                and g[1][2] and g[1][2][0][0] == "arg":
            return True, "under is_empty(layers)"
    return False, "panic is not dominated by is_empty(<layers argument>)"


def p_flush_only_fails_through_cursor_flush(D, site):
    tr = get_tracer(D.facts, site.body)
    r = tr.operand(site.term.args[0])
    c = call_of(r)
    if not c:
        return False, "receiver of expect is not a call"
    sb = D.facts.body(c[2][0]) if c[2] else None
    fb = None
    if sb is not None:
        res = sb.blocks[c[2][1]].term.resolved()
        fb = D.facts.body(res) if res else None
    if fb is None:
        return False, "flush implementation not found"
    for ct, _, bb in D.inter.ret_cases(fb):
        n = norm(ct)
        if n[0] == "agg" and n[2] == "Ok":
            continue
        if n[0] == "call" and short(n[1]) == "FromResidual::from_residual":
            src = n[2][0]
            while src[0] in ("errval", "okval"):
                src = src[1]
            if src[0] == "call" and short(src[1]) == "Write::flush" and src[2] and \
                    src[2][0][0] == "field" and src[2][0][2] == "content":
                continue
        return False, "flush has an error return that is not the propagation of Cursor::flush: %s" % fmt(ct)[:80]
    return True, "all error returns propagate Cursor::flush"


def _self_path_term(t):
    t = norm(t)
    return t[0] == "field" and t[2] == "path" and t[1][0] == "arg" and t[1][1] == 0


def p_nonempty_self_path_guard(D, site):
    gs = D.guards(site.body, site.bb)
    for g in gs:
        if g[0] == "bool" and g[2] is False and g[1][0] == "call" and g[1][1] in ("str::is_empty", "String::is_empty") \
                and g[1][2] and _self_path_term(g[1][2][0]):
            return True, ""
    return False, "site is not dominated by !self.path.is_empty()"


def p_segment_cursor_shape(D, site):
    """pos in phi(1, end+1); end = unwrap_or_else(map(find(path[pos..], '/'), |it| it + pos), || path.len());
    the assignment pos = end + 1 is dominated by end != path.len()"""
    body = site.body
    tr = get_tracer(D.facts, body)
    args = [norm(tr.operand(a)) for a in site.term.args]
    base, idx = args
    if not _self_path_term(base):
        return False, "sliced string is not self.path"
    d = dict(idx[3])
    bound = d.get("start") or d.get("end")
    def is_end(t):
        if t[0] == "call" and t[1] == "Option::unwrap_or_else" and t[2] and t[2][0][0] == "call" and \
                t[2][0][1] == "Option::map" and t[2][0][2][0][0] == "call" and t[2][0][2][0][1] == "str::find" and \
                is_ascii_pat(t[2][0][2][0][2][1]):
            return True
        # the `match path[pos..].find('/') { Some(it) => it + pos, None => path.len() }` spelling of the same value
        if t[0] == "phi" and len(t[1]) == 2:
            lens = [x for x in t[1] if D.is_len(x) and x[2] and _self_path_term(x[2][0])]
            sums = []
            for x in t[1]:
                ar = unchecked_arith(x)
                if ar and ar[0] == "Add" and ar[1][0] == "okval" and ar[1][1][0] == "call" and ar[1][1][1] == "str::find" and \
                        len(ar[1][1][2]) == 2 and is_ascii_pat(ar[1][1][2][1]):
                    sums.append(x)
            return len(lens) == 1 and len(sums) == 1
        return False
    def is_pos(t):
        al = t[1] if t[0] == "phi" else (t,)
        for x in al:
            if x == ("int", 1):
                continue
            ar = unchecked_arith(x)
            if ar and ar[0] == "Add" and ar[2] == ("int", 1) and is_end(ar[1]):
                continue
            return False
        return True
    if "start" in d and not is_pos(bound):
        return False, "start is not phi(1, end + 1): %s" % fmt(bound)[:80]
    if "end" in d and not is_end(bound):
        return False, "end is not unwrap_or_else(map(find(path[pos..], '/'), ..), || path.len()): %s" % fmt(bound)[:80]
    # the closure of unwrap_or_else returns path.len(); the closure of map returns it + pos
    # the write `pos = end + 1` must be dominated by `end == len` being false
    ok_write = False
    for b in body.blocks:
        if b.cleanup:
            continue
        for st in b.stmts:
            if st.kind == "assign" and st.lhs.is_local() and st.rv.kind in ("use",):
                v = norm(tr.rvalue(st.rv, frozenset()))
                ar = unchecked_arith(v)
                if ar and ar[0] == "Add" and ar[2] == ("int", 1) and is_end(ar[1]):
                    gs = D.guards(body, b.idx)
                    for g in gs:
                        if g[0] == "bool" and g[2] is False and g[1][0] == "bin" and g[1][1] == "Eq":
                            x, y = g[1][2], g[1][3]
                            if is_end(x) and D.is_len(y) and _self_path_term(y[2][0]):
                                ok_write = True
    if not ok_write:
        return False, "no assignment `pos = end + 1` dominated by `end == path.len()` being false was found"
    return True, ""


def p_walk_item_of_self_sliced_after_prefix(D, site):
    body = site.body
    tr = get_tracer(D.facts, body)
    args = [norm(tr.operand(a)) for a in site.term.args]
    base, idx = args
    start = dict(idx[3]).get("start")
    ar = unchecked_arith(start) if start else None
    if not (ar and ar[0] == "Add" and ar[2] == ("int", 1) and D.is_len(ar[1]) and _self_path_term(ar[1][2][0])):
        return False, "start is not self.path.len() + 1"
    # base = as_str(item) where item derives from walk_dir(self)
    found = False
    for x in walk(base):
        if x[0] == "call" and x[1] in ("VfsPath::walk_dir", "AsyncVfsPath::walk_dir", "path::VfsPath::walk_dir",
                                     "async_vfs::path::AsyncVfsPath::walk_dir") or \
                (x[0] == "call" and isinstance(x[1], str) and x[1].endswith("::walk_dir")):
            if x[2] and x[2][0][0] == "arg" and x[2][0][1] == 0:
                found = True
    if not found:
        return False, "sliced string does not originate from an item of self.walk_dir()"
    return True, ""


def p_embed_get_of_iter_item(D, site):
    tr = get_tracer(D.facts, site.body)
    r = norm(tr.operand(site.term.args[0]))
    if r[0] == "call" and isinstance(r[1], str) and r[1].endswith("RustEmbed::get"):
        for x in walk(r):
            if x[0] == "call" and isinstance(x[1], str) and x[1].endswith("RustEmbed::iter"):
                return True, ""
    return False, "expect() receiver is not T::get(<item of T::iter()>)"


def p_under_files_map_hit_of_normalized_path(D, site):
    gs = D.guards(site.body, site.bb)
    for g in gs:
        if g[0] == "variant" and g[2] == "ok" and g[1][0] == "call" and g[1][1] == "HashMap::get":
            a = g[1][2]
            if len(a) == 2 and a[0][0] == "field" and a[0][2] == "files":
                for x in walk(a[1]):
                    if x[0] == "arg" and x[2] == "path":
                        return True, ""
    return False, "split_at is not dominated by a hit of files.get(<normalised path>)"


def p_embed_timestamp_operand(D, site):
    tr = get_tracer(D.facts, site.body)
    args = [norm(tr.operand(a)) for a in site.term.args]
    if len(args) == 2 and args[0][0] == "const" and "UNIX_EPOCH" in args[0][1]:
        for x in walk(args[1]):
            if x[0] == "call" and isinstance(x[1], str) and ("Metadata::last_modified" in x[1] or "Metadata::created" in x[1]
                                                          or x[1].endswith("::last_modified") or x[1].endswith("::created")):
                return True, ""
    return False, "operand is not UNIX_EPOCH + from_secs(<rust-embed metadata timestamp>)"


def p_cursor_field_bounded_by_len(D, site):
    facts = D.facts
    # which field: the integer field of the reader written in poll_seek
    owner_ty = None
    if site.body.impl:
        owner_ty = site.body.impl["self_ty"]
    if owner_ty is None:
        return False, "no owner type"
    writers = {}
    fname = None
    for b in facts.bodies:
        for blk in b.blocks:
            if blk.cleanup:
                continue
            for st in blk.stmts:
                if st.kind == "assign" and not st.lhs.is_local():
                    for pr in st.lhs.proj:
                        if isinstance(pr, dict) and "f" in pr and pr.get("adt") == owner_ty and pr["ty"] in ("u64", "usize"):
                            writers.setdefault(b.id, []).append((b, blk.idx, st))
                            fname = pr["name"]
    names = {facts.body(k).name for k in writers}
    if not names <= {"poll_read", "poll_seek", "read", "seek"}:
        return False, "position field is written outside read/seek: %s" % sorted(names)
    for k, lst in writers.items():
        b = facts.body(k)
        if b.name in ("poll_seek", "seek"):
            for (bb_, bi, st) in lst:
                gs = D.guards(b, bi)
                ok = False
                for g in gs:
                    if g[0] == "bool" and g[1][0] == "bin" and g[1][1] in ("Ge", "Gt", "Lt", "Le"):
                        txt = repr(g[1][3]) + repr(g[1][2])
                        bounded = (g[1][1] in ("Ge", "Gt") and g[2] is False) or (g[1][1] in ("Lt", "Le") and g[2] is True)
                        if bounded and ("len" in txt):
                            ok = True
                if not ok:
                    return False, "the position written in %s is not bounded by a `< len` guard" % b.name
    return True, "position field %s only written in read/seek; seek's store is guarded by `< len`" % fname


PREMISES = {
    "documented_empty_layers_panic": p_documented_empty_layers_panic,
    "flush_only_fails_through_cursor_flush": p_flush_only_fails_through_cursor_flush,
    "nonempty_self_path_guard": p_nonempty_self_path_guard,
    "segment_cursor_shape": p_segment_cursor_shape,
    "walk_item_of_self_sliced_after_prefix": p_walk_item_of_self_sliced_after_prefix,
    "embed_get_of_iter_item": p_embed_get_of_iter_item,
    "under_files_map_hit_of_normalized_path": p_under_files_map_hit_of_normalized_path,
    "embed_timestamp_operand": p_embed_timestamp_operand,
    "cursor_field_bounded_by_len": p_cursor_field_bounded_by_len,
}
