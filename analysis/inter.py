"""Interprocedural helpers: call sites, in-crate call graph, return cases, guard expansion,
term substitution (callee args -> caller actuals)."""
from collections import defaultdict

from .terms import (get_tracer, short, strip, alts, walk, call_of, fmt, fmt_guard,
                    TRY_BRANCH, FROM_RESIDUAL, _phi)


class CallSite:
    __slots__ = ("body", "bb", "term", "path", "name", "trait", "self_ty", "resolved", "rkind",
                 "local", "args", "line")

    def __init__(self, body, blk):
        t = blk.term
        self.body = body
        self.bb = blk.idx
        self.term = t
        self.line = t.line
        if t.func.kind == "fn":
            fn = t.func.fn
            self.path = fn["path"]
            self.name = fn["name"]
            self.trait = fn["trait"]
            self.self_ty = fn["self_ty"]
            self.resolved = fn["resolved"]
            self.rkind = fn["resolved_kind"]
            self.local = bool(fn["resolved_local"]) if fn["resolved"] else bool(fn["local"])
        else:
            self.path = ""
            self.name = None
            self.trait = None
            self.self_ty = None
            self.resolved = None
            self.rkind = "indirect"
            self.local = False
        self.args = t.args

    @property
    def short(self):
        return short(self.path) if self.path else "<indirect>"

    def is_dyn(self):
        return self.rkind == "virtual" or (self.self_ty or "").startswith("dyn ")

    def target_path(self):
        """def path of the concrete callee if statically known"""
        if self.rkind == "virtual":
            return None
        return self.resolved or self.path


class Inter:
    def __init__(self, facts):
        self.facts = facts
        self._sites = {}
        self._ret = {}

    # ------------------------------------------------------------ call sites
    def sites(self, body):
        if body.id not in self._sites:
            self._sites[body.id] = [CallSite(body, blk) for blk in body.calls()]
        return self._sites[body.id]

    def code_bodies(self, body):
        """the body plus all closures/coroutines nested in it (they run as part of it)"""
        return [body] + self.facts.closures_of(body)

    def all_sites(self, body):
        out = []
        for b in self.code_bodies(body):
            out.extend(self.sites(b))
        return out

    def local_callee(self, site):
        p = site.target_path()
        if p is None:
            return None
        return self.facts.body(p)

    def dyn_targets(self, site):
        """in-crate implementations a virtual call may dispatch to"""
        if not site.is_dyn() or not site.trait:
            return []
        out = []
        for b in self.facts.bodies:
            if b.name == site.name and b.impl and b.impl["trait"] == site.trait:
                out.append(b)
            if b.name == site.name and b.trait_item_of == site.trait:
                out.append(b)  # provided default
        return out

    def reachable(self, roots, through_dyn=True, stop=None):
        """set of body ids reachable in the in-crate call graph from the given bodies"""
        seen = {}
        st = list(roots)
        for r in roots:
            seen[r.id] = r
        while st:
            b = st.pop()
            for cb in self.code_bodies(b):
                if cb.id not in seen:
                    seen[cb.id] = cb
                for s in self.sites(cb):
                    tgts = []
                    c = self.local_callee(s)
                    if c is not None:
                        tgts.append(c)
                    elif through_dyn and s.is_dyn():
                        tgts.extend(self.dyn_targets(s))
                    for c in tgts:
                        if stop and stop(c):
                            continue
                        if c.id not in seen:
                            seen[c.id] = c
                            st.append(c)
        return seen

    def body_of_call(self, callterm):
        """the in-crate body a ('call', path, args, site) term dispatches to (resolved through its site)"""
        path, site = callterm[1], callterm[3]
        if not isinstance(path, str):
            return None
        if site:
            sb = self.facts.body(site[0])
            if sb is not None:
                t = sb.blocks[site[1]].term
                if t.kind == "call" and (t.callee() == path or short(t.callee()) == path):
                    r = t.resolved()
                    if r:
                        rb = self.facts.body(r)
                        if rb is not None:
                            return rb
        return self.facts.body(path)

    # ------------------------------------------------------------ return cases
    def code_body(self, body):
        """for `async fn`/async_trait wrappers: the coroutine holding the code"""
        kids = [c for c in self.facts.children.get(body.id, []) if c.coroutine and "Async" in c.coroutine]
        if len(kids) == 1:
            # wrapper if the outer body only builds the coroutine (+ Box::pin)
            calls = [s.short for s in self.sites(body)]
            if all(c in ("Box::pin", "Box::new", "Pin::new") for c in calls):
                return kids[0]
        return body

    def ret_cases(self, body):
        """[(term, guards, bb)] for every definition of the return place of `body`'s code"""
        cb = self.code_body(body)
        if cb.id in self._ret:
            return self._ret[cb.id]
        tr = get_tracer(self.facts, cb)
        out = []
        live = tr.cfg.reachable_from(0)
        for kind, bb, idx in tr.defs.get(0, []):
            if bb not in live:
                continue
            blk = cb.blocks[bb]
            if kind == "assign":
                rv = blk.stmts[idx].rv
                # `_0 = move _tmp` where _tmp is the value of a `match` / `if` expression: one case per arm (with the arm's own
                # guards) instead of one merged case whose polarity is unknown
                if rv.kind == "use" and rv.ops and rv.ops[0].kind in ("move", "copy") and rv.ops[0].place.is_local():
                    src = rv.ops[0].place.local
                    ds = [d for d in tr.defs.get(src, []) if d[1] in live]
                    if len(ds) >= 2 and all(d[0] in ("assign", "call") for d in ds) and not (1 <= src <= cb.arg_count):
                        for kind2, bb2, idx2 in ds:
                            if kind2 == "assign":
                                t2 = tr.rvalue(cb.blocks[bb2].stmts[idx2].rv, frozenset())
                            else:
                                term2 = cb.blocks[bb2].term
                                path2 = term2.func.fn["path"] if term2.func.kind == "fn" else ("indirect",)
                                t2 = ("call", path2, tuple(tr.operand(a) for a in term2.args), (cb.id, bb2))
                            out.append((t2, tr.guards_at(bb2), bb2))
                        continue
                # `_0 = Ok(move _tmp)` / `Some(move _tmp)` where _tmp is the value of a `match` / `if` / `a && b` expression: one
                # case per arm as well, under the arm's guards together with those of the returning block
                if rv.kind == "agg" and len(rv.ops) == 1 and rv.ops[0].kind in ("move", "copy") and rv.ops[0].place.is_local() \
                        and (rv.agg or {}).get("variant") in ("Ok", "Some"):
                    src = rv.ops[0].place.local
                    ds = [d for d in tr.defs.get(src, []) if d[1] in live]
                    whole = tr.rvalue(rv, frozenset())
                    if len(ds) >= 2 and all(d[0] in ("assign", "call") for d in ds) and not (1 <= src <= cb.arg_count) \
                            and whole[0] == "agg" and len(whole[3]) == 1:
                        here = tr.guards_at(bb)
                        for kind2, bb2, idx2 in ds:
                            if kind2 == "assign":
                                t2 = tr.rvalue(cb.blocks[bb2].stmts[idx2].rv, frozenset())
                            else:
                                term2 = cb.blocks[bb2].term
                                path2 = term2.func.fn["path"] if term2.func.kind == "fn" else ("indirect",)
                                t2 = ("call", path2, tuple(tr.operand(a) for a in term2.args), (cb.id, bb2))
                            gs2 = list(tr.guards_at(bb2))
                            gs2 += [g for g in here if g not in gs2]
                            out.append((whole[:3] + (((whole[3][0][0], t2),),), gs2, bb2))
                        continue
                t = tr.rvalue(rv, frozenset())
            elif kind == "call":
                t = tr.local(0)
                # pick this def only
                term = blk.term
                path = term.func.fn["path"] if term.func.kind == "fn" else ("indirect",)
                t = ("call", path, tuple(tr.operand(a) for a in term.args), (cb.id, bb))
            else:
                continue
            out.append((t, tr.guards_at(bb), bb))
        self._ret[cb.id] = out
        return out

    @staticmethod
    def case_polarity(t):
        """'ok' | 'err' | 'unknown' for a returned Result/Option term"""
        t0 = t
        if t0[0] == "agg" and t0[2] in ("Ok", "Some"):
            return "ok"
        if t0[0] == "agg" and t0[2] in ("Err", "None"):
            return "err"
        if t0[0] == "call" and t0[1] == FROM_RESIDUAL:
            return "err"
        return "unknown"

    # ------------------------------------------------------------ substitution
    def subst(self, t, callee_ids, actuals):
        """replace ('arg', i, name, id) with id in callee_ids by actuals[i]"""
        if not isinstance(t, tuple) or not t:
            return t
        if t[0] == "arg" and len(t) > 3 and t[3] in callee_ids:
            if t[1] < len(actuals):
                return actuals[t[1]]
            return t
        if t[0] in ("str", "char", "int", "bytes", "const", "rec", "undef", "unknown", "upvar", "env", "resume", "fnitem"):
            return t
        out = []
        for x in t:
            if isinstance(x, tuple):
                if x and isinstance(x[0], str):
                    out.append(self.subst(x, callee_ids, actuals))
                else:
                    out.append(tuple(self._subst_item(y, callee_ids, actuals) for y in x))
            else:
                out.append(x)
        return tuple(out)

    def _subst_item(self, y, callee_ids, actuals):
        if isinstance(y, tuple):
            if y and isinstance(y[0], str) and y[0] in _KINDS:
                return self.subst(y, callee_ids, actuals)
            return tuple(self._subst_item(z, callee_ids, actuals) for z in y)
        return y

    def subst_guard(self, g, callee_ids, actuals):
        return (g[0], self.subst(g[1], callee_ids, actuals)) + tuple(g[2:])

    def callee_ids(self, body):
        cb = self.code_body(body)
        ids = {body.id, cb.id}
        return ids

    # ------------------------------------------------------------ inlining of returned values
    def inline_ret(self, t, depth=3, polarity=None, pred=None):
        """replace (awaited) calls to in-crate functions by the phi of their returned terms, recursively"""
        if depth <= 0 or not isinstance(t, tuple) or not t:
            return t
        k = t[0]
        if k in ("str", "char", "int", "bytes", "const", "arg", "rec", "undef", "unknown", "upvar", "env", "resume", "fnitem"):
            return t
        if k == "call" and isinstance(t[1], str):
            args = tuple(self.inline_ret(a, depth, polarity, pred) for a in t[2])
            body = self.body_of_call(t)
            if body is not None and pred is not None and not pred(body):
                body = None
            if body is not None:
                cases = self.ret_cases(body)
                if cases:
                    ids = self.callee_ids(body)
                    parts = []
                    for ct, _, _ in cases:
                        if polarity and self.case_polarity(ct) not in (polarity, "unknown"):
                            continue
                        parts.append(self.inline_ret(self.subst(ct, ids, args), depth - 1, polarity, pred))
                    if parts:
                        return _phi(parts)
            return ("call", t[1], args, t[3])
        if k in ("okval", "errval", "await"):
            inner = self.inline_ret(t[1], depth, polarity, pred)
            # okval of an inlined Ok(..) aggregate collapses
            if k == "okval":
                outs = []
                for a in (inner[1] if inner[0] == "phi" else (inner,)):
                    if a[0] == "agg" and a[2] in ("Ok", "Some") and a[3]:
                        outs.append(a[3][0][1])
                    elif a[0] == "agg" and a[2] in ("Err", "None"):
                        continue
                    elif a[0] == "call" and a[1] == FROM_RESIDUAL:
                        continue
                    else:
                        outs.append(("okval", a))
                if outs:
                    return _phi(outs)
            return (k, inner)
        if k == "phi":
            return _phi([self.inline_ret(x, depth, polarity, pred) for x in t[1]])
        if k == "agg":
            return ("agg", t[1], t[2], tuple((f, self.inline_ret(v, depth, polarity, pred)) for f, v in t[3]))
        if k in ("field",):
            return ("field", self.inline_ret(t[1], depth, polarity, pred), t[2])
        if k in ("tuple", "array"):
            return (k, tuple(self.inline_ret(x, depth, polarity, pred) for x in t[1]))
        return t

    # ------------------------------------------------------------ guard expansion
    def kinds_and_calls(self, b, depth=2, _seen=None):
        """(VfsErrorKind variants built, short names of the calls made) by `b` and its closures, with calls to private in-crate
        free functions / inherent helpers of the same file followed (`fn not_supported<R>() -> VfsResult<R>` shared by the provided
        methods of a trait): what a body "only does", wherever the few statements sit"""
        _seen = _seen or {b.id}
        kinds, calls = set(), []
        for cb in self.code_bodies(b):
            for blk in cb.blocks:
                if blk.cleanup:
                    continue
                for st in blk.stmts:
                    if st.kind == "assign" and st.rv.kind == "agg" and st.rv.agg.get("adt") == "error::VfsErrorKind":
                        kinds.add(st.rv.agg["variant"])
            for s_ in self.sites(cb):
                h = self.local_callee(s_)
                if depth > 0 and h is not None and h.id not in _seen and h.kind != "Closure" and h.vis != "pub" and \
                        not (h.impl and h.impl.get("trait")) and not h.trait_item_of and h.file == b.file:
                    k2, c2 = self.kinds_and_calls(h, depth - 1, _seen | {h.id})
                    kinds |= k2
                    calls += c2
                else:
                    calls.append(s_.short)
        return kinds, calls

    def expand_guards(self, guards, depth=3):
        """add guards implied by `callee(...) is ok`: the guards common to all Ok-returning cases
        of an in-crate callee, substituted with the actual arguments"""
        out = list(guards)
        if depth <= 0:
            return out
        for g in guards:
            if g[0] != "variant" or g[2] not in ("ok", "err"):
                continue
            x = strip(g[1])
            c = call_of(x)
            if c is None:
                continue
            path, args, site = c
            body = self.body_of_call(("call", path, args, site))
            if body is None:
                continue
            cases = self.ret_cases(body)
            want = g[2]
            sel = [cs for cs in cases if self.case_polarity(cs[0]) in (want, "unknown")]
            if not sel:
                continue
            common = None
            for _, gs, _ in sel:
                gs = self.expand_guards(gs, depth - 1)
                s = set(gs)
                common = s if common is None else (common & s)
            ids = self.callee_ids(body)
            for cg in common or ():
                sg = self.subst_guard(cg, ids, args)
                if sg not in out:
                    out.append(sg)
        return out


_KINDS = {"bytes", "arg", "const", "str", "char", "int", "call", "await", "field", "vfield", "okval", "errval", "agg",
          "tuple", "array", "closure", "bin", "un", "cast", "discr", "index", "phi", "upvar", "rec", "unknown",
          "undef", "env", "resume", "fnitem", "proj", "vcast"}
