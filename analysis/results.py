"""Result-consumer classification: what can happen to the `Err` of a Result value.

Used by C20 (no error from below is discarded), C11/C17 (which error kinds are tolerated) and C12.
"""
from .terms import get_tracer, short, strip, alts, call_of, fmt, walk, TRY_BRANCH, FROM_RESIDUAL
from collections import defaultdict
from .dataflow import ReachingDefs, local_uses
from .cfg import CFG

# combinators that keep the error inside a new Result (the new value is what has to be consumed properly)
PRESERVING = {"Result::map", "Result::map_err", "Result::and_then", "Result::inspect", "Result::inspect_err",
              "Result::as_ref", "Result::as_mut", "Result::cloned", "Result::copied"}
# combinators / conversions that end the error: it can no longer reach the caller as an error
DISCARDING = {"Result::ok", "Result::unwrap_or", "Result::unwrap_or_else", "Result::unwrap_or_default",
              "Result::or", "Result::or_else", "Result::map_or", "Result::map_or_else", "Result::is_ok_and",
              "Result::is_err_and", "Result::iter", "Result::iter_mut", "Result::into_iter",
              "IntoIterator::into_iter", "Result::err", "Result::into_ok", "Iterator::flatten",
              "Iterator::filter_map", "Result::unwrap_unchecked",
              # future combinators that end the error of the awaited Result
              "TryFutureExt::or_else", "TryFutureExt::unwrap_or_else", "TryFutureExt::ok", "TryFutureExt::into_future"}
TESTING = {"Result::is_ok": "ok", "Result::is_err": "err"}
PANICKING = {"Result::unwrap", "Result::expect", "Result::unwrap_err", "Result::expect_err"}


def is_result_ty(ty):
    return ty.startswith("std::result::Result<") or ty.startswith("core::result::Result<")


def result_err_ty(ty):
    """the error type of a Result type string (best effort: text after the last top-level comma)"""
    if not is_result_ty(ty):
        return None
    inner = ty[ty.index("<") + 1:-1]
    depth = 0
    last = None
    for i, c in enumerate(inner):
        if c in "<([":
            depth += 1
        elif c in ">)]":
            depth -= 1
        elif c == "," and depth == 0:
            last = i
    if last is None:
        return None
    return inner[last + 1:].strip()


def tracked_err(ty):
    e = result_err_ty(ty)
    return e in ("error::VfsError", "std::io::Error")


def polarity(t, none_is_ok=False):
    """'ok' | 'err' | 'unknown' for a returned Result / Option<Result> / Poll<..> term"""
    if t[0] == "agg":
        v = t[2]
        if v in ("Some", "Ready") and t[3]:
            return polarity(t[3][0][1], none_is_ok)
        if v == "Ok":
            return "ok"
        if v == "Err":
            return "err"
        if v == "None":
            return "ok" if none_is_ok else "err"
        if v == "Pending":
            return "unknown"
    if t[0] == "call" and t[1] == FROM_RESIDUAL:
        return "err"
    if t[0] == "phi":
        ps = {polarity(x, none_is_ok) for x in t[1]}
        if "ok" in ps:
            return "ok"
        if ps == {"err"}:
            return "err"
    return "unknown"


class ErrEdge:
    """an edge on which a tracked Result is known to be Err"""
    __slots__ = ("body", "src", "dst", "result_term", "how", "line")

    def __init__(self, body, src, dst, result_term, how, line):
        self.body = body
        self.src = src
        self.dst = dst
        self.result_term = result_term
        self.how = how
        self.line = line


class ResultFlow:
    def __init__(self, facts, body):
        self.facts = facts
        self.body = body
        self.tr = get_tracer(facts, body)
        self.cfg = self.tr.cfg
        self._rd = None
        self._uses = None

    @property
    def rd(self):
        if self._rd is None:
            self._rd = ReachingDefs(self.body, self.cfg)
        return self._rd

    @property
    def uses(self):
        if self._uses is None:
            self._uses = local_uses(self.body)
        return self._uses

    # -------------------------------------------------------------- err edges
    def err_edges(self):
        """switches that test a Result: yield ErrEdge for the edge(s) on which it is Err"""
        out = []
        for b in self.body.blocks:
            if b.cleanup or b.term.kind != "switch":
                continue
            t = b.term
            dt = self.tr.operand(t.discr)
            neg = False
            while dt[0] == "un" and dt[1] == "Not":
                dt = dt[2]
                neg = not neg
            if dt[0] == "discr":
                names = dt[2]
                x = dt[1]
                if tuple(names) != ("Ok", "Err"):
                    continue
                if x[0] == "call" and x[1] == TRY_BRANCH:
                    continue
                # edges where the value may be Err
                for (s, d, label) in self.cfg.edges:
                    if s != b.idx or label is None:
                        continue
                    if label[0] == "eq" and label[1] == 1:
                        out.append(ErrEdge(self.body, s, d, x, "match Err", t.line))
                    elif label[0] == "other" and 1 not in label[1]:
                        out.append(ErrEdge(self.body, s, d, x, "else-of-Ok", t.line))
            elif dt[0] == "call" and isinstance(dt[1], str) and short(dt[1]) in TESTING and dt[2]:
                want_err_when = TESTING[short(dt[1])] == "err"  # is_err -> true means Err
                x = dt[2][0]
                for (s, d, label) in self.cfg.edges:
                    if s != b.idx or label is None:
                        continue
                    truth = None
                    if label[0] == "eq":
                        truth = bool(label[1])
                    elif label[0] == "other":
                        truth = 0 in label[1]
                    if truth is None:
                        continue
                    if neg:
                        truth = not truth
                    if truth == want_err_when:
                        out.append(ErrEdge(self.body, s, d, x, short(dt[1]), t.line))
        return out

    def kind_switch_edges(self):
        """edges of switches on `VfsError::kind(e)`: [(src, dst, variant_name_or_None(other), err_term)]"""
        out = []
        for b in self.body.blocks:
            if b.cleanup or b.term.kind != "switch":
                continue
            dt = self.tr.operand(b.term.discr)
            if dt[0] != "discr":
                continue
            x = strip(dt[1])
            if not (x[0] == "call" and isinstance(x[1], str) and short(x[1]) in ("VfsError::kind",)):
                continue
            names = dt[2]
            for (s, d, label) in self.cfg.edges:
                if s != b.idx or label is None:
                    continue
                if label[0] == "eq":
                    out.append((s, d, names[label[1]] if label[1] < len(names) else None, x[2][0] if x[2] else None))
                else:
                    out.append((s, d, None, x[2][0] if x[2] else None))
        return out

    # -------------------------------------------------------------- exploring from an Err edge
    def ok_reports_from(self, edge, blocked_edges=(), none_is_ok=False):
        """Assignments of an Ok-polarity value to the return place reachable from the Err edge without
        crossing a blocked (escape) edge.  Returns [(bb, idx, description)]."""
        body = self.body
        blocked = {(s, d) for (s, d) in blocked_edges}
        start = edge.dst
        seen = {start}
        st = [start]
        while st:
            x = st.pop()
            for y in self.cfg.succ[x]:
                if (x, y) in blocked:
                    continue
                if y not in seen:
                    seen.add(y)
                    st.append(y)
        hits = []
        for bb in sorted(seen):
            blk = body.blocks[bb]
            for i, s in enumerate(blk.stmts):
                if s.kind == "assign" and s.lhs.local == 0:
                    if s.lhs.is_local():
                        pol = self._polarity_at(s.rv, bb, i, edge, seen, none_is_ok)
                        if pol == "ok":
                            hits.append((bb, i, "%r" % s))
            t = blk.term
            if t.kind == "call" and t.dest is not None and t.dest.local == 0 and t.dest.is_local():
                pass  # a tail call: completes by another route or propagates; not a constant success
        return hits, seen

    def _polarity_at(self, rv, bb, idx, edge, region, none_is_ok, depth=4):
        tr = self.tr
        if rv.kind == "agg":
            a = rv.agg
            if a["kind"] == "adt":
                v = a["variant"]
                if v in ("Some", "Ready") and rv.ops:
                    return self._operand_polarity(rv.ops[0], bb, idx, edge, region, none_is_ok, depth)
                if v == "Ok":
                    return "ok"
                if v == "Err":
                    return "err"
                if v == "None":
                    return "ok" if none_is_ok else "err"
            return "unknown"
        if rv.kind == "use":
            return self._operand_polarity(rv.ops[0], bb, idx, edge, region, none_is_ok, depth)
        return "unknown"

    def _operand_polarity(self, op, bb, idx, edge, region, none_is_ok, depth):
        if depth <= 0 or op.kind not in ("copy", "move") or not op.place.is_local():
            return "unknown"
        l = op.place.local
        # is it the tested result itself?  (Err on this edge)
        t = self.tr.operand(op)
        rt = edge.result_term
        cands = [t]
        for v in ("Some", "Ready", "Ok"):
            try:
                cands.append(self.tr._vfield(cands[-1] if v == "Ok" else t, v, "0"))
            except Exception:
                pass
        try:
            cands.append(self.tr._vfield(self.tr._vfield(t, "Ready", "0"), "Some", "0"))
        except Exception:
            pass
        if rt in cands:
            return "err"
        pols = set()
        for (dbb, didx) in self.rd.at(bb, idx, l):
            if dbb is None:
                pols.add("unknown")
                continue
            # only definitions that are on a path through the err edge: after it, or reaching it
            blk = self.body.blocks[dbb]
            if didx == "term":
                pols.add("unknown")
                continue
            s = blk.stmts[didx]
            if dbb not in region:
                # defined before the edge: must reach the edge source
                if (dbb, didx) not in self.rd.at(edge.src, "term", l):
                    continue
            pols.add(self._polarity_at(s.rv, dbb, didx, edge, region, none_is_ok, depth - 1))
        if "ok" in pols:
            return "ok"
        if pols and pols <= {"err"}:
            return "err"
        return "unknown"

    # -------------------------------------------------------------- discarding consumers
    def discard_sites(self):
        """call sites of error-ending combinators applied to a tracked Result: [(bb, short, arg0 term, line)]"""
        out = []
        for b in self.body.calls():
            t = b.term
            sh = short(t.callee()) if t.callee() else ""
            if sh in DISCARDING and t.args:
                a0 = t.args[0]
                ty = None
                if a0.kind in ("copy", "move") and a0.place.is_local():
                    ty = self.body.local_ty(a0.place.local)
                if sh == "Iterator::flatten" and ty and not is_result_ty(ty):
                    # flattening an iterator whose *items* are Results iterates each Result (Ok -> one item, Err -> none):
                    # every Err is dropped silently
                    import re as _re
                    if _re.search(r"(IntoIter|Iter|IterMut|Drain|JoinAll|Flatten)<(?:'[a-z_]+, )?(?:std|core)::result::Result<", ty) and \
                            ("error::VfsError" in ty or "io::Error" in ty):
                        out.append((b.idx, "Iterator::flatten over Results", self.tr.operand(a0), t.line))
                    continue
                if sh in ("IntoIterator::into_iter", "Iterator::flatten", "Iterator::filter_map"):
                    if not (ty and is_result_ty(ty)):
                        # function items used as values are handled by fnitem_discards
                        continue
                if ty is not None and is_result_ty(ty) and not tracked_err(ty):
                    continue
                if ty is not None and not is_result_ty(ty) and not ty.startswith("&") and not sh.startswith("TryFutureExt::"):
                    continue
                out.append((b.idx, sh, self.tr.operand(a0), t.line))
        return out

    def fnitem_discards(self):
        """discarding combinators passed as function values (e.g. `.filter_map(Result::ok)`)"""
        out = []
        for b in self.body.blocks:
            if b.cleanup:
                continue
            ops = []
            for s in b.stmts:
                if s.kind == "assign":
                    ops.extend(s.rv.ops)
            if b.term.kind == "call":
                ops.extend(b.term.args)
            for o in ops:
                if o.kind == "fn" and short(o.fn["path"]) in DISCARDING and short(o.fn["path"]).startswith("Result::"):
                    out.append((b.idx, short(o.fn["path"]), b.term.line))
        return out

    def overwritten_results(self):
        """Result locals (tracked error types) that can be assigned again while they may still hold an unexamined Err:
        `outcome = step(); if outcome.is_ok() { n += 1 }` inside a loop, reported after it.  A definition is reported when a
        path leads from it to a (re)definition of the same local that passes neither a consuming use (the value moved into a
        `?`, a `match`, a return, a call) nor an edge on which the value is known to be Ok."""
        out = []
        body, cfg = self.body, self.cfg
        for l in range(body.arg_count + 1, len(body.locals)):
            ty = body.local_ty(l)
            if not (is_result_ty(ty) and tracked_err(ty)):
                continue
            defs = [(k, bb, idx) for k, bb, idx in self.tr.defs.get(l, []) if not body.blocks[bb].cleanup]
            if len(defs) < 1:
                continue
            def_blocks = {bb for _, bb, _ in defs}
            # consuming uses: the whole value moved / copied somewhere, or its variant / payload read directly
            consume = defaultdict(list)
            refs = {}
            for (bb, idx, how) in self.uses.get(l, []):
                if how in ("move", "copy", "place"):
                    consume[bb].append(idx)
            # `_r = &l` temporaries, and the blocks that call is_ok / is_err on them
            for b in body.blocks:
                if b.cleanup:
                    continue
                for st in b.stmts:
                    if st.kind == "assign" and st.rv.kind == "ref" and st.rv.place is not None and st.rv.place.is_local() and \
                            st.rv.place.local == l and st.lhs.is_local():
                        refs[st.lhs.local] = True
            ok_edges = set()    # (src block, dst block) on which l is known to be Ok
            for b in body.calls():
                t = b.term
                sh = short(t.callee() or "")
                if sh in ("Result::is_ok", "Result::is_err") and t.args and t.args[0].kind in ("move", "copy") and \
                        t.args[0].place.is_local() and t.args[0].place.local in refs and t.dest is not None and t.dest.is_local() and \
                        t.target is not None:
                    nb = body.blocks[t.target]
                    if nb.term.kind == "switch" and nb.term.discr is not None and nb.term.discr.place is not None and \
                            nb.term.discr.place.is_local() and nb.term.discr.place.local == t.dest.local:
                        for v, d in nb.term.targets:
                            truth = bool(int(v))
                            if (sh == "Result::is_ok" and truth) or (sh == "Result::is_err" and not truth):
                                ok_edges.add((nb.idx, d))
                        if nb.term.otherwise is not None:
                            vals = {int(v) for v, _ in nb.term.targets}
                            truth = 0 in vals       # otherwise of a bool switch on 0 means true
                            if (sh == "Result::is_ok" and truth) or (sh == "Result::is_err" and not truth):
                                ok_edges.add((nb.idx, nb.term.otherwise))
            for kind, bb, idx in defs:
                # is the value consumed later in the defining block itself?
                if kind == "assign" and any((i == "term" or (isinstance(i, int) and i > idx)) for i in consume.get(bb, [])):
                    continue
                seen, st, hit = set(), [], None
                for (s_, d_, _lab) in cfg.edges:
                    if s_ == bb and (s_, d_) not in ok_edges:
                        st.append(d_)
                while st and hit is None:
                    x = st.pop()
                    if x in seen:
                        continue
                    seen.add(x)
                    if x in def_blocks:
                        # a redefinition: reached with the old value unexamined unless this block consumes it before assigning
                        first_def = min((i if k == "assign" else 10 ** 6) for k, b2, i in defs if b2 == x)
                        if not any(isinstance(i, int) and i < first_def for i in consume.get(x, [])) and \
                                not (first_def == 10 ** 6 and "term" in consume.get(x, [])):
                            hit = x
                            break
                        continue
                    if consume.get(x):
                        continue
                    for (s_, d_, _lab) in cfg.edges:
                        if s_ == x and (s_, d_) not in ok_edges:
                            st.append(d_)
                if hit is not None:
                    line = body.blocks[bb].stmts[idx].line if kind == "assign" else body.blocks[bb].term.line
                    name = body.name_of_local(l)
                    out.append((bb, name or "<temporary>", line))
        return out

    def nested_discards(self):
        """locals of type Result<Result<_, tracked error>, _> (the value of a joined task, of a channel, ...) whose Ok payload is
        never read: `match joined { Ok(_) => Ok(()), Err(e) => .. }` drops the inner Result — the operation's real outcome"""
        out = []
        body = self.body
        for l in range(body.arg_count + 1, len(body.locals)):
            ty = body.local_ty(l)
            if not is_result_ty(ty):
                continue
            inner = ty[ty.index("<") + 1:]
            if not (is_result_ty(inner) and any(e in inner.split(">")[0] + inner for e in ("std::io::Error", "error::VfsError"))):
                continue
            # the inner type is the first type argument
            depth, cut = 0, None
            for i, c in enumerate(inner):
                if c in "<([":
                    depth += 1
                elif c in ">)]":
                    depth -= 1
                elif c == "," and depth == 0:
                    cut = i
                    break
            first = inner[:cut] if cut else inner
            if not (is_result_ty(first) and tracked_err(first)):
                continue
            defs = [d for d in self.tr.defs.get(l, []) if not body.blocks[d[1]].cleanup]
            if not defs:
                continue
            read = False

            def touches_ok(place):
                """the whole value, or something inside its Ok variant (not only the Err payload)"""
                dc = [p["downcast"] for p in place.proj if isinstance(p, dict) and "downcast" in p]
                return not dc or dc[0] in ("Ok", "Some", "Continue", "Ready")
            for b in body.blocks:
                if b.cleanup:
                    continue
                for st in b.stmts:
                    if st.kind != "assign":
                        continue
                    for o in st.rv.ops:
                        if o.kind in ("copy", "move") and o.place.local == l and touches_ok(o.place):
                            read = True      # Ok payload read, or the whole value handed on
                    if st.rv.place is not None and st.rv.place.local == l and st.rv.kind != "discr" and touches_ok(st.rv.place):
                        read = True
                t = b.term
                if t.kind == "call":
                    for a in t.args:
                        if a.kind in ("copy", "move") and a.place.local == l:
                            read = True
            if not read:
                kind, bb, idx = defs[0]
                line = body.blocks[bb].stmts[idx].line if kind == "assign" else body.blocks[bb].term.line
                out.append((bb, body.name_of_local(l) or "<temporary>", line))
        return out

    def unused_results(self):
        """tracked Result values produced by a call and never read (only dropped)"""
        out = []
        for b in self.body.calls():
            t = b.term
            if t.dest is None or not t.dest.is_local():
                continue
            l = t.dest.local
            if l == 0:
                continue
            ty = self.body.local_ty(l)
            if not (is_result_ty(ty) and tracked_err(ty)):
                continue
            if not self.uses.get(l):
                out.append((b.idx, short(t.callee()) if t.callee() else "<indirect>", t.line))
        # results that arrive by assignment (the value of an `.await`, a moved temporary) and are then only dropped:
        # `let _ = path.remove_file().await;`
        seen_bb = {x[0] for x in out}
        for l in range(self.body.arg_count + 1, len(self.body.locals)):
            ty = self.body.local_ty(l)
            if not (is_result_ty(ty) and tracked_err(ty)) or self.uses.get(l):
                continue
            for kind, bb, idx in self.tr.defs.get(l, []):
                if kind != "assign" or bb in seen_bb:
                    continue
                st = self.body.blocks[bb].stmts[idx]
                src = self.tr.rvalue(st.rv, frozenset())
                c = call_of(src)
                what = short(c[1]) if c and isinstance(c[1], str) else "a Result"
                out.append((bb, what + " (awaited / moved value)", st.line))
                seen_bb.add(bb)
        return out
