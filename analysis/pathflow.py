"""Effect / provenance analysis for VfsPath values (shared by C07, C08, C10, C20 ...).

World = sync ('path::VfsPath', trait 'filesystem::FileSystem') or async
('async_vfs::path::AsyncVfsPath', trait 'async_vfs::filesystem::AsyncFileSystem').
"""
from .terms import get_tracer, short, strip, alts, call_of, fmt, walk
from .inter import Inter

# Classification of the backend trait (R08.1).  One reason per line; a trait method missing here
# makes the check fail (an API change has to be classified by a human).
MUTATING = {
    "create_dir": "adds a directory entry",
    "create_file": "adds/truncates a file entry and hands out a write handle",
    "append_file": "hands out a write handle onto an existing entry",
    "set_creation_time": "re-times an entry",
    "set_modification_time": "re-times an entry",
    "set_access_time": "re-times an entry",
    "remove_file": "removes an entry",
    "remove_dir": "removes an entry",
    "copy_file": "creates the destination entry",
    "move_file": "removes the source and creates the destination",
    "move_dir": "removes the source tree and creates the destination tree",
}
OBSERVING = {
    "read_dir": "lists names",
    "open_file": "hands out a read handle",
    "metadata": "reads type/len/times",
    "exists": "tests presence",
}


# two-path backend operations: index of the string arguments naming entries that are modified
TWO_PATH = {"copy_file": (2,), "move_file": (1, 2), "move_dir": (1, 2)}


class World:
    def __init__(self, facts, asyncw=False):
        self.facts = facts
        self.asyncw = asyncw
        if asyncw:
            self.path_ty = "async_vfs::path::AsyncVfsPath"
            self.trait = "async_vfs::filesystem::AsyncFileSystem"
            self.overlay = "async_vfs::impls::overlay::AsyncOverlayFS"
            self.altroot = "async_vfs::impls::altroot::AsyncAltrootFS"
            self.memory = "async_vfs::impls::memory::AsyncMemoryFS"
            self.physical = "async_vfs::impls::physical::AsyncPhysicalFS"
            self.walk = "async_vfs::path::WalkDirIterator"
        else:
            self.path_ty = "path::VfsPath"
            self.trait = "filesystem::FileSystem"
            self.overlay = "impls::overlay::OverlayFS"
            self.altroot = "impls::altroot::AltrootFS"
            self.memory = "impls::memory::MemoryFS"
            self.physical = "impls::physical::PhysicalFS"
            self.walk = "path::WalkDirIterator"
        self.tag = "async" if asyncw else "sync"

    def present(self):
        return any(b.impl and b.impl["self_ty"] == self.path_ty for b in self.facts.bodies)

    def path_methods(self):
        return self.facts.inherent_methods(self.path_ty)


class PathFlow:
    def __init__(self, facts, world, inter=None):
        self.facts = facts
        self.w = world
        self.inter = inter or Inter(facts)
        self._mut = None
        self._fo_memo = {}

    # ---------------------------------------------------------------- fs origin
    def fs_origin(self, t, depth=6, _stack=()):
        """set of base descriptors a VfsPath-valued (or Result/Option/&-of) term takes its filesystem from:
           ('arg', i, name, body) | ('index', base_term, idx_term) | ('elem', collection_term) | ('new',) | ('unknown', text)"""
        key = (t, depth)
        if key in self._fo_memo:
            return self._fo_memo[key]
        res = self._fs_origin(t, depth, _stack)
        self._fo_memo[key] = res
        return res

    def _fs_origin(self, t, depth, stack):
        if depth <= 0:
            return {("unknown", "depth")}
        t = strip(t)
        k = t[0]
        if k == "phi":
            out = set()
            for x in t[1]:
                out |= self.fs_origin(x, depth, stack)
            return out
        if k in ("okval", "await"):
            return self.fs_origin(t[1], depth, stack)
        if k == "arg":
            return {t}
        if k == "agg":
            if t[1] == self.w.path_ty:
                for f, v in t[3]:
                    if f == "fs":
                        return self._fs_field_origin(v, depth, stack)
            if t[2] in ("Ok", "Some") and t[3]:
                return self.fs_origin(t[3][0][1], depth, stack)
            return {("unknown", fmt(t)[:60])}
        if k == "index":
            return {("index", strip(t[1]), t[2])}
        if k == "field":
            # the element half of a pair yielded by `iter().enumerate()` (`for (i, layer) in ..`): an element of the collection
            if t[2] == "1":
                inner = strip(t[1])
                while inner[0] in ("okval", "await"):
                    inner = strip(inner[1])
                if inner[0] == "call" and isinstance(inner[1], str) and short(inner[1]) in ("Iterator::next", "StreamExt::next") and inner[2] and \
                        any(x[0] == "call" and isinstance(x[1], str) and short(x[1]) == "Iterator::enumerate" for x in walk(inner[2][0])):
                    return self._elem_origin(inner[2][0], depth, stack)
            # a VfsPath stored in a struct field (e.g. AltrootFS.root)
            return {("field", strip(t[1]), t[2])}
        if k == "call":
            path, args, site = t[1], t[2], t[3]
            if not isinstance(path, str):
                return {("unknown", "indirect")}
            sh = short(path)
            if sh in ("Index::index", "IndexMut::index_mut") and len(args) == 2:
                return {("index", strip(args[0]), args[1])}
            if sh in ("Iterator::next", "StreamExt::next", "Vec::pop", "Vec::remove", "slice::first", "slice::last",
                      "Iterator::last", "slice::get", "Vec::get"):
                return self._elem_origin(args[0], depth, stack)
            body = self.facts.body(path)
            if body is None and site:
                sb = self.facts.body(site[0])
                if sb is not None:
                    r = sb.blocks[site[1]].term.resolved()
                    if r:
                        body = self.facts.body(r)
            if body is not None:
                if body.id in stack:
                    return set()
                if body.name in ("read_dir", "walk_dir") and body.impl and body.impl["self_ty"] == self.w.path_ty:
                    # iterator of children of arg0 (R05.1 pins that children share the parent's fs)
                    return self.fs_origin(args[0], depth - 1, stack) if args else {("unknown", "read_dir")}
                cases = self.inter.ret_cases(body)
                ids = self.inter.callee_ids(body)
                out = set()
                for ct, _, _ in cases:
                    if self.inter.case_polarity(ct) == "err":
                        continue
                    st = self.inter.subst(ct, ids, args)
                    out |= self.fs_origin(st, depth - 1, stack + (body.id,))
                if out:
                    return out
                return {("unknown", "no-return:" + sh)}
            if sh.endswith("::new") and path.startswith(self.w.path_ty.rsplit("::", 1)[0]):
                return {("new",)}
            return {("unknown", sh)}
        if k == "vfield":
            return self.fs_origin(t[1], depth, stack)
        return {("unknown", fmt(t)[:60])}

    def _fs_field_origin(self, v, depth, stack):
        """origin of an `fs: Arc<VFS>` field value"""
        v = strip(v)
        if v[0] == "phi":
            out = set()
            for x in v[1]:
                out |= self._fs_field_origin(x, depth, stack)
            return out
        if v[0] == "field" and v[2] == "fs":
            return self.fs_origin(v[1], depth, stack)
        if v[0] == "call" and isinstance(v[1], str) and short(v[1]) in ("Arc::new",):
            return {("new",)}
        if v[0] == "agg":
            return {("new",)}
        return {("unknown", "fs=" + fmt(v)[:50])}

    def _elem_origin(self, it, depth, stack):
        it = strip(it)
        if it[0] == "phi":
            out = set()
            for x in it[1]:
                out |= self._elem_origin(x, depth, stack)
            return out
        if it[0] in ("okval", "await"):
            return self._elem_origin(it[1], depth, stack)
        c = call_of(it)
        if c is not None:
            path, args, site = c
            sh = short(path)
            body = self.facts.body(path)
            if body is not None and body.name in ("read_dir", "walk_dir") and body.impl and body.impl["self_ty"] == self.w.path_ty:
                return self.fs_origin(args[0], depth - 1, stack)
            if sh in ("slice::iter", "Vec::iter", "slice::iter_mut", "Iterator::rev", "Iterator::skip", "Iterator::take",
                      "Iterator::filter", "Iterator::peekable", "Iterator::by_ref", "Iterator::chain", "Iterator::cloned",
                      "Iterator::enumerate", "Iterator::fuse", "Iterator::skip_while", "Iterator::take_while",
                      "Iterator::step_by", "Iterator::copied") and args:
                out = set()
                for a in args[:2] if sh == "Iterator::chain" else args[:1]:
                    out |= self._elem_origin(a, depth, stack)
                return out
            return {("unknown", "iter:" + sh)}
        if it[0] in ("field", "index", "arg"):
            return {("elem", it)}
        return {("unknown", "iter:" + fmt(it)[:40])}

    # ---------------------------------------------------------------- receiver of a dyn backend call
    def dyn_owner(self, recv):
        """the VfsPath term whose `.fs.fs` is the receiver of a `<dyn FileSystem>` call"""
        t = strip(recv)
        n = 0
        while t[0] == "field" and t[2] == "fs" and n < 2:
            t = strip(t[1])
            n += 1
        if n == 0:
            return None
        return t

    def str_owner(self, t):
        """the VfsPath term whose `.path` string this term is"""
        t = strip(t, extra=("String::as_str", "str::as_ref"))
        if t[0] == "field" and t[2] == "path":
            return strip(t[1])
        return None

    # ---------------------------------------------------------------- mutation summaries
    def is_backend_call(self, site):
        return site.trait == self.w.trait and site.name is not None

    def mutation_summary(self):
        """{fn id: set(arg index)}: arguments whose filesystem may receive a mutating backend call,
        for every in-crate function (fixpoint over the call graph; closures belong to their parent)."""
        if self._mut is not None:
            return self._mut
        facts, inter = self.facts, self.inter
        fns = [b for b in facts.bodies if b.kind != "Closure"]
        mut = {b.id: set() for b in fns}
        self.mut_why = {b.id: {} for b in fns}
        changed = True
        rounds = 0
        while changed and rounds < 12:
            changed = False
            rounds += 1
            for b in fns:
                for site, j, origin in self.mutated_operands(b, mut):
                    for o in origin:
                        if o[0] == "arg" and o[3] in (b.id, inter.code_body(b).id):
                            if o[1] not in mut[b.id]:
                                mut[b.id].add(o[1])
                                self.mut_why[b.id][o[1]] = "%s at %s" % (site.short, site.line)
                                changed = True
        self._mut = mut
        return mut

    def mutated_operands(self, body, mut=None):
        """yield (site, operand index, fs-origin set) for every operand in a mutated position at any
        call site in `body` (closures included)"""
        if mut is None:
            mut = self.mutation_summary()
        inter = self.inter
        for cb in inter.code_bodies(body):
            tr = get_tracer(self.facts, cb)
            for site in inter.sites(cb):
                if self.is_backend_call(site) and site.name in MUTATING:
                    recv = tr.operand(site.args[0])
                    owner = self.dyn_owner(recv)
                    if owner is None:
                        # direct call on a concrete backend value (e.g. self.set_access_time(..)):
                        # mutates the receiver backend itself, not a path operand
                        yield site, 0, {("self-backend", fmt(strip(recv))[:40])}
                        continue
                    if site.name in TWO_PATH:
                        # same-filesystem fast paths: the entries touched are named by the string
                        # arguments; their owners are the mutated path operands (the receiver is the
                        # shared filesystem, which R11.2 requires to be guarded by Arc::ptr_eq)
                        for ai in TWO_PATH[site.name]:
                            if ai < len(site.args):
                                so = self.str_owner(tr.operand(site.args[ai]))
                                if so is None:
                                    yield site, ai, {("unknown", "path string of unknown owner")}
                                else:
                                    yield site, ai, self.fs_origin(so)
                    else:
                        yield site, 0, self.fs_origin(owner)
                    continue
                callee = inter.local_callee(site)
                if callee is None and site.is_dyn():
                    continue
                if callee is None:
                    continue
                js = mut.get(callee.id, ())
                for j in js:
                    if j < len(site.args):
                        yield site, j, self.fs_origin(tr.operand(site.args[j]))

    def unclassified_trait_methods(self):
        t = self.facts.traits.get(self.w.trait)
        if not t:
            return ["<trait %s missing>" % self.w.trait]
        return [m["name"] for m in t["methods"] if m["name"] not in MUTATING and m["name"] not in OBSERVING]
