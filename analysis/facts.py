"""Loader and core structures for the MIR fact file produced by the vfs-facts driver.

Everything downstream (CFG, guards, origins, rules) works on these objects.  No vfs code is
ever executed; the facts are rustc's own type-checked `mir_built` bodies of /repo's working tree.
"""
import json
import re
from collections import defaultdict


class Place:
    __slots__ = ("local", "proj")

    def __init__(self, j):
        self.local = j["l"]
        self.proj = j["p"]

    def is_local(self):
        return not self.proj

    def key(self):
        return (self.local, json.dumps(self.proj, sort_keys=True))

    def fields(self):
        """names of field projections, in order"""
        return [p["name"] for p in self.proj if isinstance(p, dict) and "f" in p]

    def __repr__(self):
        s = "_%d" % self.local
        for p in self.proj:
            if p == "deref":
                s = "(*%s)" % s
            elif isinstance(p, dict) and "f" in p:
                s = "%s.%s" % (s, p["name"])
            elif isinstance(p, dict) and "downcast" in p:
                s = "(%s as %s)" % (s, p["downcast"])
            elif isinstance(p, dict) and "index" in p:
                s = "%s[_%d]" % (s, p["index"])
            elif isinstance(p, dict) and "cidx" in p:
                s = "%s[%s%s]" % (s, "-" if p["from_end"] else "", p["cidx"])
            else:
                s = "%s.<%s>" % (s, p)
        return s


class Operand:
    __slots__ = ("kind", "place", "const", "fn")

    def __init__(self, j):
        self.place = None
        self.const = None
        self.fn = None
        if "c" in j:
            self.kind = "copy"
            self.place = Place(j["c"])
        elif "m" in j:
            self.kind = "move"
            self.place = Place(j["m"])
        elif "k" in j:
            self.kind = "const"
            self.const = j["k"]
        elif "fn" in j:
            self.kind = "fn"
            self.fn = j["fn"]
        else:
            self.kind = "other"
            self.const = j

    def const_str(self):
        """decoded string literal if this is a `"..."` constant operand, else None"""
        if self.kind != "const":
            return None
        v = self.const["v"]
        m = re.match(r'^(?:const )?"(.*)"$', v, re.S)
        if m and self.const.get("ty") in ("&str", "&'static str"):
            return _unescape(m.group(1))
        return None

    def const_bytes(self):
        """decoded byte-string literal (b"...") as bytes, else None"""
        if self.kind != "const":
            return None
        v = self.const["v"]
        m = re.match(r'^(?:const )?b"(.*)"$', v, re.S)
        if m:
            try:
                return _unescape_bytes(m.group(1))
            except Exception:
                return None
        return None

    def const_char(self):
        if self.kind != "const" or self.const.get("ty") != "char":
            return None
        m = re.match(r"^(?:const )?'(.*)'$", self.const["v"], re.S)
        if m:
            return _unescape(m.group(1))
        return None

    def const_int(self):
        if self.kind != "const":
            return None
        v = self.const["v"]
        m = re.match(r"^(?:const )?(-?\d+)_?[iu](8|16|32|64|128|size)$", v)
        if m:
            return int(m.group(1))
        if v in ("const true", "true"):
            return 1
        if v in ("const false", "false"):
            return 0
        return None

    def __repr__(self):
        if self.kind in ("copy", "move"):
            return ("move " if self.kind == "move" else "") + repr(self.place)
        if self.kind == "const":
            return self.const["v"]
        if self.kind == "fn":
            return "fn:" + self.fn["full"]
        return "?" + json.dumps(self.const)


def _unescape(s):
    # rustc prints string constants with Rust escapes (\n, \", \\, \u{..}); decode the common ones
    out = []
    i = 0
    while i < len(s):
        c = s[i]
        if c == "\\" and i + 1 < len(s):
            n = s[i + 1]
            if n == "n":
                out.append("\n"); i += 2; continue
            if n == "t":
                out.append("\t"); i += 2; continue
            if n == "r":
                out.append("\r"); i += 2; continue
            if n == "0":
                out.append("\0"); i += 2; continue
            if n in "\"'\\":
                out.append(n); i += 2; continue
            if n == "u" and i + 2 < len(s) and s[i + 2] == "{":
                j = s.index("}", i)
                out.append(chr(int(s[i + 3:j], 16))); i = j + 1; continue
            if n == "x" and i + 3 < len(s):
                out.append(chr(int(s[i + 2:i + 4], 16))); i += 4; continue
        out.append(c)
        i += 1
    return "".join(out)


def _unescape_bytes(s):
    out = bytearray()
    i = 0
    while i < len(s):
        c = s[i]
        if c == "\\" and i + 1 < len(s):
            n = s[i + 1]
            if n == "n":
                out.append(10); i += 2; continue
            if n == "t":
                out.append(9); i += 2; continue
            if n == "r":
                out.append(13); i += 2; continue
            if n == "0":
                out.append(0); i += 2; continue
            if n in "\"'\\":
                out.append(ord(n)); i += 2; continue
            if n == "x":
                out.append(int(s[i + 2:i + 4], 16)); i += 4; continue
        out.extend(c.encode("utf-8"))
        i += 1
    return bytes(out)


def decode_fmt_template(b):
    """decode rustc's compact format_args template: returns list of ('lit', str) / ('arg', n) / ('unknown', byte)"""
    out = []
    i = 0
    n = 0
    while i < len(b):
        c = b[i]
        if c == 0:
            break
        if c == 0xC0:
            out.append(("arg", n)); n += 1; i += 1; continue
        if c < 0x80:
            out.append(("lit", b[i + 1:i + 1 + c].decode("utf-8", "replace"))); i += 1 + c; continue
        if c == 0x80 and i + 2 < len(b):
            ln = b[i + 1] | (b[i + 2] << 8)
            out.append(("lit", b[i + 3:i + 3 + ln].decode("utf-8", "replace"))); i += 3 + ln; continue
        out.append(("unknown", c)); i += 1
        # a placeholder with options: 0xC0|flags followed by option bytes; be conservative
        if c & 0xC0 == 0xC0:
            out[-1] = ("arg", n); n += 1
            # skip option payload heuristically: unknown width; stop decoding literals reliably
            break
    return out


class Rvalue:
    def __init__(self, j):
        self.j = j
        self.kind = None
        self.ops = []
        self.place = None
        self.agg = None
        self.op = None
        self.cast = None
        self.ty = None
        self.mut = False
        if "use" in j:
            self.kind = "use"
            self.ops = [Operand(j["use"])]
        elif "ref" in j:
            self.kind = "ref"
            self.place = Place(j["ref"])
            self.mut = j["mut"]
        elif "rawptr" in j:
            self.kind = "rawptr"
            self.place = Place(j["rawptr"])
        elif "cast" in j:
            self.kind = "cast"
            self.cast = j["cast"]
            self.ops = [Operand(j["op"])]
            self.ty = j["ty"]
        elif "bin" in j:
            self.kind = "bin"
            self.op = j["bin"]
            self.ops = [Operand(j["a"]), Operand(j["b"])]
        elif "un" in j:
            self.kind = "un"
            self.op = j["un"]
            self.ops = [Operand(j["a"])]
        elif "discr" in j:
            self.kind = "discr"
            self.place = Place(j["discr"])
        elif "cfd" in j:
            self.kind = "cfd"
            self.place = Place(j["cfd"])
        elif "agg" in j:
            self.kind = "agg"
            self.agg = j["agg"]
            self.ops = [Operand(o) for o in j["ops"]]
        elif "repeat" in j:
            self.kind = "repeat"
            self.ops = [Operand(j["repeat"])]
        elif "tls" in j:
            self.kind = "tls"
        else:
            self.kind = "other"

    def __repr__(self):
        k = self.kind
        if k == "use":
            return repr(self.ops[0])
        if k == "ref":
            return ("&mut " if self.mut else "&") + repr(self.place)
        if k == "rawptr":
            return "&raw " + repr(self.place)
        if k == "cast":
            return "%r as %s (%s)" % (self.ops[0], self.ty, self.cast)
        if k == "bin":
            return "%s(%r, %r)" % (self.op, self.ops[0], self.ops[1])
        if k == "un":
            return "%s(%r)" % (self.op, self.ops[0])
        if k == "discr":
            return "discriminant(%r)" % self.place
        if k == "cfd":
            return "deref_copy %r" % self.place
        if k == "agg":
            a = self.agg
            if a["kind"] == "adt":
                return "%s::%s{%s}" % (a["adt"], a["variant"], ", ".join(
                    "%s: %r" % (f, o) for f, o in zip(a["fields"], self.ops)))
            return "%s(%s)" % (a.get("def", a["kind"]), ", ".join(map(repr, self.ops)))
        return "?" + json.dumps(self.j)


class Stmt:
    __slots__ = ("kind", "lhs", "rv", "line", "exp", "local")

    def __init__(self, j):
        self.kind = j["k"]
        self.lhs = None
        self.rv = None
        self.local = None
        self.line = j.get("line")
        self.exp = j.get("exp")
        if self.kind == "assign":
            self.lhs = Place(j["lhs"])
            self.rv = Rvalue(j["rv"])
        elif self.kind in ("dead", "live"):
            self.local = j["l"]
        elif self.kind == "setdiscr":
            self.lhs = Place(j["lhs"])

    def __repr__(self):
        if self.kind == "assign":
            return "%r = %r" % (self.lhs, self.rv)
        if self.kind in ("dead", "live"):
            return "Storage%s(_%d)" % (self.kind.capitalize(), self.local)
        return self.kind


class Term:
    def __init__(self, j):
        self.j = j
        self.kind = j["k"]
        self.line = j.get("line")
        self.exp = j.get("exp")
        self.func = None
        self.args = []
        self.dest = None
        self.target = None
        self.discr = None
        self.targets = []
        self.otherwise = None
        self.place = None
        self.cond = None
        k = self.kind
        if k in ("call", "tailcall"):
            self.func = Operand(j["fn"])
            self.args = [Operand(a) for a in j["args"]]
            if k == "call":
                self.dest = Place(j["dest"])
                self.target = j["target"]
        elif k == "switch":
            self.discr = Operand(j["discr"])
            self.targets = [(int(v), b) for v, b in j["targets"]]
            self.otherwise = j["otherwise"]
        elif k in ("goto", "falseedge", "falseunwind"):
            self.target = j["target"]
        elif k == "drop":
            self.place = Place(j["place"])
            self.target = j["target"]
        elif k == "assert":
            self.cond = Operand(j["cond"])
            self.target = j["target"]
        elif k == "yield":
            self.target = j["resume"]
            self.dest = Place(j["resume_arg"])

    # ---- callee helpers
    def callee(self):
        """the def path of the called function item ('' when indirect)"""
        if self.func is not None and self.func.kind == "fn":
            return self.func.fn["path"]
        return ""

    def callee_full(self):
        if self.func is not None and self.func.kind == "fn":
            return self.func.fn["full"]
        return ""

    def callee_name(self):
        if self.func is not None and self.func.kind == "fn":
            return self.func.fn["name"]
        return None

    def resolved(self):
        if self.func is not None and self.func.kind == "fn":
            return self.func.fn["resolved"]
        return None

    def succs(self):
        k = self.kind
        if k == "switch":
            return [b for _, b in self.targets] + [self.otherwise]
        if k in ("goto", "falseedge", "falseunwind", "drop", "assert", "yield"):
            return [self.target]
        if k == "call":
            return [self.target] if self.target is not None else []
        return []

    def __repr__(self):
        k = self.kind
        if k == "call":
            return "%r = %s(%s) -> bb%s" % (self.dest, self.callee_full() or repr(self.func),
                                            ", ".join(map(repr, self.args)), self.target)
        if k == "switch":
            return "switchInt(%r) -> [%s, otherwise: bb%d]" % (
                self.discr, ", ".join("%d: bb%d" % t for t in self.targets), self.otherwise)
        if k == "drop":
            return "drop(%r) -> bb%d" % (self.place, self.target)
        if k == "assert":
            return "assert(%r == %s, %s) -> bb%d" % (self.cond, self.j["expected"], self.j["msg"][:60], self.target)
        if k in ("goto", "falseedge", "falseunwind"):
            return "%s -> bb%d" % (k, self.target)
        if k == "yield":
            return "yield -> bb%d" % self.target
        return k


class Block:
    __slots__ = ("idx", "stmts", "term", "cleanup")

    def __init__(self, idx, j):
        self.idx = idx
        self.stmts = [Stmt(s) for s in j["stmts"]]
        self.term = Term(j["term"])
        self.cleanup = j["cleanup"]


class Body:
    def __init__(self, j):
        self.j = j
        self.id = j["id"]
        self.kind = j["kind"]
        self.name = j["name"]
        self.impl = j["impl"]
        self.trait_item_of = j["trait_item_of"]
        self.vis = j["vis"]
        self.root = j["root"]
        self.parent = j["parent"]
        self.coroutine = j["coroutine"]
        self.span = j["span"]
        self.end_line = j["end_line"]
        self.arg_count = j["arg_count"]
        self.locals = j["locals"]
        self.debug = j["debug"]
        self.blocks = [Block(i, b) for i, b in enumerate(j["blocks"])]
        self._names = None

    @property
    def file(self):
        return self.span.rsplit(":", 1)[0]

    @property
    def line(self):
        return int(self.span.rsplit(":", 1)[1])

    def local_ty(self, l):
        return self.locals[l]["ty"]

    def names(self):
        """debug name -> Place (for locals and closure captures)"""
        if self._names is None:
            d = {}
            for v in self.debug:
                if "l" in v["val"]:
                    d.setdefault(v["name"], Place(v["val"]))
            self._names = d
        return self._names

    def name_of_local(self, l):
        for v in self.debug:
            if "l" in v["val"] and v["val"]["l"] == l and not v["val"]["p"]:
                return v["name"]
        return None

    def capture_name(self, place):
        """name of the captured variable a closure-env field place refers to"""
        k = place.key()
        for v in self.debug:
            if "l" in v["val"]:
                pv = Place(v["val"])
                if pv.key() == k:
                    return v["name"]
        # match ignoring a trailing deref
        for v in self.debug:
            if "l" in v["val"]:
                pv = Place(v["val"])
                if pv.local == place.local and pv.proj and place.proj and pv.proj[:len(place.proj)] == place.proj:
                    return v["name"]
                if pv.local == place.local and place.proj[:len(pv.proj)] == pv.proj and pv.proj:
                    return v["name"]
        return None

    def calls(self):
        for b in self.blocks:
            if b.cleanup:
                continue
            if b.term.kind == "call":
                yield b

    def dump(self):
        out = ["fn %s  [%s %s] %s" % (self.id, self.kind, self.coroutine or "", self.span)]
        for i, l in enumerate(self.locals):
            out.append("  let _%d: %s%s" % (i, l["ty"], "  // " + (self.name_of_local(i) or "") if self.name_of_local(i) else ""))
        for v in self.debug:
            if "l" in v["val"] and v["val"]["p"]:
                out.append("  debug %s => %r" % (v["name"], Place(v["val"])))
        for b in self.blocks:
            out.append("  bb%d%s:" % (b.idx, " (cleanup)" if b.cleanup else ""))
            for s in b.stmts:
                if s.kind in ("live",):
                    continue
                out.append("    %r" % s)
            out.append("    %r    // %s" % (b.term, b.term.line))
        return "\n".join(out)


class Facts:
    def __init__(self, path):
        with open(path) as fh:
            j = json.load(fh)
        self.path = path
        self.crate = j["crate"]
        self.bodies = [Body(b) for b in j["bodies"]]
        self.by_id = {}
        for b in self.bodies:
            self.by_id.setdefault(b.id, b)
        self.adts = {a["name"]: a for a in j["adts"]}
        self.impls = j["impls"]
        self.traits = {t["name"]: t for t in j["traits"]}
        self.statics = j["statics"]
        self.children = defaultdict(list)  # parent def path -> closure bodies
        for b in self.bodies:
            if b.kind == "Closure" and b.parent:
                self.children[b.parent].append(b)

    def body(self, id_):
        return self.by_id.get(id_)

    def find(self, pattern):
        rx = re.compile(pattern)
        return [b for b in self.bodies if rx.search(b.id)]

    def impl_methods(self, trait_suffix, self_ty):
        """bodies of `impl <trait> for <self_ty>`; trait matched by path suffix"""
        out = {}
        for b in self.bodies:
            if b.impl and b.impl["trait"] and b.impl["trait"].endswith(trait_suffix) and b.impl["self_ty"] == self_ty:
                out[b.name] = b
        return out

    def inherent_methods(self, self_ty):
        out = {}
        for b in self.bodies:
            if b.impl and b.impl["trait"] is None and b.impl["self_ty"] == self_ty:
                out[b.name] = b
        return out

    def closures_of(self, body, recursive=True):
        out = []
        for c in self.children.get(body.id, []):
            out.append(c)
            if recursive:
                out.extend(self.closures_of(c))
        return out

    def async_inner(self, body):
        """for an `async fn` / async_trait method: the coroutine body holding the code, else body itself"""
        kids = [c for c in self.children.get(body.id, []) if c.coroutine]
        if len(kids) == 1 and len([b for b in body.blocks if not b.cleanup]) <= 6:
            return kids[0]
        return body
