"""C20 — underlying failures are never reported as success.

Error-discipline analysis (covers every fault position k at once): inside the adapters and the path
layer, the Err of every Result<_, VfsError|io::Error> can leave an operation only as an error —
 R20.1 no discarding consumer (ok/unwrap_or*/or*/map_or*/is_ok_and/iter/...; unused results; such
       combinators passed as function values) unless the error can only stem from pure path
       computation (callee chain reaches no backend call);
 R20.2 kind-switch escapes are limited to the frozen table below;
 R20.3/4 from every edge on which a matched Result is Err, no assignment of an Ok-polarity value to
       the return place is reachable except through a listed escape edge (walk iterators: a silent
       `None` counts as success).
"""
import re
from ..terms import get_tracer, fmt, strip, short, call_of, alts, walk
from ..inter import Inter
from ..pathflow import World
from ..results import ResultFlow, PRESERVING, DISCARDING

EXPLANATION = ("Result-consumer classification over rustc MIR for every function of the adapters (altroot, overlay) "
               "and the path layer, sync and async: each consumer of a Result carrying VfsError/io::Error is "
               "classified (propagate / preserve / match / discard / unused); discards and Err-edges that can reach a "
               "success return are violations unless listed in the reasoned escape table. Decides the "
               "error-discipline clause for all fault positions; does not decide whether an alternative route "
               "reproduces the full effect.")

# (root function name, backend method that produced the error, tolerated kind): reason
ESCAPES = {
    ("create_dir_all", "create_dir", "DirectoryExists"): "the directory is already there: the step's effect is in place (R17.2)",
    ("copy_file", "copy_file", "NotSupported"): "optional same-filesystem fast path absent: generic stream copy does the work (R11.2)",
    ("move_file", "move_file", "NotSupported"): "optional fast path absent: generic copy+remove does the work",
    ("move_dir", "move_dir", "NotSupported"): "optional fast path absent: generic walk copy + remove_dir_all does the work",
    ("exists", "<resolver>", "FileNotFound"): "the overlay's resolver reports the path as absent (hidden by a marker or in no layer): "
                                             "'does not exist' is the correct answer, every other kind is returned",
}


def scope_bodies(facts, w):
    out = []
    for b in facts.bodies:
        root = b
        if b.kind == "Closure":
            root = facts.body(b.root) or b
        imp = root.impl
        if imp and imp.get("derived"):
            continue
        st = imp["self_ty"] if imp else None
        if st in (w.path_ty, w.overlay, w.altroot, w.walk):
            out.append((b, root))
    return out


def backend_reaching(facts, inter, w, body, _memo={}):
    """does `body` (with callees, closures) reach a backend-trait call or a std/async-std fs/io call?"""
    key = (id(facts), body.id, w.tag)
    if key in _memo:
        return _memo[key]
    _memo[key] = False
    res = False
    for rb in inter.reachable([body], through_dyn=False).values():
        for s in inter.sites(rb):
            if s.trait in ("filesystem::FileSystem", "async_vfs::filesystem::AsyncFileSystem"):
                res = True
            p = s.path
            if p.startswith(("std::fs::", "async_std::fs::", "std::io::copy", "async_std::io::copy", "filetime::")):
                res = True
    _memo[key] = res
    return res


def err_sources(facts, inter, t, depth=6):
    """call terms that may have produced the Err of Result term t"""
    if depth <= 0:
        return [("unknown",)]
    t0 = t
    if t0[0] in ("okval", "errval", "await"):
        return err_sources(facts, inter, t0[1], depth)
    if t0[0] == "phi":
        out = []
        for x in t0[1]:
            out.extend(err_sources(facts, inter, x, depth))
        return out
    if t0[0] == "call" and isinstance(t0[1], str):
        sh = short(t0[1])
        if sh in PRESERVING or sh in ("Deref::deref", "Clone::clone", "Into::into", "From::from", "Option::transpose",
                                     "IntoFuture::into_future"):
            out = err_sources(facts, inter, t0[2][0], depth - 1) if t0[2] else []
            if sh == "Result::and_then" and len(t0[2]) > 1:
                out.append(t0[2][1])
            return out
        return [t0]
    if t0[0] == "agg":
        return []
    return [t0]


def source_is_pure(facts, inter, w, src):
    if src[0] == "call" and isinstance(src[1], str):
        b = facts.body(src[1])
        if b is None and src[3]:
            sb = facts.body(src[3][0])
            if sb is not None:
                r = sb.blocks[src[3][1]].term.resolved()
                if r:
                    b = facts.body(r)
        if b is None:
            return False
        return not backend_reaching(facts, inter, w, b)
    if src[0] == "closure":
        b = facts.body(src[1])
        return b is not None and not backend_reaching(facts, inter, w, b)
    return False


def producing_method(t, facts=None, inter=None):
    """backend/VfsPath method name whose result this error came from; private helpers of the adapters are named by
    ROLE (never by their identifier): `<resolver>` = an overlay helper returning a path of any layer,
    `<helper>` = any other private helper"""
    for x in walk(t):
        c = call_of(x) if x[0] in ("call", "await") else None
        if c:
            sh = short(c[0])
            if sh.split("::")[0] in ("FileSystem", "AsyncFileSystem", "VfsPath", "AsyncVfsPath"):
                return sh.split("::")[-1]
    for x in walk(t):
        c = call_of(x) if x[0] in ("call", "await") else None
        if c and c[2] is not None and inter is not None:
            b = inter.body_of_call(("call", c[0], c[1], c[2]))
            if b is not None and b.impl and b.impl["trait"] is None and b.vis != "pub":
                from ..pathflow import World
                from ..overlayrules import Overlay
                for asyncw in (False, True):
                    w = World(facts, asyncw)
                    if b.impl["self_ty"] == w.overlay:
                        ov = _OV.setdefault((id(facts), asyncw), Overlay(facts, w))
                        return "<resolver>" if ov._is_resolver(b) else "<helper>"
                return "<helper>"
    return None


_OV = {}
_DD = {}


def _entry_name(facts, root):
    from ..panics import Discharger
    D = _DD.setdefault(id(facts), Discharger(facts))
    owner = re.sub(r"(::\{closure#\d+\})+$", "", D.owner_id(root))
    return owner.rsplit("::", 1)[-1]


def run_world(facts, rep, w, floors):
    inter = Inter(facts)
    bodies = scope_bodies(facts, w)
    n_err_edges = 0
    n_kind_escapes = 0
    n_discards = 0
    n_results = 0
    for b, root in bodies:
        rf = ResultFlow(facts, b)
        ret_ty = b.local_ty(0)
        none_is_ok = ret_ty.startswith("std::option::Option<std::result::Result") or \
            ret_ty.startswith("std::task::Poll<std::option::Option<std::result::Result")
        # escape edges of this body
        blocked = []
        for (s, d, variant, eterm) in rf.kind_switch_edges():
            if variant is None:
                continue
            meth = producing_method(eterm, facts, inter) if eterm else None
            # (a private helper with a single entry point counts as that entry point: `fn copy_file_internal` is copy_file)
            key = (_entry_name(facts, root), meth, variant)
            ok = key in ESCAPES
            n_kind_escapes += 1
            # which kind arms continue normally?  an arm is an escape iff it can reach an Ok return
            tmp_edge = type("E", (), {})()
            tmp_edge.dst, tmp_edge.src, tmp_edge.result_term = d, s, ("none",)
            hits, _ = rf.ok_reports_from(tmp_edge, (), none_is_ok)
            escapes_to_ok = bool(hits) or _reaches_normal_continuation(rf, s, d)
            if not escapes_to_ok:
                rep.ob("R20.2", root.id, "kind arm %s of %s" % (variant, meth), True,
                       "arm leads only to error returns", b.blocks[s].term.line)
                continue
            if ok:
                blocked.append((s, d))
            rep.ob("R20.2", root.id, "tolerated kind %s from %s" % (variant, meth), ok,
                   ESCAPES.get(key, "an error of kind %s produced by %s is swallowed (continues to a success path) "
                                    "and is not in the escape table" % (variant, meth)),
                   b.blocks[s].term.line)
        # Err edges
        for e in rf.err_edges():
            n_err_edges += 1
            hits, region = rf.ok_reports_from(e, blocked, none_is_ok)
            srcs = err_sources(facts, inter, e.result_term)
            pure = srcs and all(source_is_pure(facts, inter, w, s) for s in srcs)
            desc = "Err edge of %s" % fmt(strip(e.result_term))[:70]
            if hits and pure:
                rep.ob("R20.4", root.id, desc, True,
                       "error can only stem from pure path computation (no backend call reachable)", e.line)
            else:
                rep.ob("R20.4", root.id, desc, not hits,
                       ("on the Err edge (%s) a success value can be returned: %s" % (e.how, "; ".join(h[2][:80] for h in hits[:3])))
                       if hits else "Err edge reaches only error returns / escapes", e.line)
        # discarding consumers
        for (bb, sh, a0, line) in rf.discard_sites():
            n_discards += 1
            srcs = err_sources(facts, inter, a0)
            pure = srcs and all(source_is_pure(facts, inter, w, s) for s in srcs)
            rep.ob("R20.1", root.id, "%s on %s" % (sh, fmt(strip(a0))[:60]), pure,
                   "pure path computation only" if pure else
                   "%s ends an error that may come from an underlying filesystem call (%s)" % (
                       sh, ", ".join(fmt(s)[:50] for s in srcs[:3])), line)
        for (bb, sh, line) in rf.fnitem_discards():
            n_discards += 1
            rep.fail("R20.1", root.id, "%s passed as a function value" % sh,
                     "error-discarding combinator used as a function value", line)
        for (bb, nm, line) in rf.nested_discards():
            rep.fail("R20.1", root.id, "inner Result of `%s` is never looked at" % nm,
                     "the value is Result<Result<_, error>, _> and only its outer variant is examined: the inner failure (the operation's own "
                     "outcome) is dropped and the caller is told Ok", line)
        for (bb, nm, line) in rf.overwritten_results():
            rep.fail("R20.1", root.id, "Result `%s` is assigned again while it may hold an Err" % nm,
                     "the earlier failure is overwritten before anything acts on it: the operation goes on and can report success", line)
        for (bb, sh, line) in rf.unused_results():
            rep.fail("R20.1", root.id, "unused result of %s" % sh, "a Result carrying VfsError/io::Error is dropped unread", line)
        # count tracked results (coverage)
        for blk in b.calls():
            t = blk.term
            if t.dest is not None and t.dest.is_local():
                from ..results import is_result_ty, tracked_err
                ty = b.local_ty(t.dest.local)
                if is_result_ty(ty) and tracked_err(ty):
                    n_results += 1
        rep.analysed.add(b.id)
    # the backends themselves (where the OS / the map is asked): the purely structural kinds of dropped failures — a Result that
    # is never read, one that is overwritten unexamined, an inner Result whose outer wrapper alone is matched.  (What a backend
    # does with the error *kinds* of its std calls is Table O's business.)
    backend_files = tuple("src/" + ("async_vfs/" if w.asyncw else "") + "impls/%s.rs" % m for m in ("physical", "memory"))
    for b in facts.bodies:
        if b.file not in backend_files or "::tests::" in b.id:
            continue
        root = facts.body(b.root) if b.kind == "Closure" and b.root else b
        if root is None or (root.impl and root.impl.get("derived")):
            continue
        rfb = ResultFlow(facts, b)
        for (bb, nm, line) in rfb.nested_discards():
            rep.fail("R20.1", root.id, "inner Result of `%s` is never looked at" % nm,
                     "the value is Result<Result<_, error>, _> and only its outer variant is examined: the inner failure (the operation's own "
                     "outcome) is dropped and the caller is told Ok", line)
        for (bb, nm, line) in rfb.overwritten_results():
            rep.fail("R20.1", root.id, "Result `%s` is assigned again while it may hold an Err" % nm,
                     "the earlier failure is overwritten before anything acts on it", line)
        for (bb, sh, line) in rfb.unused_results():
            rep.fail("R20.1", root.id, "unused result of %s" % sh, "a Result carrying VfsError/io::Error is dropped unread", line)
        rep.analysed.add(b.id)
    # positive control on the real code: the consumer classifier must recognise discarding combinators where they
    # legitimately occur (PhysicalFS::metadata turns unsupported timestamps into None with `.ok()`)
    n_ctl = 0
    for b in facts.bodies:
        rt = facts.body(b.root) if b.kind == "Closure" and b.root else b
        if rt is not None and rt.impl and rt.impl["self_ty"] == w.physical and not rt.impl.get("derived"):
            for blk in b.calls():
                if short(blk.term.callee() or "") in DISCARDING:
                    n_ctl += 1
    rep.floor("positive control: discarding combinators recognised in %s" % w.physical, n_ctl, 3)
    rep.floor("Result-producing call sites examined (%s)" % w.tag, n_results, floors["results"])
    rep.floor("matched-Result Err edges (%s)" % w.tag, n_err_edges, floors["err_edges"])
    rep.floor("kind-switch arms (%s)" % w.tag, n_kind_escapes, floors["kind_arms"])


def _reaches_normal_continuation(rf, s, d):
    """the arm's target block can reach a Return without assigning an Err to _0 on the way (best effort):
    true when some path from d to return contains no `_0 = Err/from_residual`"""
    body = rf.body
    cfg = rf.cfg

    def assigns_err(bb):
        blk = body.blocks[bb]
        for st in blk.stmts:
            if st.kind == "assign" and st.lhs.local == 0 and st.lhs.is_local():
                if st.rv.kind == "agg" and st.rv.agg.get("variant") in ("Err",):
                    return True
                if st.rv.kind == "agg" and st.rv.agg.get("variant") in ("Some", "Ready"):
                    return True  # Some(Err(..)) handled by polarity elsewhere; conservative: treat as terminal
        t = blk.term
        if t.kind == "call" and t.dest is not None and t.dest.local == 0 and short(t.callee() or "") == "FromResidual::from_residual":
            return True
        return False

    seen = set()
    st = [d]
    while st:
        x = st.pop()
        if x in seen:
            continue
        seen.add(x)
        if assigns_err(x):
            continue
        if body.blocks[x].term.kind == "return":
            return True
        st.extend(cfg.succ[x])
    return False


class _PfxRep:
    def __init__(self, rep, rule):
        self._rep, self._rule, self.analysed = rep, rule, rep.analysed

    def ob(self, rule, fn, desc, ok, detail="", loc=None):
        return self._rep.ob(self._rule, fn, desc, ok, detail, loc)

    def fail(self, rule, fn, desc, detail="", loc=None):
        return self.ob(rule, fn, desc, False, detail, loc)

    def floor(self, *a):
        return None

    def note(self, t):
        self._rep.note(t)

    def assume(self, t):
        self._rep.assume(t)


def not_found_from_errors(facts, rep, rule, D):
    """R20.9: `FileNotFound` is the kind observers turn into "no" (`exists` -> Ok(false), remove_dir_all -> nothing to do): it is never
    made out of another error.  A function or closure that *receives* an error (a `map_err` target, an error conversion) builds
    FileNotFound only under a test of that error's own kind (io NotFound); re-issuing whatever went wrong as "not found" reports
    the failure of a layer as absence"""
    import re
    n = 0
    for b in facts.bodies:
        if b.file.startswith("src/test_macros") or "::tests::" in b.id:
            continue
        err_args = [l for l in range(1, b.arg_count + 1)
                    if re.search(r"error::VfsError(?!Kind)", b.local_ty(l)) or "std::io::Error" in b.local_ty(l) or "io::error::Error" in b.local_ty(l)]
        if not err_args:
            continue
        for blk in b.blocks:
            if blk.cleanup:
                continue
            for st in blk.stmts:
                if st.kind == "assign" and st.rv.kind == "agg" and st.rv.agg.get("adt") == "error::VfsErrorKind" and \
                        st.rv.agg.get("variant") == "FileNotFound":
                    gs = D.guards(b, blk.idx)
                    tested = any(any(x[0] == "arg" and x[1] + 1 in err_args for x in walk(g[1])) or
                                 any(x[0] in ("errval",) for x in walk(g[1])) for g in gs)
                    n += 1
                    rep.ob(rule, D.owner_id(b), "FileNotFound built from an error only under a test of that error's kind", tested, "" if tested else
                           "%s receives an error and answers FileNotFound whatever it was: an I/O failure of a layer reads as \"no such "
                           "entry\" and the observers built on it answer Ok(false)" % b.id, st.line)
    return n


def not_supported_from_errors(facts, rep, rule, D):
    """R20.10: `NotSupported` makes the caller take another route (the generic copy / move of the path type).  Answering it *because a
    call failed* is sound only when that call is one OS primitive that either happened or did not (`fs::rename` in the physical
    move_dir); where the failed call is an operation of this crate — a path-type move through an adapter, which may have done
    half of its work — the retry runs on what the failed attempt left behind and the caller gets Ok"""
    n = 0
    inter = D.inter
    for b in facts.bodies:
        if b.file.startswith("src/test_macros") or "::tests::" in b.id:
            continue
        for blk in b.blocks:
            if blk.cleanup:
                continue
            for st in blk.stmts:
                if not (st.kind == "assign" and st.rv.kind == "agg" and st.rv.agg.get("adt") == "error::VfsErrorKind" and
                        st.rv.agg.get("variant") == "NotSupported"):
                    continue
                failed = []
                for g in D.guards(b, blk.idx):
                    x = None
                    if g[0] == "bool" and g[1][0] == "call" and g[1][1] in ("Result::is_err", "Result::is_ok") and g[1][2] and \
                            g[2] is (g[1][1] == "Result::is_err"):
                        x = g[1][2][0]
                    if g[0] == "variant" and g[2] == "err":
                        x = g[1]
                    if x is None:
                        continue
                    while x[0] in ("await", "okval", "errval") or (x[0] == "call" and isinstance(x[1], str) and short(x[1]) in ("Try::branch", "IntoFuture::into_future")):
                        x = x[1] if x[0] != "call" else x[2][0]
                    if x[0] == "call" and isinstance(x[1], str):
                        hb = inter.body_of_call(x)
                        sb = facts.body(x[3][0]) if len(x) > 3 and x[3] else None
                        tfn = sb.blocks[x[3][1]].term.func.fn if sb is not None and sb.blocks[x[3][1]].term.func.kind == "fn" else None
                        if hb is not None or (tfn is not None and tfn.get("crate") == facts.crate):
                            failed.append(short(x[1]))
                # ... also in the combinator spelling: the kind is built in a closure handed to `map_err` / `or_else` of the failed call
                if b.kind == "Closure" and b.parent and facts.body(b.parent) is not None:
                    pb_ = facts.body(b.parent)
                    ptr_ = get_tracer(facts, pb_)
                    for pblk in pb_.calls():
                        if short(pblk.term.callee() or "") in ("Result::map_err", "Result::or_else") and len(pblk.term.args) == 2:
                            ca_ = strip(ptr_.operand(pblk.term.args[1]))
                            if ca_[0] == "closure" and ca_[1] == b.id:
                                x = ptr_.operand(pblk.term.args[0])
                                while x[0] in ("await", "okval", "errval") or (x[0] == "call" and isinstance(x[1], str) and short(x[1]) in ("Try::branch", "IntoFuture::into_future")):
                                    x = x[1] if x[0] != "call" else x[2][0]
                                if x[0] == "call" and isinstance(x[1], str):
                                    hb = inter.body_of_call(x)
                                    sb = facts.body(x[3][0]) if len(x) > 3 and x[3] else None
                                    tfn = sb.blocks[x[3][1]].term.func.fn if sb is not None and sb.blocks[x[3][1]].term.func.kind == "fn" else None
                                    if hb is not None or (tfn is not None and tfn.get("crate") == facts.crate):
                                        failed.append(short(x[1]))
                n += 1
                rep.ob(rule, D.owner_id(b), "NotSupported is not the answer to a failed operation of this crate", not failed, "" if not failed else
                       "%s answers NotSupported because %s failed: the caller's generic route then runs on whatever the failed attempt left "
                       "behind and reports success" % (b.id, failed[0]), st.line)
    return n


def tolerated_kind_sites(facts, rep, rule, D):
    """who may construct the kind create_dir_all swallows: `VfsErrorKind::DirectoryExists` is built only inside a backend's
    create_dir (where Tables M/U/O tie it to a positive directory test) — not in an error conversion, a wrapper or any
    other operation, where it would turn that operation's failure into a tolerated one"""
    n = 0
    for b in facts.bodies:
        if b.file.startswith("src/test_macros") or "::tests::" in b.id or "::test" in b.id.split("::")[0]:
            continue
        for blk in b.blocks:
            if blk.cleanup:
                continue
            for st in blk.stmts:
                if st.kind == "assign" and st.rv.kind == "agg" and st.rv.agg.get("adt") == "error::VfsErrorKind" and \
                        st.rv.agg.get("variant") == "DirectoryExists":
                    owner = re.sub(r"(::\{closure#\d+\})+$", "", D.owner_id(b))
                    ob_ = facts.body(owner) if hasattr(facts, "body") else None
                    name = owner.rsplit("::", 1)[-1]
                    in_trait = ob_ is not None and ob_.impl and ob_.impl.get("trait") and \
                        ob_.impl["trait"].rsplit("::", 1)[-1] in ("FileSystem", "AsyncFileSystem")
                    ok = name == "create_dir" and bool(in_trait)
                    # ... and there only where the occupant has been seen to be a directory (Tables M / U / O decide the precise
                    # shape for the three backends that have one; any other backend needs some type test in front of it)
                    root_b = facts.body(b.root) if b.kind == "Closure" and b.root else b
                    if ok and root_b is not None and root_b.id == owner:     # (inside a helper the test sits at the call site)
                        trk = get_tracer(facts, b)
                        typed = False
                        for g in trk.guards_at(blk.idx):
                            for x in walk(g[1]):
                                if (x[0] == "field" and x[2] == "file_type") or \
                                        (x[0] == "call" and isinstance(x[1], str) and x[1].rsplit("::", 1)[-1] in (
                                            "is_dir", "is_file", "metadata", "symlink_metadata", "file_type")):
                                    typed = True
                            if g[0] == "variant" and len(g) > 3 and g[3] in ("Directory", "File"):
                                typed = True
                        n += 1
                        rep.ob(rule, owner, "DirectoryExists is built under a type test of the occupant", typed, "" if typed else
                               "%s answers DirectoryExists without having looked at the occupant's type: a file in the way is reported as a "
                               "directory, which create_dir_all accepts as success" % b.id, st.line)
                    n += 1
                    rep.ob(rule, owner, "DirectoryExists is built only by a backend's create_dir", ok, "" if ok else
                           "%s builds VfsErrorKind::DirectoryExists outside a backend's create_dir: create_dir_all tolerates that kind, so "
                           "a failure classified here (e.g. every io AlreadyExists) is reported as success with nothing created" % b.id, st.line)
    return n


def run(facts, rep, tier, ctx):
    ws = World(facts, False)
    run_world(facts, rep, ws, {"results": 60, "err_edges": 5, "kind_arms": 4})
    wa = World(facts, True)
    if wa.present():
        run_world(facts, rep, wa, {"results": 20, "err_edges": 5, "kind_arms": 4})
    else:
        rep.fail("R20.1", "async_vfs", "async world present", "async_vfs module not found")
    # R20.6 the one error kind a composite tolerates (DirectoryExists, by create_dir_all) is built only on positive evidence
    # that a directory is there: a failed probe that falls into the "directory" arm turns an underlying failure into
    # a success of create_dir_all with nothing in place
    import os
    from ..report import Report
    from ..panics import Discharger, load_records
    from .. import physrules
    from . import c01, c09
    D = Discharger(facts, load_records(os.path.join(ctx["V"], "rules", "panic_records.json")))
    k = 0
    for w_ in (ws, wa):
        if not w_.present():
            continue
        tag = "A/" if w_.asyncw else ""
        scratch = Report("x")
        c09.table_u(facts, scratch, w_, "U", only=("create_dir",))
        c01.table_m(facts, scratch, "M", "Mk", self_ty=w_.memory, trait=w_.trait.rsplit("::", 1)[1], ops_filter=("create_dir",))
        physrules.table_o_shape(facts, scratch, "O", w_)
        for o in scratch.obligations:
            d = o["key"].split("|")[2]
            if "DirectoryExists" in d:
                k += 1
                rep.ob(tag + "R20.6", o["fn"], d, o["ok"], o["detail"], o["loc"])
    rep.floor("tolerated-kind construction sites", k, 6)
    k2 = tolerated_kind_sites(facts, rep, "R20.6", D)
    not_found_from_errors(facts, rep, "R20.9", D)
    # R20.p the error path itself cannot panic: the functions of error.rs (with_path / with_context / the conversions) run exactly when
    # something underneath failed — a panic there replaces the Err the caller was owed (C13's sites, restricted to that file)
    from . import c13 as _c13e
    _c13e.sites_for(facts, rep, ctx["V"], "R20.p", lambda r: r.file == "src/error.rs" or r.file.endswith("/src/error.rs"))
    # ... nor can the composite operations of the path types while they handle one: an `unreachable!()` in the arm that receives the
    # backend's error ("the parent has just been created") turns that failure into a panic
    _c13e.sites_for(facts, rep, ctx["V"], "R20.p", lambda r: r.file.endswith(("src/path.rs", "src/async_vfs/path.rs")))
    k10 = not_supported_from_errors(facts, rep, "R20.10", D)
    rep.floor("NotSupported construction sites judged (R20.10)", k10, 10)
    rep.floor("DirectoryExists construction sites (whole crate)", k2, 6)
    # R20.7 the async walk: a failed per-entry future is not kept in its slot (polling it again panics), an error item is
    # yielded once (typestate of poll_next, shared with C15 R15.4)
    if wa.present():
        from . import c15
        from .c10 import _Prefixed
        k = c15.poll_next_rules(facts, _Prefixed(rep, "R20.7"), D)
        rep.floor("poll_next typestate obligations", k, 12)
    # R20.8 the stream route of copy_file / move_file hands the destination's own handle to io::copy: a buffering wrapper
    # that is never flushed writes its tail in Drop, where a failure cannot be reported (shared with C11 R11.3)
    from ..pathrules import PathRules
    for w_ in (ws, wa):
        if not w_.present():
            continue
        scratch = Report("g")
        PathRules(facts, w_, D).generic_routes(scratch, "G")
        for o in scratch.obligations:
            d = o["key"].split("|")[2]
            if "stream copy" in d:
                rep.ob(("A/" if w_.asyncw else "") + "R20.8", o["fn"], d, o["ok"], o["detail"], o["loc"])
    # R20.11 read_to_string hands the handle to the std read-to-end routine and propagates its error: a hand-written chunk loop
    # (`while let Ok(n @ 1..) = file.read(..)`) takes a read error for the end of the file and returns a truncated string as success
    # (shared with C04 R04.5)
    from . import c04 as _c04r20
    from .c10 import _Prefixed as _Pf20r
    for w_ in (ws, wa):
        if w_.present():
            _c04r20.read_to_string_rules(facts, _Pf20r(rep, "A") if w_.asyncw else rep, w_, D, "R20.11/R04.5")
    # R20.9 the overlay serves reads from the resolved path and hands that call's result on unchanged: no "try the next layer
    # when this one fails" (a failing upper layer would be answered with a lower layer's stale bytes)
    from . import c04
    for w_ in (ws, wa):
        if w_.present():
            c04.overlay_read_delegation(facts, _PfxRep(rep, ("A/" if w_.asyncw else "") + "R20.9"), w_)
    rep.assume("`?` (Try::branch + from_residual) propagates; panicking consumers (unwrap/expect) are C13's concern")
    rep.assume("errors of pure path translation (join) are not underlying-filesystem failures")
