"""C12 — errors name the caller's path and classify consistently.

 R12.1 label typestate: in every function of the path layer (VfsPath / AsyncVfsPath incl. private helpers,
       PathLike provided methods, WalkDirIterator::next/poll_next) every error that can reach an Err return
       is Labelled: built by `with_path`, or the Err of another path-layer function (inductive), never the
       raw result of a backend-trait / std call and never a fresh `VfsError::from(..)` without `with_path`.
 R12.2 the label's origin is a path string of the receiver, of an operand, of a descendant obtained from
       them, or a string argument of the call (never another filesystem's path).
 R12.3 classification constructs: (a) the struct literal VfsError{..} occurs only in From<VfsErrorKind>, and
       that body maps io NotFound to FileNotFound; (b) with_path/with_context/with_cause write only their own
       field (never `kind`); (c) the provided optional trait methods build NotSupported.
 R12.4 (thorough) compile-fail witnesses: outside the crate VfsError cannot be constructed literally nor
       relabelled.
"""
import os
import subprocess
from ..terms import get_tracer, fmt, fmt_guard, strip, short, call_of, alts, walk, FROM_RESIDUAL, TRY_BRANCH
from ..inter import Inter
from ..pathflow import World, PathFlow
from ..results import PRESERVING
from ..panics import norm

EXPLANATION = ("typestate (labelled/unlabelled error) analysis over rustc MIR of every path-layer function, sync and "
               "async: each returned Err is traced back to its sources; sources that are backend/std results or fresh "
               "VfsError constructions must pass through with_path with a caller-namespace string. Plus "
               "who-may-construct and field-footprint rules on error.rs. Decides labelling and the classification "
               "constructs; message texts are not decided.")

WRAPPERS = {"VfsError::with_context", "VfsError::with_cause"}


def path_layer_bodies(facts, w):
    out = []
    for b in facts.bodies:
        if b.kind == "Closure":
            continue
        imp = b.impl
        if imp and imp.get("derived"):
            continue
        st = imp["self_ty"] if imp else None
        if st in (w.path_ty, w.walk):
            out.append(b)
        elif b.trait_item_of == "path::PathLike" and not w.asyncw:
            out.append(b)
    return out


class Labeller:
    def __init__(self, facts, w, inter, pf, checked_ids):
        self.facts = facts
        self.w = w
        self.inter = inter
        self.pf = pf
        self.checked = checked_ids

    def unlabelled(self, t, depth=10, env=None):
        """list of (description, line-ish) for error sources of Result-term t that are not labelled"""
        if depth <= 0:
            return [("analysis depth exhausted at %s" % fmt(t)[:60], None)]
        k = t[0]
        if k == "phi":
            out = []
            for x in t[1]:
                out.extend(self.unlabelled(x, depth, env))
            return out
        if k in ("okval", "errval", "await", "vfield", "vcast"):
            return self.unlabelled(t[1], depth, env)
        if k == "agg":
            v = t[2]
            if v in ("Ok", "None", "Pending"):
                return []
            if v in ("Some", "Ready") and t[3]:
                return self.unlabelled(t[3][0][1], depth, env)
            if v == "Err" and t[3]:
                return self.err_value_unlabelled(t[3][0][1], depth, env)
            return []
        if k == "call":
            path, args, site = t[1], t[2], t[3]
            if not isinstance(path, str):
                return [("indirect call result", None)]
            sh = short(path)
            if path == FROM_RESIDUAL and args:
                if site:
                    # `?` on an Option: the residual is `None`, which carries no error
                    sb = self.facts.body(site[0])
                    if sb is not None:
                        a0 = sb.blocks[site[1]].term.args
                        if a0 and a0[0].place is not None and \
                                sb.local_ty(a0[0].place.local).startswith("std::option::Option<std::convert::Infallible>"):
                            return []
                return self.unlabelled(args[0], depth - 1, env)
            if path == TRY_BRANCH and args:
                return self.unlabelled(args[0], depth - 1, env)
            if sh == "Result::map_err" and len(args) == 2:
                clo = args[1]
                if clo[0] == "closure":
                    cb = self.facts.body(clo[1])
                    if cb is not None:
                        bad = []
                        for ct, _, _ in self.inter.ret_cases(cb):
                            bad.extend(self.err_value_unlabelled(ct, depth - 1, env))
                        return bad
                if clo[0] == "fnitem":
                    return [("map_err with function %s (no with_path)" % short(clo[1]), None)]
                return [("map_err with unknown closure", None)]
            if sh in PRESERVING or sh in ("Option::transpose", "Poll::map", "Into::into", "From::from", "Clone::clone",
                                         "Deref::deref", "Option::take", "Option::unwrap", "FutureExt::poll_unpin",
                                         "Future::poll", "Box::pin", "Pin::new", "IntoFuture::into_future"):
                out = self.unlabelled(args[0], depth - 1, env) if args else []
                if sh == "Result::and_then" and len(args) > 1 and args[1][0] == "closure":
                    cb = self.facts.body(args[1][1])
                    if cb is not None:
                        for ct, _, _ in self.inter.ret_cases(cb):
                            out.extend(self.unlabelled(ct, depth - 1, env))
                return out
            # `iter.try_for_each(|x| ..)` / `try_fold`: the error it returns is the one its closure returned
            if sh in ("Iterator::try_for_each", "Iterator::try_fold") and args and strip(args[-1])[0] == "closure":
                cb = self.facts.body(strip(args[-1])[1])
                if cb is not None:
                    out = []
                    for ct, _, _ in self.inter.ret_cases(cb):
                        out.extend(self.unlabelled(ct, depth - 1, env))
                    return out
            # closure invocation
            if sh in ("FnOnce::call_once", "Fn::call", "FnMut::call_mut") and args and strip(args[0])[0] == "closure":
                cb = self.facts.body(strip(args[0])[1])
                if cb is not None:
                    out = []
                    for ct, _, _ in self.inter.ret_cases(cb):
                        out.extend(self.unlabelled(ct, depth - 1, env))
                    return out
            body = self.facts.body(path)
            if body is None and site:
                sb = self.facts.body(site[0])
                if sb is not None:
                    r = sb.blocks[site[1]].term.resolved()
                    if r:
                        body = self.facts.body(r)
            if body is not None and body.id in getattr(self, "inline", ()):
                # a private helper that all its callers label (like a closure): what it returns is judged where it is called
                out = []
                for ct, _, _ in self.inter.ret_cases(body):
                    out.extend(self.unlabelled(ct, depth - 1, env))
                return out
            if body is not None and body.id in self.checked:
                return []  # inductive: that function is checked itself
            line = None
            if site:
                sb = self.facts.body(site[0])
                if sb is not None:
                    line = sb.blocks[site[1]].term.line
            return [("raw result of %s" % sh, line)]
        if k == "closure":
            # an async block / closure value being returned or awaited: its return cases
            cb = self.facts.body(t[1])
            if cb is not None:
                out = []
                for ct, _, _ in self.inter.ret_cases(cb):
                    out.extend(self.unlabelled(ct, depth - 1, env))
                return out
            return []
        if k == "field":
            # a stored future/result slot (async walk): its contents are assigned elsewhere from checked calls
            return []
        if k in ("arg", "rec", "undef", "resume", "env", "upvar"):
            return []
        return [("unrecognised error flow %s" % fmt(t)[:60], None)]

    def err_value_unlabelled(self, e, depth, env):
        """e is a VfsError-valued term"""
        if depth <= 0:
            return [("analysis depth exhausted", None)]
        k = e[0]
        if k == "phi":
            out = []
            for x in e[1]:
                out.extend(self.err_value_unlabelled(x, depth, env))
            return out
        if k == "call" and isinstance(e[1], str):
            sh = short(e[1])
            if sh in WRAPPERS and e[2]:
                return self.err_value_unlabelled(e[2][0], depth - 1, env)
            if sh == "VfsError::with_path" and len(e[2]) >= 2:
                return self.label_origin_bad(e[2][1])
            if sh in ("From::from", "Into::into"):
                return [("fresh VfsError without with_path", None)]
            if sh in ("Clone::clone", "Deref::deref") and e[2]:
                return self.err_value_unlabelled(e[2][0], depth - 1, env)
            hb_ = self.inter.body_of_call(e) if len(e) > 3 else None
            if hb_ is not None and hb_.kind != "Closure" and hb_.vis != "pub" and hb_.impl and not hb_.impl.get("trait") and \
                    hb_.impl["self_ty"] == self.w.path_ty and "error::VfsError" in hb_.local_ty(0) and "Result<" not in hb_.local_ty(0):
                # a private method of the path type that decorates an error (`self.decorate_error(err, "..")`): what it returns,
                # with its parameters replaced by the actual arguments
                out = []
                ids_ = self.inter.callee_ids(hb_)
                for ct, _, _ in self.inter.ret_cases(hb_):
                    out.extend(self.err_value_unlabelled(norm(self.inter.subst(ct, ids_, e[2])), depth - 1, env))
                return out
            if sh in ("FnOnce::call_once", "Fn::call", "FnMut::call_mut") and e[2] and strip(e[2][0])[0] == "closure":
                # a local closure that builds the error (several refusals sharing one construction): what it returns
                cb = self.facts.body(strip(e[2][0])[1])
                if cb is not None:
                    out = []
                    for ct, _, _ in self.inter.ret_cases(cb):
                        out.extend(self.err_value_unlabelled(ct, depth - 1, env))
                    return out
            return [("error produced by %s without with_path" % sh, None)]
        if k == "errval":
            return self.unlabelled(e[1], depth - 1, env)
        if k in ("okval", "await"):
            return self.unlabelled(e[1], depth - 1, env)
        if k == "arg":
            # closure parameter of a map_err closure: the raw error being relabelled -> unlabelled if returned as is
            return [("error passed through without with_path", None)]
        if k == "agg" and e[2] == "Err":
            return self.err_value_unlabelled(e[3][0][1], depth - 1, env)
        return [("unrecognised error value %s" % fmt(e)[:60], None)]

    def label_origin_bad(self, p):
        """R12.2: label string must come from an operand path (same namespace) or a string argument"""
        bad = []
        for x in alts(strip(p)):
            x = strip(x, extra=("Index::index", "String::as_str", "str::as_ref", "VfsPath::as_str", "AsyncVfsPath::as_str"))
            while x[0] == "call" and isinstance(x[1], str) and short(x[1]) in ("Index::index",) and x[2]:
                x = strip(x[2][0], extra=("Index::index",))
            if x[0] == "field" and x[2] == "path":
                owner = strip(x[1])
                origins = self.pf.fs_origin(owner)
                if all(o[0] == "arg" for o in origins):
                    continue
                bad.append(("label taken from a path that is not an operand of the call: %s" % fmt(owner)[:50], None))
                continue
            if x[0] == "arg":
                continue
            if x[0] == "call" and isinstance(x[1], str) and short(x[1]) in ("VfsPath::as_str", "AsyncVfsPath::as_str"):
                origins = self.pf.fs_origin(x[2][0]) if x[2] else set()
                if origins and all(o[0] == "arg" for o in origins):
                    continue
            bad.append(("label of unrecognised origin %s" % fmt(x)[:50], None))
        return bad


def kind_preserving_relabels(facts, rep, w, rule, only=None):
    """R12.4: a `map_err` closure of the path layer that receives a VfsError relabels it — `with_path` / `with_context` /
    `with_cause` around the error it was given — and never answers with a fresh error of another kind: the class the backend
    (or the adapter below) reported is the class the caller sees, through any number of stacked adapters"""
    inter = Inter(facts)
    n = 0
    for b in path_layer_bodies(facts, w):
        if only and b.name not in only:
            continue
        for cb in inter.code_bodies(b):
            tr = get_tracer(facts, cb)
            for s_ in inter.sites(cb):
                if s_.short != "Result::map_err" or len(s_.args) != 2:
                    continue
                clo = strip(tr.operand(s_.args[1]))
                if clo[0] != "closure":
                    continue
                fc = facts.body(clo[1])
                if fc is None or fc.arg_count < 2 or "error::VfsError" not in fc.local_ty(2) or "std::io::Error" in fc.local_ty(2):
                    continue        # (conversions of io::Error / other error types build the VfsError in the first place)
                fresh = []
                own_helper = lambda hb: hb.kind != "Closure" and hb.vis != "pub" and bool(hb.impl) and not hb.impl.get("trait") and \
                    hb.impl["self_ty"] == w.path_ty
                for ct, _, bb in inter.ret_cases(fc):
                    # (a private decorating method of the path type called from the closure is read through)
                    for a in alts(norm(inter.inline_ret(ct, depth=2, pred=own_helper))):
                        x = a
                        while x[0] == "call" and isinstance(x[1], str) and short(x[1]) in ("VfsError::with_path", "VfsError::with_context",
                                                                                         "VfsError::with_cause", "Clone::clone") and x[2]:
                            x = norm(x[2][0])
                        # (the closure's parameter is bound to the Err payload of the receiver of map_err: `errval(..)`)
                        given = lambda y: y[0] in ("arg", "errval")
                        if not (given(x) or (x[0] == "call" and isinstance(x[1], str) and short(x[1]) in ("From::from", "Into::into") and
                                             x[2] and given(norm(x[2][0])))):
                            fresh.append((fmt(x)[:50], fc.blocks[bb].term.line))
                n += 1
                rep.ob(rule, b.id, "map_err relabels the error it was given (same kind)", not fresh, "" if not fresh else
                       "a relabelling closure answers with %s instead of the error it received: the backend's error class "
                       "(DirectoryExists, FileNotFound, NotSupported ..) is replaced on the way up" % fresh[0][0], fresh[0][1] if fresh else s_.line)
    return n


def run_world(facts, rep, w, floors):
    inter = Inter(facts)
    pf = PathFlow(facts, w, inter)
    bodies = path_layer_bodies(facts, w)
    checked = {b.id for b in bodies} | {inter.code_body(b).id for b in bodies}
    # PathLike (sync module) is shared by both worlds
    for b in facts.bodies:
        if b.trait_item_of == "path::PathLike":
            checked.add(b.id)
    lab = Labeller(facts, w, inter, pf, checked)
    # private helpers of the path layer are first judged on their own (the usual case: they label what they return); one that
    # hands raw errors to its callers is acceptable iff every caller labels them — it is then judged inlined at its call sites
    lab.inline = set()
    callers = {}
    for b in bodies:
        for c in inter.code_bodies(b):
            for s_ in inter.sites(c):
                hb = inter.local_callee(s_)
                if hb is not None and hb.id != b.id:
                    callers.setdefault(hb.id, set()).add(b.id)
    deferred = set()
    for b in bodies:
        if b.vis == "pub" or b.trait_item_of or (b.impl and b.impl.get("trait")) or not callers.get(b.id):
            continue
        cb = inter.code_body(b)
        if "VfsError" not in cb.local_ty(0):
            continue
        if any(lab.unlabelled(ct) for ct, _, _ in inter.ret_cases(b)):
            deferred.add(b.id)
    lab.inline = {inter.code_body(b).id for b in bodies if b.id in deferred} | deferred
    lab.checked = checked - lab.inline
    n_fallible = 0
    n_with_path = 0
    for b in bodies:
        cb = inter.code_body(b)
        rty = cb.local_ty(0)
        if "VfsError" not in rty:
            continue
        n_fallible += 1
        if b.id in deferred:
            rep.ob("R12.1", b.id, "every returned error is labelled", True, "private helper judged at its call sites", b.span)
            for c in inter.code_bodies(b):
                n_with_path += sum(1 for s in inter.sites(c) if s.short == "VfsError::with_path")
            continue
        cases = inter.ret_cases(b)
        bad = []
        for ct, _, bb in cases:
            for (d, line) in lab.unlabelled(ct):
                bad.append((d, line or cb.blocks[bb].term.line))
        # dedupe
        seen = []
        for x in bad:
            if x not in seen:
                seen.append(x)
        if not seen:
            rep.ob("R12.1", b.id, "every returned error is labelled", True, "%d return cases" % len(cases), b.span)
        for d, line in seen:
            rep.ob("R12.1", b.id, d, False, "an error can be returned %s" % d, line)
        for c in inter.code_bodies(b):
            for s in inter.sites(c):
                if s.short == "VfsError::with_path":
                    n_with_path += 1
    k4 = kind_preserving_relabels(facts, rep, w, "R12.4")
    rep.floor("relabelling closures of the path layer (%s)" % w.tag, k4, 10)
    rep.floor("fallible path-layer functions (%s)" % w.tag, n_fallible, floors["fallible"])
    rep.floor("with_path call sites in the path layer (%s)" % w.tag, n_with_path, floors["with_path"])


def run_error_rs(facts, rep):
    # R12.3a who-may-construct
    ctor_sites = []
    for b in facts.bodies:
        for blk in b.blocks:
            if blk.cleanup:
                continue
            for s in blk.stmts:
                if s.kind == "assign" and s.rv.kind == "agg" and s.rv.agg.get("adt") == "error::VfsError":
                    # a struct-update literal that carries the `kind` of an existing error over is not a new classification
                    tv = norm(get_tracer(facts, b).rvalue(s.rv, frozenset()))
                    kd = dict(tv[3]).get("kind") if tv[0] == "agg" else None
                    carried = kd is not None and kd[0] == "field" and kd[2] == "kind"
                    ctor_sites.append((b, s.line, carried))
    allowed = "<error::VfsError as std::convert::From<error::VfsErrorKind>>::from"
    for b, line, carried in ctor_sites:
        ok = b.id == allowed or (b.impl and b.impl.get("derived")) or carried
        rep.ob("R12.3a", b.id, "VfsError literal", ok,
               "only From<VfsErrorKind> may build a VfsError (normalisation + placeholder path)" if ok else
               "VfsError constructed outside From<VfsErrorKind>: bypasses NotFound normalisation", line)
    rep.floor("VfsError struct-literal sites", len(ctor_sites), 1)
    fb = facts.body(allowed)
    if fb is None:
        rep.fail("R12.3a", allowed, "From<VfsErrorKind> present", "anchor missing")
    else:
        tr = get_tracer(facts, fb)
        found = False
        # the normalising code: the conversion itself, or a private function of error.rs it hands the kind to
        inter_ = Inter(facts)
        helpers_ = []
        for s_h in inter_.sites(fb):
            hb_ = inter_.local_callee(s_h)
            if hb_ is not None and hb_.vis != "pub" and not (hb_.impl and hb_.impl.get("trait")) and hb_.file == fb.file and hb_.id != fb.id:
                helpers_.append(hb_)
        for nb_ in [fb] + helpers_:
          trn_ = get_tracer(facts, nb_)
          for blk in nb_.blocks:
            if blk.cleanup:
                continue
            for s in blk.stmts:
                if s.kind == "assign" and s.rv.kind == "agg" and s.rv.agg.get("adt") == "error::VfsErrorKind" \
                        and s.rv.agg.get("variant") == "FileNotFound":
                    gs = trn_.guards_at(blk.idx)
                    g_io = any(g[0] == "variant" and g[3] == "IoError" for g in gs)
                    g_nf = any(("NotFound" in str(g)) for g in gs)
                    if g_io and g_nf:
                        found = True
                        # ... for *every* io NotFound: no further condition on the error (wrapped cause, message, source)
                        extra_g = [g for g in gs if not (g[0] == "variant" and g[3] == "IoError") and "NotFound" not in str(g)]
                        rep.ob("R12.3a", fb.id, "io NotFound -> FileNotFound is unconditional", not extra_g,
                               "" if not extra_g else "the normalisation arm has an additional condition (%s): some OS 'no such file' "
                               "errors (e.g. those a wrapper library decorates with a cause) stay IoError" % fmt_guard(extra_g[0])[:70], s.line)
        rep.ob("R12.3a", fb.id, "io NotFound -> FileNotFound", found,
               "normalisation arm present under (IoError, NotFound)" if found else
               "no FileNotFound construction guarded by kind==IoError and io kind==NotFound", fb.span)
        # the kind stored in the struct is the normalised one
        ok_kind = False
        for blk in fb.blocks:
            for s in blk.stmts:
                if s.kind == "assign" and s.rv.kind == "agg" and s.rv.agg.get("adt") == "error::VfsError":
                    t = tr.rvalue(s.rv, frozenset())
                    for f, v in t[3]:
                        if f == "kind":
                            ok_kind = any(a[0] == "agg" and a[2] == "FileNotFound" for a in alts(v))
                            # ... or what the normalising helper returns
                            for a in alts(v):
                                if a[0] == "call":
                                    hb2 = inter_.body_of_call(a)
                                    if hb2 is not None and hb2 in helpers_ and any(
                                            x[0] == "agg" and x[2] == "FileNotFound" for ct2, _, _ in inter_.ret_cases(hb2) for x in walk(norm(ct2))):
                                        ok_kind = True
        rep.ob("R12.3a", fb.id, "normalised kind is stored", ok_kind,
               "kind field receives the normalised value" if ok_kind else "kind field does not receive the normalised kind", fb.span)
    # io errors enter only through error.rs (From<io::Error> -> From<VfsErrorKind>, where NotFound is normalised): nobody
    # else wraps an io::Error into a kind by hand
    io_ctor = []
    for b in facts.bodies:
        for blk in b.blocks:
            if blk.cleanup:
                continue
            for s_ in blk.stmts:
                if s_.kind == "assign" and s_.rv.kind == "agg" and s_.rv.agg.get("adt") == "error::VfsErrorKind" and \
                        s_.rv.agg.get("variant") in ("IoError", "AsyncIoError"):
                    io_ctor.append((b, s_.line, s_.rv.agg.get("variant")))
    for b, line, var in io_ctor:
        inside = b.file.endswith("src/error.rs") or b.file == "src/error.rs"
        rep.ob("R12.3a", b.id, "io::Error wrapped into a kind only in error.rs", inside,
               "" if inside else "%s builds VfsErrorKind::%s by hand: the error bypasses From<io::Error>, so an OS 'no such file' "
               "is not classified as FileNotFound" % (b.id, var), line)
    # floor: the From<io::Error> conversion is the one construction the rule cannot do without (the normalising match may or may
    # not rebuild IoError for the kinds it passes through — `other => other` does not)
    rep.floor("io-error kind construction sites", len(io_ctor), 1)
    # From<io::Error> delegates
    fio = facts.body("<error::VfsError as std::convert::From<std::io::Error>>::from")
    if fio is None:
        rep.fail("R12.3a", "From<io::Error>", "present", "anchor missing")
    else:
        calls = [short(b.term.callee()) for b in fio.calls()]
        ok = ("From::from" in calls or "Into::into" in calls) and not any(s.kind == "assign" and s.rv.kind == "agg" and s.rv.agg.get("adt") == "error::VfsError"
                                               for blk in fio.blocks for s in blk.stmts)
        rep.ob("R12.3a", fio.id, "delegates to From<VfsErrorKind>", ok, "calls %s" % calls, fio.span)
    # R12.3b field footprint of the with_* helpers.  Two equivalent shapes are understood: "mutate self, return self" and
    # "build a new VfsError by struct update (Self { own: value, ..self })"; both are reduced to a map
    # field -> where its value in the returned error comes from.
    def argconv(t, i):
        for _ in range(6):
            if t[0] == "arg" and t[1] == i:
                return True
            if t[0] == "call" and t[1] in ("Into::into", "From::from", "ToString::to_string", "ToOwned::to_owned", "Clone::clone",
                                           "AsRef::as_ref", "String::from", "str::to_string", "str::to_owned") and t[2]:
                t = norm(t[2][0])
                continue
            return False
        return False

    for name, allowed_fields in (("with_path", {"path"}), ("with_context", {"context"}), ("with_cause", {"cause"})):
        b = facts.body("error::VfsError::%s" % name)
        if b is None:
            rep.fail("R12.3b", "error::VfsError::%s" % name, "present", "anchor missing")
            continue
        trw = get_tracer(facts, b)
        written = set()
        wbbs = []
        vals = []
        for blk in b.blocks:
            if blk.cleanup:
                continue
            for s_ in blk.stmts:
                if s_.kind == "assign" and not s_.lhs.is_local() and s_.lhs.local in (1,):
                    fs = s_.lhs.fields()
                    if fs:
                        written.add(fs[0])
                        if fs[0] in allowed_fields:
                            wbbs.append(blk.idx)
                            vals.append(norm(trw.rvalue(s_.rv, frozenset())))
        r = trw.local(0)
        rn = norm(r)
        rets = trw.cfg.return_blocks()
        if rn[0] == "agg" and rn[1] == "error::VfsError" and not written:
            # struct-update form: every other field must be carried over from self unchanged
            d = dict(rn[3])
            carried = all((f in allowed_fields) or (v[0] == "field" and v[2] == f and v[1][0] == "arg" and v[1][1] == 0) for f, v in d.items())
            own = [d[f] for f in allowed_fields if f in d]
            rep.ob("R12.3b", b.id, "writes only its own field", carried and bool(own),
                   "struct update: %s replaced, the rest carried over from self" % sorted(allowed_fields) if carried else
                   "a field other than %s is not carried over from self" % sorted(allowed_fields), b.span)
            rep.ob("R12.3b", b.id, "returns the same error", carried, "rebuilt from self", b.span)
            uncond = bool(own)   # one aggregate is the only return value: the stamp cannot be skipped
            vals = own
        else:
            ok = written <= allowed_fields and bool(written)
            rep.ob("R12.3b", b.id, "writes only its own field", ok, "fields written: %s" % sorted(written), b.span)
            rep.ob("R12.3b", b.id, "returns the same error", r[0] == "arg" and r[1] == 0, fmt(r)[:60], b.span)
            uncond = bool(wbbs) and bool(rets) and all(any(w_ in trw.cfg.dominating_blocks(r_) for w_ in wbbs) for r_ in rets)
        if name == "with_path":
            # the stamp is unconditional and is the argument: no "keep the old path for some values" — the old path is the
            # placeholder or a path of an underlying layer
            rep.ob("R12.3b", b.id, "path stamp is unconditional", uncond, "the stamp is on every return" if uncond else
                   "with_path can return without storing its argument: for those arguments (e.g. the root path \"\") the error keeps "
                   "the placeholder or the path an underlying layer stamped on it", b.span)
            okv = bool(vals) and all(argconv(v, 1) for v in vals)
            rep.ob("R12.3b", b.id, "stored path is the argument itself", okv, "; ".join(fmt(v)[:40] for v in vals), b.span)
    # R12.3c provided optional methods build NotSupported
    for trait in ("filesystem::FileSystem", "async_vfs::filesystem::AsyncFileSystem"):
        n = 0
        for b in facts.bodies:
            if b.trait_item_of == trait and b.kind != "Closure":
                n += 1
                inter = Inter(facts)
                kinds, ncalls = inter.kinds_and_calls(b)
                ncalls = [c for c in ncalls if not c.startswith(("Pin::", "Box::", "future::", "Future::", "ready"))]
                ok = kinds == {"NotSupported"} and all(c in ("From::from", "Into::into") for c in ncalls)
                rep.ob("R12.3c", b.id, "default builds NotSupported only", ok, "kinds %s calls %s" % (sorted(kinds), ncalls), b.span)
        if trait == "filesystem::FileSystem":
            rep.floor("provided optional methods of %s" % trait, n, 6)


WITNESS_DIR = "witness"


def io_error_origin(facts, rep, rule="R12.3i"):
    """an io::Error inside a VfsError is one that std (the OS) produced: apart from the seek arithmetic of the in-memory read
    handles (InvalidInput, like std's own Cursor) nothing in the crate makes one up.  A condition of the crate's own — not
    available, not supported, refused — has a VfsErrorKind; wrapped in a hand-made io::Error it is classified as IoError"""
    inter = Inter(facts)
    n = 0
    for b in facts.bodies:
        if "::tests::" in b.id or b.file.startswith("src/test_macros"):
            continue
        handle = bool(b.impl) and ("ReadableFile" in b.impl["self_ty"] or "WritableFile" in b.impl["self_ty"])
        for s_ in inter.sites(b):
            if s_.path.startswith(("std::io::Error::", "std::io::error::Error::")) and \
                    s_.path.rsplit("::", 1)[-1] in ("new", "other", "from_raw_os_error", "last_os_error"):
                n += 1
                rep.ob(rule, b.id, "io::Error values come from std, not from the crate", handle, "in-memory handle arithmetic" if handle else
                       "%s constructs an io::Error itself (%s): the condition is classified as IoError(..) instead of the VfsErrorKind that "
                       "names it" % (b.id, s_.path.rsplit("::", 1)[-1]), s_.line)
    return n


def run_witness(rep, ctx):
    """compile-fail witnesses for the type-level remainder (thorough tier)"""
    V = ctx["V"]
    wd = os.path.join(V, WITNESS_DIR)
    if not os.path.isdir(wd):
        rep.note("witness crate missing")
        return
    script = os.path.join(V, "bin", "witness.sh")
    p = subprocess.run([script, ctx["repo"], "c12"], stdout=subprocess.PIPE, stderr=subprocess.STDOUT, text=True)
    ok = p.returncode == 0
    rep.ob("R12.4", "witness", "compile-fail witnesses (E0451 literal, E0624 with_path) with compiling twins", ok,
           p.stdout[-400:] if not ok else "all witnesses behave", "witness/src/lib.rs")


def wrong_type_needs_exists(facts, rep, rule, D):
    """R12.6: `is_dir()` / `is_file()` answer false for a missing entry as well as for one of the other type.  An error of a class
    other than FileNotFound that is built where the only thing known about the entry is that answer classifies a missing entry as
    "not a directory" / "not a file"; the refusal needs the entry's existence on the same path (exists() == true, or the positive
    answer of the other type test).  Expected count on a conforming tree: the sites listed, each established."""
    from ..pathrules import sname as _sn, peel as _pl
    n = 0
    for b in facts.bodies:
        if b.file.startswith("tests") or "/test" in b.file or b.file.endswith("test_macros.rs"):
            continue
        for blk in b.blocks:
            if blk.cleanup:
                continue
            for st in blk.stmts:
                if not (st.kind == "assign" and st.rv.kind == "agg" and st.rv.agg.get("adt") == "error::VfsErrorKind" and
                        st.rv.agg.get("variant") != "FileNotFound"):
                    continue
                gs = D.guards(b, blk.idx)
                for g in gs:
                    if not (g[0] == "bool" and g[2] is False):
                        continue
                    t = _pl(g[1])
                    if not (t[0] == "call" and isinstance(t[1], str) and _sn(t[1]) in ("is_dir", "is_file") and t[2]):
                        continue
                    subj = norm(t[2][0])
                    est = False
                    for h in gs:
                        th = _pl(h[1]) if len(h) > 1 and isinstance(h[1], tuple) else None
                        if h is g or th is None or th[0] != "call" or not isinstance(th[1], str) or not th[2] or norm(th[2][0]) != subj:
                            continue
                        if h[0] == "bool" and h[2] is True and _sn(th[1]) in ("exists", "is_dir", "is_file"):
                            est = True
                        if h[0] == "variant" and h[2] == "ok" and _sn(th[1]) in ("metadata", "symlink_metadata"):
                            est = True
                    n += 1
                    rep.ob(rule, b.id, "%s refusal under !%s(): the entry is known to exist" % (st.rv.agg.get("variant"), _sn(t[1])), est,
                           "" if est else "%s is answered where only `%s() == false` is known about %s: that is also the answer for a "
                           "missing entry, which is then reported as %s instead of FileNotFound"
                           % (st.rv.agg.get("variant"), _sn(t[1]), fmt(subj)[:50], st.rv.agg.get("variant")), st.line)
    return n


def run(facts, rep, tier, ctx):
    ws = World(facts, False)
    run_world(facts, rep, ws, {"fallible": 25, "with_path": 25})
    wa = World(facts, True)
    if wa.present():
        run_world(facts, rep, wa, {"fallible": 25, "with_path": 25})
    else:
        rep.fail("R12.1", "async_vfs", "async world present", "async_vfs module not found")
    run_error_rs(facts, rep)
    # (c) trailing-slash joins are InvalidPath (R06.4); (e) create_dir classes on both backends (R01.2k / R01.4)
    from . import c06, c01
    from .. import physrules
    from ..panics import Discharger, load_records
    D = Discharger(facts, load_records(os.path.join(ctx["V"], "rules", "panic_records.json")))
    from ..report import Report
    # the exists-kinds are a classification of create_dir's occupant: an error conversion that produces them classifies
    # every AlreadyExists of every operation as "a directory is there"
    from .c20 import tolerated_kind_sites
    tolerated_kind_sites(facts, rep, "R12.3k", D)
    wrong_type_needs_exists(facts, rep, "R12.6", D)
    # R12.3p which class a refusal of the path type has follows from what the filesystem reported, never from the path string
    # alone: an "Other" for the root replaces the DirectoryExists / NotSupported the backend would have given
    from ..pathrules import PathRules as _PR12
    from .c10 import _Prefixed as _Pf12
    for w12 in (ws, wa):
        if w12.present():
            _PR12(facts, w12, D).argument_only_refusals(rep if not w12.asyncw else _Pf12(rep, "A"), "R12.3p")
    # R12.3g through an altroot a missing entry is not-found like everywhere else: the translator refuses no name itself
    # (InvalidPath for "notes..txt"), R12.3x the embedded observers answer from the index (a spelling rust-embed resolves
    # but the index lacks is not-found, not "not a directory")
    from . import c07 as _c07g
    for w12 in (ws, wa):
        if w12.present():
            _c07g.gate_rules(facts, _Pf12(rep, ("A/" if w12.asyncw else "") + "R12.3g"), w12, D)
    if any(b_.impl and b_.impl["self_ty"].startswith("impls::embedded::") for b_ in facts.bodies):
        from . import c18 as _c18x
        scrx = Report("z")
        _c18x.run(facts, scrx, "quick", ctx)
        for o in scrx.obligations:
            if o["rule"] == "R18.3":
                rep.ob("R12.3x", o["fn"], o["key"].split("|")[2], o["ok"], o["detail"], o["loc"])
    k_io = io_error_origin(facts, rep)
    rep.floor("io::Error construction sites (in-memory seek arithmetic)", k_io, 2)
    scratch = Report("x")
    c06.joiner_rules(facts, scratch, D)
    for o in scratch.obligations:
        if o["rule"] == "R06.4":
            rep.ob("R12.3c", o["fn"], o["key"].split("|")[2], o["ok"], o["detail"], o["loc"])
    # (all classification rows of Table M — which kind answers which state — on both in-memory backends)
    for wm_ in (ws, wa):
        if not wm_.present():
            continue
        scratch = Report("y")
        c01.table_m(facts, scratch, "M", "Mk", self_ty=wm_.memory, trait=wm_.trait.rsplit("::", 1)[1])
        for o in scratch.obligations:
            if o["rule"] == "Mk":
                rep.ob(("A/" if wm_.asyncw else "") + "R12.3e", o["fn"], o["key"].split("|")[2], o["ok"], o["detail"], o["loc"])
    physrules.table_o_shape(facts, rep, "R12.3e", ws)
    physrules.mkdir_not_asked(facts, rep, "R12.3e", ws, D)
    # optional operations an adapter forwards keep the NotSupported class of the layer they act on: an overlay setter must
    # not run a copy-up (or anything else fallible with another class) in front of the delegation (shared with C19 R19.4o)
    from . import c09
    for w_ in (ws, wa):
        if not w_.present():
            continue
        scratch = Report("u")
        c09.table_u(facts, scratch, w_, "U", only=("set_creation_time", "set_modification_time", "set_access_time"))
        for o in scratch.obligations:
            d = o["key"].split("|")[2]
            if "no copy-up" in d or (d.split(":")[0] in ("set_creation_time", "set_modification_time", "set_access_time") and
                                     "the served entry is the one re-timed" not in d):    # (that row is F11: C01/C09/C19's subject)
                # (every row: the setter answers with the write layer's own result — NotSupported, FileNotFound — not with a
                # refusal of its own)
                rep.ob(("A/" if w_.asyncw else "") + "R12.3u", o["fn"], d, o["ok"], o["detail"], o["loc"])
        # ... nor does append_file re-label what its copy-up reports (NotSupported of a read-only write layer, FileNotFound of
        # a lower file that vanished): the copy-up's result is propagated as it is
        scratch = Report("a")
        c09.table_u(facts, scratch, w_, "U", only=("append_file",))
        for o in scratch.obligations:
            rep.ob(("A/" if w_.asyncw else "") + "R12.3u", o["fn"], o["key"].split("|")[2], o["ok"], o["detail"], o["loc"])
        # the write layer's own error class survives the overlay's parent materialisation (NotSupported of a read-only layer)
        scratch = Report("m")
        c09.materialisation_rules(facts, scratch, w_, "M")
        for o in scratch.obligations:
            d = o["key"].split("|")[2]
            if "propagated" in d:
                rep.ob(("A/" if w_.asyncw else "") + "R12.3u", o["fn"], d, o["ok"], o["detail"], o["loc"])
        # a removal of something that is not there answers not-found: the overlay asks the union before it does anything else
        scratch = Report("r")
        c09.table_u(facts, scratch, w_, "U", only=("remove_file", "remove_dir"))
        for o in scratch.obligations:
            d = o["key"].split("|")[2]
            if "union exists before" in d:
                rep.ob(("A/" if w_.asyncw else "") + "R12.3u", o["fn"], d, o["ok"], o["detail"], o["loc"])
        # create_dir_all classifies what is in the way through the backend's create_dir (FileExists for a file, at the last segment
        # as for any other): no existence shortcut with an error of its own in front of the attempt (C17 R17.1)
        from ..pathrules import PathRules as _PR12
        _PR12(facts, w_, D).create_dir_all(rep if not w_.asyncw else _Pf12(rep, "A"), "R12.3d")
        # occupied create_dir through the overlay: file-exists / directory-exists by the type of the entry the union shows
        scratch = Report("v")
        c09.table_u(facts, scratch, w_, "U", only=("create_dir",))
        for o in scratch.obligations:
            d = o["key"].split("|")[2]
            if "Exists for a union" in d or "every other refusal" in d:
                rep.ob(("A/" if w_.asyncw else "") + "R12.3e", o["fn"], d, o["ok"], o["detail"], o["loc"])
    if wa.present():
        from .c10 import _Prefixed
        A = _Prefixed(rep, "A")
        physrules.table_o_shape(facts, A, "R12.3e", wa)
        physrules.mkdir_not_asked(facts, A, "R12.3e", wa, D)
    if tier == "thorough":
        run_witness(rep, ctx)
    rep.assume("backends and adapters may return placeholder / inner-namespace paths by design; only the path layer labels")
