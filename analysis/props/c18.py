"""C18 — EmbeddedFS is a faithful read-only view (structural clauses).

 R18.1 mutators refuse: create_dir, create_file, append_file, remove_file, remove_dir are single-exit bodies
       returning Err(NotSupported) with no other call; the optional mutators are not overridden.
 R18.2 nothing can change: no field type of EmbeddedFS<T> (transitively, through std containers) is an
       interior-mutability wrapper; the module has no `static mut`/thread_local; every FileSystem method takes
       &self (trait signature).
 R18.3 root is ordinary / lookups agree: every method that consumes the path normalises it through the one
       guarded step; FileNotFound is built only on a lookup-miss edge of the maps / of T::get; exists, metadata
       and read_dir consult the same two maps with the normalised key, files before directories.
 R18.4 lengths: files report the stored length, directories 0 (R04.3).
 R18.5 construction: every ancestor of every file is registered — the ancestor loop has no exit other than
       "no further separator", the root entry receives the fully reduced path, and both arms of the splitting
       helper split at the LAST separator (sibling agreement).
 Not decided (not applicable to this family): that the two maps equal the embedded folder and that bytes equal
 the files on disk — build-time data produced by the rust-embed derive.
"""
import os
from ..terms import get_tracer, short, walk, fmt, strip
from ..inter import Inter
from ..panics import Discharger, load_records, norm
from ..pathrules import sname, peel
from . import c13

EXPLANATION = ("body-shape, type-structure and guard analysis over rustc MIR of impls/embedded.rs: refusing mutators, "
               "absence of interior mutability, one normalisation step, not-found only on lookup misses, agreement of "
               "the observers on keys and order, and the shape of the index construction in new(). Agreement with the "
               "folder on disk depends on build-time data and is not decided.")

TY = "impls::embedded::EmbeddedFS<T>"
INTERIOR = ("UnsafeCell", "Cell<", "RefCell", "Mutex", "RwLock", "Atomic", "OnceCell", "OnceLock", "LazyLock", "LazyCell")


def ops(facts):
    out = {}
    for b in facts.bodies:
        if b.kind != "Closure" and b.impl and b.impl["self_ty"] == TY and b.impl["trait"] and b.impl["trait"].endswith("FileSystem"):
            out[b.name] = b
    return out


def run(facts, rep, tier, ctx):
    D = Discharger(facts, load_records(os.path.join(ctx["V"], "rules", "panic_records.json")))
    inter = D.inter
    o = ops(facts)
    if not o:
        rep.fail("R18.1", TY, "EmbeddedFS present", "impl FileSystem for EmbeddedFS<T> not found in the all-features build")
        return
    # ---- R18.1
    n = 0
    for m in ("create_dir", "create_file", "append_file", "remove_file", "remove_dir"):
        b = o.get(m)
        if b is None:
            rep.fail("R18.1", TY, "%s implemented" % m, "missing")
            continue
        kinds = set()
        calls = []
        for cb in inter.code_bodies(b):
            for blk in cb.blocks:
                if blk.cleanup:
                    continue
                for st in blk.stmts:
                    if st.kind == "assign" and st.rv.kind == "agg" and st.rv.agg.get("adt") == "error::VfsErrorKind":
                        kinds.add(st.rv.agg["variant"])
                if blk.term.kind == "call":
                    calls.append(short(blk.term.callee() or "?"))
        cases = inter.ret_cases(b)
        all_err = bool(cases) and all(inter.case_polarity(ct) == "err" for ct, _, _ in cases)
        ok = kinds == {"NotSupported"} and all(c in ("Into::into", "From::from") for c in calls) and all_err
        n += 1
        rep.ob("R18.1", b.id, "%s only returns Err(NotSupported)" % m, ok, "" if ok else
               "the mutator builds %s, calls %s, all-returns-Err=%s: a mutating call can report something other than "
               "not-supported" % (sorted(kinds), calls, all_err), b.span)
    for m in ("set_creation_time", "set_modification_time", "set_access_time", "copy_file", "move_file", "move_dir"):
        n += 1
        rep.ob("R18.1", TY, "%s not overridden" % m, m not in o, "", "")
    # the setters EmbeddedFS does not override fall to the trait's provided methods: those answer NotSupported and nothing else
    # (shared with C12 R12.3c)
    for b2 in facts.bodies:
        if b2.trait_item_of == "filesystem::FileSystem" and b2.kind != "Closure" and b2.name not in o:
            kinds2, calls2 = inter.kinds_and_calls(b2)
            okd = kinds2 == {"NotSupported"} and all(c in ("From::from", "Into::into") for c in calls2)
            n += 1
            rep.ob("R18.1", b2.id, "inherited default of %s only answers NotSupported" % b2.name, okd, "" if okd else
                   "the provided method %s (inherited by EmbeddedFS) builds %s / calls %s: a mutating call on the read-only embedded "
                   "filesystem is not refused as not-supported" % (b2.name, sorted(kinds2), calls2[:3]), b2.span)
    # create_dir_all on the read-only view: the composite tolerates exactly DirectoryExists from create_dir, so NotSupported
    # comes through (shared with C17 R17.1 / C20)
    from ..pathflow import World as _W
    from ..pathrules import PathRules as _PR
    from ..report import Report as _R
    scr = _R("c")
    _PR(facts, _W(facts, False), D).create_dir_all(scr, "C")
    for ob_ in scr.obligations:
        d_ = ob_["key"].split("|")[2]
        if "tolerates exactly" in d_ or "tolerated unconditionally" in d_:
            n += 1
            rep.ob("R18.1", ob_["fn"], d_, ob_["ok"], ob_["detail"], ob_["loc"])
    # ... and every other mutating path operation answers Ok only after a mutating backend call succeeded: on the read-only
    # view there is none, so no argument combination (same source and destination, root, empty name) is "a no-op that worked"
    scr2 = _R("c2")
    _PR(facts, _W(facts, False), D).ok_needs_effect(scr2, "C")
    for ob_ in scr2.obligations:
        n += 1
        rep.ob("R18.1", ob_["fn"], ob_["key"].split("|")[2], ob_["ok"], ob_["detail"], ob_["loc"])
    scr3 = _R("c3")
    _PR(facts, _W(facts, False), D).table_p(scr3, "P")
    for ob_ in scr3.obligations:
        d3 = ob_["key"].split("|")[2]
        # (and the root is refused like every other directory: by the backend, as not-supported — not by the path type)
        if d3.startswith("remove_dir_all") or "is answered because of the filesystem's state" in d3 or "refuses nothing but an existing destination" in d3:
            n += 1
            rep.ob("R18.1", ob_["fn"], d3, ob_["ok"], ob_["detail"], ob_["loc"])
    # ... and the composite moves do not turn the backend's refusal into success: the only error kind they swallow is the
    # NotSupported of an absent fast path (C20's escape table on the path layer, shared with C11 R11.2e)
    from . import c20 as _c20
    scr4 = _R("c4")
    _c20.run_world(facts, scr4, _W(facts, False), {"results": 0, "err_edges": 0, "kind_arms": 0})
    for ob_ in scr4.obligations:
        if ob_["rule"] in ("R20.2", "R20.4") and ob_["fn"].startswith("path::VfsPath"):
            n += 1
            rep.ob("R18.1e", ob_["fn"], ob_["key"].split("|")[2], ob_["ok"], ob_["detail"], ob_["loc"])
    # ... copy_dir / move_dir create their destination directory before anything else (whatever the source holds): copying an
    # *empty* directory onto the read-only view is refused like any other copy, not "done" because nothing had to be created
    scr5 = _R("c5")
    _PR(facts, _W(facts, False), D).generic_routes(scr5, "G")
    for ob_ in scr5.obligations:
        d5 = ob_["key"].split("|")[2]
        if d5.split(":")[0] in ("copy_dir", "move_dir"):
            n += 1
            rep.ob("R18.1g", ob_["fn"], d5, ob_["ok"], ob_["detail"], ob_["loc"])
    # bytes equal those of the folder: read_to_string takes what the handle yields up to its end (the embedded index records a
    # length at construction; in debug builds the data is read from disk at each call — a read bounded by the recorded length
    # truncates a file that has grown since), C04 R04.5
    from . import c04 as _c04r
    _c04r.read_to_string_rules(facts, rep, _W(facts, False), D, "R18.6r")
    # walks equal those of a physical filesystem on the same folder: the walk descends into every directory it is given
    from . import c05 as _c05w
    _c05w.walk_rules(facts, _c05w._P5(rep, "R18.6w"), _W(facts, False), D)
    rep.floor("mutator obligations", n, 11)
    # ---- R18.2
    adt = facts.adts.get("impls::embedded::EmbeddedFS")
    bad = []
    if adt is None:
        rep.fail("R18.2", TY, "struct found", "missing")
    else:
        for v in adt["variants"]:
            for f in v["fields"]:
                if any(x in f["ty"] for x in INTERIOR):
                    bad.append("%s: %s" % (f["name"], f["ty"]))
        rep.ob("R18.2", TY, "no interior mutability in any field type", not bad, "; ".join(bad) if bad else
               "%d fields, none contains Cell/RefCell/Mutex/RwLock/Atomic*/Once*" % sum(len(v["fields"]) for v in adt["variants"]), adt["span"])
    st = [s for s in facts.statics if s["span"].startswith("src/impls/embedded.rs")]
    rep.ob("R18.2", "impls::embedded", "no static mut / thread_local state in the module", not [s for s in st if s["mutable"] or s["thread_local"]],
           "%d statics" % len(st), "")
    # ---- R18.3
    norm_fns = [b for b in facts.bodies if b.file.endswith("impls/embedded.rs") and b.kind == "Fn" and
                b.local_ty(0).startswith("std::result::Result<&str")]
    rep.ob("R18.3", "impls::embedded", "one normalising helper", len(norm_fns) == 1, [b.id for b in norm_fns], "")
    # the normalising step removes exactly the leading separator: its Ok results are "" for the empty path and path[1..]
    # otherwise — nothing that also eats trailing or repeated slashes ("/a.txt/" names nothing on a physical folder)
    for nf in norm_fns[:1]:
        cases = inter.ret_cases(nf)
        shapes = []
        okn = bool(cases)
        for ct, _, bb in cases:
            if inter.case_polarity(ct) == "err":
                continue
            v = ct
            if v[0] == "agg" and v[2] == "Ok" and v[3]:
                v = v[3][0][1]
            v = norm(v)
            for a in (v[1] if v[0] == "phi" else (v,)):
                if a == ("str", ""):
                    shapes.append('""')
                elif a[0] == "arg" and a[1] == 0:
                    # the path itself: only acceptable where it is known to be empty
                    gs = D.guards(nf, bb)
                    emp = any(g[0] == "bool" and g[2] is True and g[1][0] == "call" and g[1][1] in ("str::is_empty", "String::is_empty") for g in gs)
                    shapes.append("path (empty)" if emp else "path")
                    okn = okn and emp
                elif a[0] == "call" and a[1] == "Index::index" and len(a[2]) == 2 and a[2][0][0] == "arg" and a[2][0][1] == 0 and \
                        a[2][1][0] == "agg" and a[2][1][1].endswith("RangeFrom") and dict(a[2][1][3]).get("start") == ("int", 1):
                    shapes.append("path[1..]")
                else:
                    shapes.append(fmt(a)[:40])
                    okn = False
        rep.ob("R18.3", nf.id, "the normalising step strips exactly the leading separator", okn and "path[1..]" in shapes,
               ", ".join(shapes) if okn else
               "the normaliser returns %s: more than the one leading '/' is removed (or something else is computed), so paths "
               "like \"/a.txt/\" or \"//a.txt\" name an entry here but nothing on a physical folder" % ", ".join(shapes), nf.span)
        # ... and it refuses nothing: whether a name is there is decided by the index lookups that follow, for every path string (a
        # length limit, a character test here answers Err where a physical folder answers "absent" — or has the entry)
        errs = [bb for ct, _, bb in cases if inter.case_polarity(ct) != "ok"]
        rep.ob("R18.3", nf.id, "the normalising step refuses no path", not errs, "" if not errs else
               "the normaliser can return an error: exists / metadata / open_file / read_dir fail for paths a physical filesystem on the "
               "same folder answers for", nf.blocks[errs[0]].term.line if errs else nf.span)
    # exists / read_dir are decided by the two index maps alone: asking the embedded data itself (RustEmbed::get resolves
    # backslashes, `..`, and — in debug builds — the disk) gives answers the listings and metadata do not share
    for m in ("exists", "read_dir"):
        b = o.get(m)
        if b is None:
            continue
        asks = [x.term.line for cb in inter.code_bodies(b) for x in cb.calls()
                if "RustEmbed" in (x.term.callee() or "") or short(x.term.callee() or "").startswith("RustEmbed::")]
        rep.ob("R18.3", b.id, "%s is decided by the index maps only" % m, not asks, "" if not asks else
               "%s calls into the embedded data (RustEmbed::get/iter) instead of the index built at construction: paths the index "
               "does not contain can be reported as existing" % m, asks[0] if asks else b.span)
    # the embedded data is only asked for paths the index knows: rust-embed resolves more spellings than the index has
    # ('\\' as a separator, on-disk lookups in debug builds), so a bare T::get(path) serves files that exists(), metadata(),
    # the listings and a physical folder all report as absent
    for m in ("open_file", "metadata"):
        b = o.get(m)
        if b is None:
            continue
        for cb in inter.code_bodies(b):
            for blk in cb.calls():
                cal = blk.term.callee() or ""
                if not ("RustEmbed" in cal and cal.split("::")[-1].split("<")[0] == "get"):
                    continue
                gs = D.guards(cb, blk.idx)
                hit = False
                for g in gs:
                    t = g[1]
                    while t[0] in ("okval", "await"):
                        t = t[1]
                    if g[0] == "bool" and g[2] is True and t[0] == "call" and t[1] in ("HashMap::contains_key", "BTreeMap::contains_key"):
                        hit = True
                    if g[0] == "variant" and g[2] == "ok" and t[0] == "call" and t[1] in ("HashMap::get", "BTreeMap::get"):
                        hit = True
                rep.ob("R18.3", b.id, "%s asks the embedded data only after a hit in the index" % m, hit, "" if hit else
                       "%s calls T::get without a preceding hit in the file index: spellings the index does not contain (e.g. \"/a\\\\d.txt\" for "
                       "a/d.txt) are served although every other observer reports them absent" % m, blk.term.line)
    # who may construct: the struct is only built where the index is built (a derived / second constructor would hand out an
    # empty or partial view)
    ctor_bodies = []
    for b2 in facts.bodies:
        for blk in b2.blocks:
            if blk.cleanup:
                continue
            for st in blk.stmts:
                if st.kind == "assign" and st.rv.kind == "agg" and st.rv.agg.get("adt") == "impls::embedded::EmbeddedFS":
                    ctor_bodies.append((b2, st.line))
    index_builders = {b2.id for b2 in facts.bodies if b2.file.endswith("impls/embedded.rs") and
                      any(short(x.term.callee() or "") in ("RustEmbed::iter", "rust_embed::RustEmbed::iter") or
                          (x.term.callee() or "").endswith("::iter") and "RustEmbed" in (x.term.callee() or "") for x in b2.calls())}
    for b2, line in ctor_bodies:
        root = facts.body(b2.root) if b2.kind == "Closure" and b2.root else b2
        okc = root.id in index_builders or any(rb.id in index_builders for rb in inter.reachable([root], through_dyn=False).values())
        rep.ob("R18.5", b2.id, "EmbeddedFS is constructed only by the index builder", okc, "" if okc else
               "%s builds an EmbeddedFS value without running the index construction over the embedded files: that instance "
               "shows an empty (or different) tree" % b2.id, line)
    rep.floor("EmbeddedFS construction sites", len(ctor_bodies), 1)
    k = 0
    for m in ("read_dir", "open_file", "metadata", "exists"):
        b = o.get(m)
        if b is None:
            rep.fail("R18.3", TY, "%s implemented" % m, "missing")
            continue
        tr = get_tracer(facts, b)
        # every use of the path argument goes through the normaliser (except passing it on)
        raw_uses = []
        for blk in b.calls():
            t = blk.term
            sh = short(t.callee() or "")
            if norm_fns and t.callee() == norm_fns[0].id:
                continue
            if sh not in ("str::split_at", "Index::index"):
                for a in t.args:
                    x = norm(tr.operand(a))
                    if x[0] == "arg" and x[1] == 1:
                        raw_uses.append((sh, t.line))
            if sh in ("str::split_at", "Index::index") and t.args:
                x = norm(tr.operand(t.args[0]))
                if x[0] == "arg" and x[1] == 1:
                    # tolerated only when the slicing is proven safe on this path (e.g. under a hit of the
                    # file map with the normalised key: then the path is not the root)
                    from ..panics import inventory
                    safe = False
                    for ps in inventory(facts, b):
                        if ps.bb == blk.idx and D.discharge(ps) is not None:
                            safe = True
                    if not safe:
                        raw_uses.append((sh + " on the raw path", t.line))
                    else:
                        raw_uses = [r for r in raw_uses if r[1] != t.line]
                    continue
        k += 1
        rep.ob("R18.3", b.id, "%s uses the path only through the normaliser" % m, not raw_uses, "" if not raw_uses else
               "the raw path argument is used directly by %s: the root (\"\") and the slicing are not handled by the one "
               "guarded step" % raw_uses[0][0], raw_uses[0][1] if raw_uses else b.span)
        # ... what is looked up in the index, and asked of the embedded data, is the path that was given (normalised): not a name
        # put together from it (`<dir>/index.html` for a directory), which serves the bytes of another entry under this path
        made_up = []
        for cb_ in inter.code_bodies(b):
            trk = get_tracer(facts, cb_)
            for s_ in inter.sites(cb_):
                if s_.short in ("HashMap::get", "HashMap::contains_key", "HashMap::get_key_value") or s_.short.endswith("RustEmbed::get") or s_.name == "get" and (s_.trait or "").endswith("RustEmbed"):
                    kt = norm(trk.operand(s_.args[-1]))
                    for a_ in (kt[1] if kt[0] == "phi" else (kt,)):
                        if any(x[0] == "call" and isinstance(x[1], str) and (short(x[1]) in ("fmt::format", "str::trim_start_matches", "str::replace", "String::push_str",
                                                                                             "str::to_lowercase", "str::trim_end_matches", "Add::add", "str::trim_matches")
                                                                             or short(x[1]).startswith("str::to_")) for x in walk(a_)):
                            made_up.append((s_.short, s_.line))
        k += 1
        rep.ob("R18.3", b.id, "%s looks up the path it was given" % m, not made_up, "" if not made_up else
               "%s is asked with a name computed from the path (formatted / trimmed / rewritten): the entry served is not the one the "
               "path names on a physical folder" % made_up[0][0], made_up[0][1] if made_up else b.span)
        # ... and the observers refuse with not-found only (private helpers included): a miss of the embedded data after a hit in the
        # index is the same "no such file" a physical folder reports for a file that vanished
        kinds_m, calls_m = inter.kinds_and_calls(b)
        if m in ("open_file", "metadata"):
            okk = kinds_m <= {"FileNotFound"}
            k += 1
            rep.ob("R18.3", b.id, "%s refuses with FileNotFound only" % m, okk, "" if okk else
                   "%s can answer %s: a missing entry is not classified as not-found" % (m, sorted(kinds_m - {"FileNotFound"})), b.span)
        if m == "read_dir":
            # the listing hands out the children the index recorded, all of them
            filt = [c_ for c_ in calls_m if c_ in ("Iterator::filter", "Iterator::filter_map", "Iterator::skip", "Iterator::take", "Iterator::skip_while",
                                                   "Iterator::take_while", "Iterator::step_by", "HashSet::retain", "Vec::retain", "Iterator::nth")]
            k += 1
            rep.ob("R18.3", b.id, "read_dir lists the recorded children unfiltered", not filt, "" if not filt else
                   "the listing passes through %s: entries that exists / metadata / open_file serve are not listed" % filt[0], b.span)
        # FileNotFound only on a lookup miss
        for cb in inter.code_bodies(b):
            for blk in cb.blocks:
                if blk.cleanup:
                    continue
                for st_ in blk.stmts:
                    if st_.kind == "assign" and st_.rv.kind == "agg" and st_.rv.agg.get("adt") == "error::VfsErrorKind" and \
                            st_.rv.agg["variant"] == "FileNotFound":
                        gs = D.guards(cb, blk.idx)
                        miss = False
                        # `lookup(..).ok_or_else(|| FileNotFound.into())` / `.ok_or(..)`: the kind is built in the closure that runs on the
                        # None side of the lookup
                        if cb.kind == "Closure" and cb.parent:
                            pb_ = facts.body(cb.parent)
                            if pb_ is not None:
                                ptr_ = get_tracer(facts, pb_)
                                for pblk in pb_.calls():
                                    if short(pblk.term.callee() or "") in ("Option::ok_or_else", "Option::ok_or") and len(pblk.term.args) == 2:
                                        ca_ = strip(ptr_.operand(pblk.term.args[1]))
                                        if ca_[0] == "closure" and ca_[1] == cb.id:
                                            r_ = norm(ptr_.operand(pblk.term.args[0]))
                                            while r_[0] == "call" and r_[1] in ("Option::map", "Option::cloned", "Option::copied", "Option::as_ref") and r_[2]:
                                                r_ = norm(r_[2][0])
                                            if r_[0] == "call" and (r_[1] in ("HashMap::get",) or str(r_[1]).endswith("RustEmbed::get")):
                                                miss = True
                                                gs = list(gs) + [g for g in D.guards(pb_, pblk.idx) if g not in gs]
                        for g in gs:
                            t = peel(g[1])
                            is_lookup = t[0] == "call" and (t[1] in ("HashMap::get", "HashMap::contains_key") or str(t[1]).endswith("RustEmbed::get"))
                            if is_lookup and ((g[0] == "variant" and g[2] == "err") or (g[0] == "bool" and g[2] is False)):
                                miss = True
                        def is_norm_call(t_):
                            hb = inter.body_of_call(t_) if t_[0] == "call" else None
                            return hb is not None and bool(norm_fns) and hb.id == norm_fns[0].id
                        other = [g for g in gs if not (peel(g[1])[0] == "call" and (peel(g[1])[1] in ("HashMap::get", "HashMap::contains_key", "str::is_empty") or
                                                                                   str(peel(g[1])[1]).endswith("RustEmbed::get") or
                                                                                   is_norm_call(peel(g[1]))))]
                        k += 1
                        rep.ob("R18.3", b.id, "%s: FileNotFound only on a lookup miss" % m, miss and not other, "" if (miss and not other) else
                               "FileNotFound is built under %s: an existing embedded entry can be reported as missing" %
                               (fmt(other[0][1])[:60] if other else "no lookup-miss guard"), st_.line)
    # same maps, files before directories
    order = {}
    for m in ("metadata", "exists"):
        b = o.get(m)
        if b is None:
            continue
        tr = get_tracer(facts, b)
        seq = []
        for blk in b.calls():
            t = blk.term
            if short(t.callee() or "") in ("HashMap::get", "HashMap::contains_key"):
                a = norm(tr.operand(t.args[0]))
                key = norm(tr.operand(t.args[1]))
                fld = [x[2] for x in walk(a) if x[0] == "field"]
                kb = inter.body_of_call(peel(key)) if peel(key)[0] == "call" else None
                seq.append((blk.idx, fld[0] if fld else "?", kb is not None and bool(norm_fns) and kb.id == norm_fns[0].id))
        seq.sort()
        order[m] = seq
        k += 1
        ok = sorted({s[1] for s in seq}) == ["directory_map", "files"] and all(s[2] for s in seq)
        rep.ob("R18.3", b.id, "%s consults both maps (files and directories) with the normalised key" % m, ok, str([(s[1], s[2]) for s in seq]), b.span)
    rep.floor("lookup obligations", k, 8)
    # ---- R18.5 construction: the function that iterates the embedded files (wherever it lives: `new` itself or a private
    # helper it calls; obligations are filed under the entry point either way) and the splitting helper, both found by role
    builders = [b2 for b2 in facts.bodies if b2.id in index_builders and b2.kind != "Closure"]
    new = builders[0] if builders else None
    sp_fns = [b2 for b2 in facts.bodies if b2.file.endswith("impls/embedded.rs") and b2.kind == "Fn" and
              b2.local_ty(0).startswith("std::option::Option<(std::borrow::Cow<")]
    sp = sp_fns[0] if len(sp_fns) == 1 else None
    if new is None:
        rep.fail("R18.5", TY, "index builder present", "no function of impls/embedded.rs iterates the embedded files")
    else:
        new_key = D.owner_id(new)
        tr = get_tracer(facts, new)
        root_ins = []
        anc_ins = []
        for blk in new.calls():
            t = blk.term
            if short(t.callee() or "") == "HashSet::insert":
                recv = norm(tr.operand(t.args[0]))
                is_root = any(x[0] == "call" and x[1] == "HashMap::entry" and len(x[2]) == 2 and x[2][1] == ("str", "") for x in walk(recv))
                (root_ins if is_root else anc_ins).append(blk)
        # every embedded file is indexed: the iteration over the embedded files is neither filtered nor cut, and the insertion into
        # the file index depends on nothing ("exactly the files of the embedded folder")
        shaping, cond = [], []
        for cbn in inter.code_bodies(new):
            trn = get_tracer(facts, cbn)
            for s_ in inter.sites(cbn):
                ad = s_.short.split("::")[-1]
                if s_.short.split("::")[0] in ("Iterator", "Itertools", "DoubleEndedIterator") and ad in (
                        "filter", "filter_map", "skip", "skip_while", "take", "take_while", "step_by", "map_while", "scan", "nth", "last") and \
                        s_.args and any(x[0] == "call" and isinstance(x[1], str) and "RustEmbed" in x[1] for x in walk(norm(trn.operand(s_.args[0])))):
                    shaping.append(s_.short)
                if s_.short in ("HashMap::insert", "BTreeMap::insert") and s_.args and \
                        any(x[0] == "field" and x[2] == "files" for x in walk(norm(trn.operand(s_.args[0])))) or \
                        (s_.short in ("HashMap::insert", "BTreeMap::insert") and cbn.id == new.id and
                         any(x[0] == "call" and isinstance(x[1], str) and sname(x[1]) == "len" for a_ in s_.args[2:3] for x in walk(norm(trn.operand(a_))))):
                    for g in trn.guards_at(s_.bb):
                        if g[0] in ("bool", "inteq", "intne"):
                            cond.append(fmt(g[1])[:50])
        oki = not shaping and not cond
        rep.ob("R18.5", new_key, "every embedded file is indexed (iteration not filtered, insertion unconditional)", oki, "" if oki else
               "the index builder %s: an embedded file is missing from existence, listings, length and bytes" %
               ("passes T::iter() through " + ", ".join(sorted(set(shaping))) if shaping else "inserts a file only if " + "; ".join(cond)), new.span)
        rep.ob("R18.5", new_key, "ancestors are registered in a loop", len(anc_ins) >= 1, "%d" % len(anc_ins), new.span)
        rep.ob("R18.5", new_key, "top-level names are registered under the root", len(root_ins) == 1, "%d" % len(root_ins), new.span)
        for blk in root_ins:
            gs = D.guards(new, blk.idx)
            done = any(g[0] == "variant" and g[2] == "err" and peel(g[1])[0] == "call" and sp is not None and
                       (inter.body_of_call(peel(g[1])) is sp or sname(peel(g[1])[1]) == sp.name) for g in gs)
            rep.ob("R18.5", new_key, "root entry written only when no separator is left (no early loop exit)", done, "" if done else
                   "the insertion under the root is reachable while the path still contains a separator: a nested path is "
                   "listed as a child of the root", blk.term.line)
        for blk in anc_ins:
            gs = D.guards(new, blk.idx)
            extra = [g for g in gs if g[0] == "bool" and peel(g[1])[0] == "call" and sname(peel(g[1])[1]) in ("contains", "contains_key", "insert")]
            rep.ob("R18.5", new_key, "every split registers parent -> child unconditionally", not extra, "" if not extra else
                   "the registration depends on %s" % fmt(extra[0][1])[:50], blk.term.line)
        # loop exits: blocks with a back edge region; any edge leaving the ancestor loop other than via the None edge
        for blk in new.blocks:
            if blk.cleanup:
                continue
        # sibling arms of the splitting helper
    if sp is None:
        rep.fail("R18.5", TY, "splitting helper present", "no single private function of impls/embedded.rs returns Option<(Cow<str>, Cow<str>)>")
    else:
        tr = get_tracer(facts, sp)
        arms = {}
        for blk in sp.calls():
            gs = D.guards(sp, blk.idx)
            arm = None
            for g in gs:
                if g[0] == "variant" and g[3] in ("Borrowed", "Owned"):
                    arm = g[3]
            sh = short(blk.term.callee() or "")
            if arm and sh.startswith("str::") and ("split" in sh or "find" in sh):
                a = [norm(tr.operand(x)) for x in blk.term.args]
                arms.setdefault(arm, []).append((sh, a[1:] if len(a) > 1 else ()))
        same = len(arms) == 2 and [x[0] for x in arms.get("Borrowed", [])] == [x[0] for x in arms.get("Owned", [])] and \
            [x[1] for x in arms.get("Borrowed", [])] == [x[1] for x in arms.get("Owned", [])]
        last = all(x[0] in ("str::rsplitn", "str::rsplit_once", "str::rfind", "str::rsplit") for v in arms.values() for x in v)
        rep.ob("R18.5", sp.id, "both Cow arms split the same way", same, str({k_: [x[0] for x in v] for k_, v in arms.items()}), sp.span)
        rep.ob("R18.5", sp.id, "the split is at the last separator", last and bool(arms), "", sp.span)
    # ---- R18.4 lengths
    from . import c04
    from ..pathflow import World
    from ..report import Report
    scratch = Report("x")
    c04.length_rules(facts, scratch, World(facts, False), D)
    for ob in scratch.obligations:
        if "embedded" in ob["fn"]:
            rep.ob("R18.4", ob["fn"], ob["key"].split("|")[2], ob["ok"], ob["detail"], ob["loc"])
    # lengths are carried as u64 from data.len() to the metadata: no narrower integer on the way (index value type, casts)
    import re as _re
    NARROW = ("u8", "u16", "u32", "i8", "i16", "i32")
    if adt is not None:
        narrow_fields = [("%s: %s" % (f["name"], f["ty"])) for v in adt["variants"] for f in v["fields"]
                         if _re.search(r"[<, ](%s)[>,]" % "|".join(NARROW), f["ty"])]
        rep.ob("R18.4", TY, "the index stores lengths at full width", not narrow_fields, "" if not narrow_fields else
               "%s: a length of 4 GiB or more does not fit; metadata().len differs from the embedded file's size" % "; ".join(narrow_fields),
               adt["span"])
    for b2 in facts.bodies:
        if not b2.file.endswith("impls/embedded.rs"):
            continue
        tr2 = get_tracer(facts, b2)
        for blk in b2.blocks:
            if blk.cleanup:
                continue
            for st2 in blk.stmts:
                if st2.kind == "assign" and st2.rv.kind == "cast" and str(getattr(st2.rv, "ty", "")) in NARROW:
                    src = norm(tr2.rvalue(st2.rv, frozenset()))
                    if any(x[0] == "call" and isinstance(x[1], str) and sname(x[1]) == "len" for x in walk(src)):
                        rep.fail("R18.4", D.owner_id(b2) if hasattr(D, "owner_id") else b2.id, "no length is narrowed",
                                 "a length is cast to %s: sizes of 2^%s bytes or more wrap" % (st2.rv.ty, st2.rv.ty[1:]), st2.line)
    # the handle of open_file is the embedded bytes behind a cursor at offset 0: nothing is consumed, skipped or repositioned
    # before it is handed out
    b3 = o.get("open_file")
    if b3 is not None:
        touched = []
        made = 0
        for cb3 in inter.code_bodies(b3):
            for s3 in inter.sites(cb3):
                if s3.short == "Cursor::new":
                    made += 1
                elif s3.short.startswith("Cursor::") or s3.short.split("::")[0] in ("Read", "Seek", "BufRead", "Write"):
                    touched.append(s3.short)
        rep.ob("R18.3", b3.id, "open_file hands out an untouched Cursor::new(data)", made >= 1 and not touched,
               "" if made >= 1 and not touched else
               ("open_file calls %s on the cursor before returning it: the handle does not start at offset 0 of the embedded bytes / "
                "does not cover all of them" % ", ".join(sorted(set(touched)))) if touched else "no Cursor::new found in open_file", b3.span)
    # panics
    kk = c13.sites_for(facts, rep, ctx["V"], "R18.p", lambda r: r.file.endswith("impls/embedded.rs"))
    rep.floor("panic sites in impls/embedded.rs", kk, 6)
    if tier == "thorough":
        import subprocess
        p = subprocess.run([os.path.join(ctx["V"], "bin", "witness.sh"), ctx["repo"], "c18"], stdout=subprocess.PIPE, stderr=subprocess.STDOUT, text=True)
        rep.ob("R18.2w", "witness", "compile-fail witness: EmbeddedFS offers no mutable access (with compiling twin)", p.returncode == 0,
               p.stdout[-300:] if p.returncode else "witnesses behave", "witness/")
    # R18.7 every embedded entry is addressed through join(): a listed name must lead back to the entry it names (dots-only names
    # longer than '..' are ordinary names) — C06 R06.2/R06.3
    from . import c06 as _c06j
    from .c10 import _Prefixed as _Pf18j
    _c06j.joiner_rules(facts, _Pf18j(rep, "R18.7"), D)
    rep.assume("rust-embed's iter()/get() return build-time data; their agreement with the folder on disk is outside static reach")
