"""C08 — OverlayFS never modifies lower layers; observers modify nothing.

Effect + provenance analysis (necessary and, under the stated assumption, sufficient):
 R08.1 every backend-trait method is classified mutating/observing (frozen table, pathflow.py);
       which path-level methods mutate which of their path operands is *derived* from it.
 R08.2 in every function of the overlay implementation every operand in a mutated position takes
       its filesystem from layer index 0 (constant) only.
 R08.3 the overlay's observers, and the path-level observers, reach no mutating call at all.
 R08.4 the same for the async twin.
"""
from ..terms import get_tracer, fmt, strip, short
from ..inter import Inter
from ..pathflow import World, PathFlow, MUTATING, OBSERVING

EXPLANATION = ("effect/provenance analysis over rustc MIR: every call site reachable from OverlayFS's FileSystem "
               "methods is examined; each path operand in a mutated position (derived from the mutating/observing "
               "classification of the backend trait) must originate from layers[0]; observers must reach no "
               "mutating call. Decides the whole statement under the assumption that a layer's own observing "
               "methods do not mutate that layer.")

PATH_OBSERVERS = ["exists", "metadata", "is_file", "is_dir", "read_dir", "open_file", "walk_dir", "read_to_string",
                  "filename", "extension", "parent", "join", "root", "is_root", "as_str"]
OVERLAY_OBSERVERS = ["read_dir", "open_file", "metadata", "exists"]


def classify_origin(o):
    """'upper' | 'anylayer' | 'other'"""
    if o[0] == "index":
        base, idx = o[1], o[2]
        if base[0] == "field" and idx[0] == "int" and idx[1] == 0:
            return "upper"
        return "anylayer"
    if o[0] == "elem":
        return "anylayer"
    return "other"


def overlay_bodies(facts, w):
    out = []
    for b in facts.bodies:
        if b.kind == "Closure":
            continue
        if b.impl and b.impl["self_ty"] == w.overlay and not b.impl["derived"]:
            out.append(b)
    return out


def run_world(facts, rep, w, floors):
    inter = Inter(facts)
    pf = PathFlow(facts, w, inter)
    tag = w.tag
    # R08.1 classification complete
    uncl = pf.unclassified_trait_methods()
    rep.ob("R08.1", w.trait, "all trait methods classified", not uncl,
           "unclassified backend trait methods: %s" % uncl if uncl else
           "%d mutating + %d observing" % (len(MUTATING), len(OBSERVING)))
    mut = pf.mutation_summary()
    pm = w.path_methods()
    derived = {n: sorted(mut.get(b.id, ())) for n, b in pm.items() if mut.get(b.id)}
    rep.note("%s: derived mutated operands of path methods: %s" % (tag, derived))
    # sanity floor: the derivation must have found the well-known mutators
    expected = {"create_dir", "create_file", "append_file", "remove_file", "remove_dir", "remove_dir_all",
                "create_dir_all", "copy_file", "move_file", "copy_dir", "move_dir", "set_creation_time",
                "set_modification_time", "set_access_time"}
    missing = sorted(m for m in expected if m in pm and not derived.get(m))
    rep.ob("R08.1", w.path_ty, "mutator derivation", not missing,
           "path methods that should be derived as mutating but were not: %s" % missing if missing else
           "%d path methods derived as mutating" % len(derived))
    # copy_file must mutate the destination only (operand 1), move_file both
    if "copy_file" in pm:
        rep.ob("R08.1", pm["copy_file"].id, "copy_file mutates destination only", derived.get("copy_file") == [1],
               "derived %s" % derived.get("copy_file"), pm["copy_file"].span)

    # R08.2 provenance at every mutated operand inside the overlay implementation
    obs = overlay_bodies(facts, w)
    n_sites = 0
    kinds_seen = set()
    for b in obs:
        for site, j, origin in pf.mutated_operands(b, mut):
            n_sites += 1
            kinds_seen.add((site.short, j))
            classes = {classify_origin(o): o for o in origin}
            bad = [o for o in origin if classify_origin(o) != "upper"]
            desc = "%s operand%d" % (site.short, j)
            rep.ob("R08.2", b.id, desc, not bad,
                   ("mutating call %s receives a path that is not provably from layers[0]: %s" % (
                       site.short, ", ".join(fmt_origin(o) for o in bad))) if bad else "origin layers[0]",
                   site.line)
    # positive control on the real code: the provenance analysis must be able to say "any layer" — the overlay's
    # resolver result (used as receiver of observing calls and as copy-up source) is such a path
    n_any = 0
    for b in obs:
        for cb in inter.code_bodies(b):
            tr = get_tracer(facts, cb)
            for s in inter.sites(cb):
                if s.self_ty and s.self_ty.endswith("VfsPath") and s.args:
                    o = pf.fs_origin(tr.operand(s.args[0]))
                    if any(classify_origin(x) == "anylayer" for x in o):
                        n_any += 1
    rep.floor("positive control: receivers classified as 'any layer' in %s" % w.overlay, n_any, 4)
    floors_key = "mutated-operand sites in %s" % w.overlay
    # the floor counts the distinct (mutating call, operand) kinds the rule judged, not the sites: folding two identical steps
    # into one private helper removes a site, never a kind
    rep.note("%s: %d mutated-operand sites of %d kinds" % (tag, n_sites, len(kinds_seen)))
    rep.floor(floors_key, len(kinds_seen), floors["sites"])

    # R08.3 observers are pure: overlay observers
    om = facts.impl_methods(w.trait.rsplit("::", 1)[1], w.overlay)
    for name in OVERLAY_OBSERVERS:
        b = om.get(name)
        if b is None:
            rep.fail("R08.3", w.overlay, "observer %s present" % name, "trait method impl not found")
            continue
        reach = inter.reachable([b], through_dyn=False)
        offenders = []
        for rb in reach.values():
            if rb.kind == "Closure":
                continue
            for site, j, origin in pf.mutated_operands(rb, mut):
                offenders.append("%s in %s (%s)" % (site.short, rb.id, site.line))
        rep.ob("R08.3", b.id, "observer reaches no mutating call", not offenders,
               "; ".join(offenders[:5]) if offenders else "%d functions reachable, none mutates" % len(reach), b.span)
    # path-level observers
    n_obs = 0
    for name in PATH_OBSERVERS:
        b = pm.get(name)
        if b is None:
            continue
        n_obs += 1
        reach = inter.reachable([b], through_dyn=False)
        offenders = []
        for rb in reach.values():
            if rb.kind == "Closure":
                continue
            for site, j, origin in pf.mutated_operands(rb, mut):
                offenders.append("%s in %s (%s)" % (site.short, rb.id, site.line))
            for cb in inter.code_bodies(rb):
                for s in inter.sites(cb):
                    if pf.is_backend_call(s) and s.name in MUTATING:
                        offenders.append("backend %s in %s (%s)" % (s.name, cb.id, s.line))
        rep.ob("R08.3", b.id, "path observer reaches no mutating call", not offenders,
               "; ".join(sorted(set(offenders))[:5]) if offenders else "pure", b.span)
    # walk iterator
    for b in facts.bodies:
        if b.impl and b.impl["self_ty"] == w.walk and b.name in ("next", "poll_next"):
            n_obs += 1
            reach = inter.reachable([b], through_dyn=False)
            offenders = []
            for rb in reach.values():
                if rb.kind == "Closure":
                    continue
                for site, j, origin in pf.mutated_operands(rb, mut):
                    offenders.append("%s in %s (%s)" % (site.short, rb.id, site.line))
            rep.ob("R08.3", b.id, "walk step reaches no mutating call", not offenders,
                   "; ".join(offenders[:5]) if offenders else "pure", b.span)
    rep.floor("path-level observers (%s)" % tag, n_obs, floors["observers"])

    # R08.6 the observing methods of the in-crate backends the overlay can be stacked on issue no mutating call on
    # themselves (the overlay hands observations to whichever layer serves the entry, lower layers included)
    n6 = 0
    for ty in (w.memory, w.physical, w.altroot):
        ms = facts.impl_methods(w.trait.rsplit("::", 1)[1], ty)
        for name in OVERLAY_OBSERVERS:
            b = ms.get(name)
            if b is None:
                continue
            offenders = []
            todo6, seen6 = [b], {b.id}
            while todo6:
                f6 = todo6.pop()
                for cb in inter.code_bodies(f6):
                    for s in inter.sites(cb):
                        if (s.name in MUTATING or s.name in ("create_dir_all", "remove_dir_all", "copy_dir")) and \
                                (s.trait == w.trait or (s.self_ty or "") == ty or (s.self_ty or "").endswith("VfsPath")):
                            offenders.append((s.name, s.line))
                        # private helpers of the backend (the path translator of an adapter) run as part of the observer
                        hb6 = inter.local_callee(s)
                        if hb6 is not None and hb6.id not in seen6 and hb6.impl and hb6.impl.get("self_ty") == ty and \
                                not hb6.impl.get("trait") and hb6.vis != "pub":
                            seen6.add(hb6.id)
                            todo6.append(hb6)
            if ty == w.memory:
                # direct writes to the map behind the lock count as well (an inlined access-time bump)
                from ..memrules import MemoryModel
                mm6 = MemoryModel(facts, ty, w.trait.rsplit("::", 1)[1])
                for cb6, bb6, sh6, key6, line6 in mm6.mutation_sites(b):
                    offenders.append((sh6, line6))
                for cb6, bb6, fld6, line6, base6 in mm6.field_writes(b):
                    offenders.append(("write of .%s" % fld6, line6))
            n6 += 1
            rep.ob("R08.6", b.id, "backend observer %s issues no mutating call" % name, not offenders,
                   "pure" if not offenders else
                   "%s calls the mutating %s on its own filesystem (%s): observing an entry that the overlay serves from a "
                   "lower layer of this backend re-times that lower layer's entry" % (b.id, offenders[0][0], offenders[0][1]),
                   offenders[0][1] if offenders else b.span)
    rep.floor("backend observer methods examined (%s)" % tag, n6, 12)


def fmt_origin(o):
    if o[0] == "index":
        return "%s[%s]" % (fmt(o[1]), fmt(o[2]))
    if o[0] == "elem":
        return "element of %s" % fmt(o[1])
    if o[0] == "arg":
        return "argument %s" % o[2]
    if o[0] == "field":
        return "%s.%s" % (fmt(o[1]), o[2])
    return " ".join(str(x) for x in o)


def constructor_rules(facts, rep, w, rule):
    """the overlay's constructor stores the layer slice as given (no filtering, re-ordering or dropping of layers)"""
    from ..terms import get_tracer as _gt
    from ..panics import norm as _norm
    n = 0
    ctors = [b for b in facts.bodies if b.kind != "Closure" and b.impl and b.impl["self_ty"] == w.overlay and b.impl["trait"] is None and
             any(st.kind == "assign" and st.rv.kind == "agg" and st.rv.agg.get("adt") == w.overlay for blk in b.blocks for st in blk.stmts)]
    for b in ctors:
        tr = _gt(facts, b)
        for blk in b.blocks:
            if blk.cleanup:
                continue
            for st in blk.stmts:
                if st.kind == "assign" and st.rv.kind == "agg" and st.rv.agg.get("adt") == w.overlay:
                    v = _norm(tr.rvalue(st.rv, frozenset()))
                    lay = None
                    for f_, t_ in v[3]:
                        tyf = next((x["ty"] for a in [facts.adts.get(w.overlay)] if a for vv in a["variants"] for x in vv["fields"] if x["name"] == f_), "")
                        if "Vec<" in tyf:
                            lay = t_
                    x = lay
                    okl = False
                    for _ in range(4):
                        if x is None:
                            break
                        if x[0] == "arg" and x[1] == 0:
                            okl = True
                            break
                        if x[0] == "call" and x[1] in ("slice::to_vec", "ToOwned::to_owned", "Into::into", "From::from", "Vec::from", "Clone::clone") and x[2]:
                            x = _norm(x[2][0])
                            continue
                        break
                    n += 1
                    rep.ob(rule, b.id, "constructor stores the layers as given", okl,
                           "" if okl else "the stored layer list is %s, not the argument itself: layers can be dropped or re-ordered, so "
                           "writes can land in what the caller passed as a lower layer" % fmt(lay)[:60] if lay is not None else "?", st.line)
    return n


def run(facts, rep, tier, ctx):
    ws = World(facts, False)
    run_world(facts, rep, ws, {"sites": 10, "observers": 9})
    wa = World(facts, True)
    if wa.present():
        run_world(facts, rep, wa, {"sites": 10, "observers": 9})
    else:
        rep.fail("R08.4", "async_vfs", "async world present", "async_vfs module not found in the all-features build")
    # R08.11 a copy-up between two sub-directories of ONE in-memory filesystem takes the backend's native two-path route: it has to
    # leave the source (the lower layer's entry) in place on every path, failing ones included — Table M two-path rows and the
    # "a failed primitive leaves the map unchanged" rows, both worlds
    from . import c01 as _c01t
    from ..report import Report as _Rp8
    for w11 in (ws, wa):
        if not w11.present():
            continue
        scr11 = _Rp8("t")
        found11, n11, mm11 = _c01t.table_m(facts, scr11, "M", "Mk", self_ty=w11.memory, trait=w11.trait.rsplit("::", 1)[1], ops_filter=_c01t.TWO_PATH_OPS)
        _c01t.failed_primitive_unchanged(facts, scr11, "F", mm11)
        for o in scr11.obligations:
            if o["rule"] in ("M", "F"):
                rep.ob(("A/" if w11.asyncw else "") + "R08.11", o["fn"], o["key"].split("|")[2], o["ok"], o["detail"], o["loc"])
    # R08.10 a layer may itself be an adapter: what the overlay asks of an altroot layer is what reaches the filesystem behind it
    # (a copy_file that is really a move removes the lower layer's file during a copy-up)
    from . import c07 as _c07
    from ..panics import Discharger as _D8, load_records as _lr8
    import os as _os8
    D8 = _D8(facts, _lr8(_os8.path.join(ctx["V"], "rules", "panic_records.json")))
    for w in (ws, wa):
        if w.present():
            _c07.delegation(facts, rep if not w.asyncw else __import__("analysis.props.c10", fromlist=["_Prefixed"])._Prefixed(rep, "A"), w, "R08.10", D8)
    # R08.12 is_file / is_dir are answered from exists() and metadata() alone: they are pure observers, and an observer that opens the
    # entry instead reaches the in-memory backend's access-time stamp of open_file — on an overlay that re-times a lower layer's entry
    from . import c05 as _c05k
    for w in (ws, wa):
        if w.present():
            _c05k.is_kind_rules(facts, _c05k._P5(rep if not w.asyncw else __import__("analysis.props.c10", fromlist=["_Prefixed"])._Prefixed(rep, "A"), "R08.12"), w, D8)
    # R08.9 "every mutation lands in the upper layer" also in the literal sense: the path a mutation is applied to is built
    # relative to the write layer (an absolute join restarts at the root of the filesystem the layer lives in — outside the
    # layer, possibly inside a lower one), and no path is built on a layer found by the resolver
    from . import c09 as _c09
    from .c10 import _Prefixed as _Pf8
    for w in (ws, wa):
        if w.present():
            _c09.relative_join_rules(facts, rep if not w.asyncw else _Pf8(rep, "A"), w, rule="R08.9")
    # R08.5 a copy-up must produce an independent copy: the upper layer's file may not share storage with the lower one
    # (a hard link / rename instead of a byte copy lets a later append through the overlay re-write the lower layer's file)
    from .. import physrules
    from ..report import Report
    for w in (ws, wa):
        if not w.present():
            continue
        scratch = Report("x")
        physrules.table_o_shape(facts, scratch, "O", w)
        k = 0
        for o in scratch.obligations:
            d = o["key"].split("|")[2]
            if d.startswith("copy_file"):
                k += 1
                rep.ob("R08.5", o["fn"], d, o["ok"], o["detail"], o["loc"])
        rep.floor("copy_file obligations on the physical backend (%s)" % w.tag, k, 2)
    # R08.8 the write layer is the caller's first layer: the constructor stores the layer slice as given (no filtering,
    # re-ordering or dropping of layers — a dropped first layer silently turns the second one into the write layer)
    for w in (ws, wa):
        if w.present():
            constructor_rules(facts, rep, w, ("A/" if w.asyncw else "") + "R08.8")
    # R08.7 the path layer's native fast paths run only when source and destination are the same filesystem instance:
    # otherwise a copy-up (resolved lower path -> upper path) would call the *lower layer's* own copy_file/move_file
    # with the destination string, i.e. write into the lower layer
    from ..pathrules import PathRules
    for w in (ws, wa):
        if w.present():
            k = PathRules(facts, w).fast_paths(rep if not w.asyncw else __import__("analysis.props.c10", fromlist=["_Prefixed"])._Prefixed(rep, "A"), "R08.7")
            rep.floor("fast-path obligations (%s)" % w.tag, k, 6)
    rep.assume("a layer's own observing methods (read_dir/open_file/metadata/exists) do not mutate that layer's tree "
               "(in-crate backends: checked as a note; foreign FileSystem impls: assumed)")
    rep.assume("children yielded by VfsPath::read_dir/walk_dir live on the receiver's filesystem (rule R05.1)")
