"""C02 — MemoryFS is a faithful stand-in for PhysicalFS (they refuse the same calls).

Sibling cross-check of two implementations of one trait:
 R02.1 for every FileSystem operation the guard set MemoryFS establishes in its code (as found by the
       guard analysis, Table M) equals the set the OS enforces for the std call PhysicalFS actually makes
       (Table O row of the callee read from the facts); a guard on one side only is a divergence.
 R02.2 error-class agreement: missing target -> FileNotFound on both sides (MemoryFS ok_or(FileNotFound);
       PhysicalFS through the io NotFound normalisation, R12.3a); occupied create_dir -> FileExists /
       DirectoryExists by occupant type on both sides.
 R02.3 the path layer adds the same parent/destination checks to both (Table P lives in VfsPath; no backend
       overrides it).
"""
from ..inter import Inter
from ..pathflow import World
from ..pathrules import PathRules
from ..memrules import TABLE_O
from .. import physrules
from . import c01, c12

EXPLANATION = ("sibling cross-check over rustc MIR: the preconditions MemoryFS checks by hand (guards dominating each "
               "mutation / hand-out site) are compared, operation by operation, with the preconditions the OS enforces "
               "for the std call PhysicalFS delegates to (the callee is read from the code, its enforced set from the "
               "frozen Table O). Decides that both backends refuse the same calls with the same error classes; does "
               "not decide equality of resulting trees/bytes.")

# FileSystem op -> which guard letters are relevant for the comparison
RELEVANT = {
    "create_dir": {"P", "V"},
    "create_file": {"P", "notdir"},
    "append_file": {"E", "F"},
    "open_file": {"E", "F"},
    "read_dir": {"E", "D"},
    "remove_file": {"E", "F"},
    "remove_dir": {"E", "D", "M"},
    "metadata": {"E"},
    "set_modification_time": {"E"},
    "set_access_time": {"E"},
}
NAMES = {"E": "target exists", "F": "target is a file", "D": "target is a directory", "V": "target vacant",
         "P": "parent exists", "M": "directory empty", "notdir": "target is not a directory"}


def os_guards(effect):
    g = set(TABLE_O.get(effect, set()))
    out = set()
    for x in g:
        if x == "F":
            out.add("F")          # "not a directory": together with E it means "is a file"
            out.add("notdir")
        else:
            out.add(x)
    if "V" in g:
        out.add("notdir")
    return out


def compare_world(facts, rep, w, tag, floor):
    """R02.1 / R02.2 for one world: the in-memory backend's guards as found vs what the OS enforces for the physical one"""
    inter = Inter(facts)
    from ..report import Report
    scratch = Report("C02-scratch")
    trait = w.trait.rsplit("::", 1)[1]
    found, n, mm = c01.table_m(facts, scratch, "M", "Mk", self_ty=w.memory, trait=trait)
    phys = facts.impl_methods(trait, w.physical)
    ncmp = 0
    for op, rel in sorted(RELEVANT.items()):
        pb = phys.get(op)
        mb = mm.ops.get(op)
        if pb is None or mb is None:
            if w.asyncw and mb is None and op.startswith("set_"):
                continue  # AsyncMemoryFS keeps no time stamps (F22, a C15 finding): nothing to compare
            rep.fail(tag + "R02.1", w.physical if pb is None else w.memory, "%s implemented on both sides" % op, "missing implementation")
            continue
        effs = [e for e in physrules.effects_of(facts, inter, pb) if (e[0] != "stat" or op == "metadata") and e[0] != "fstat"]
        if op == "create_dir":
            effs = [e for e in effs if e[0] == "mkdir"]
        if len(effs) != 1:
            rep.fail(tag + "R02.1", pb.id, "%s: single std call" % op, "PhysicalFS::%s makes %s" % (op, [e[0] for e in effs]), pb.span)
            continue
        eff = effs[0][0]
        if eff.startswith("utimens"):
            eff = "utimens"
        osg = (os_guards(eff) | physrules.code_guards(facts, inter, pb)) & rel
        memg = set(found.get(op, set()))
        if "F" in memg:
            memg.add("notdir")
        memg &= rel
        for g in sorted(rel):
            ncmp += 1
            a, b = g in memg, g in osg
            if a == b:
                rep.ob(tag + "R02.1", mb.id, "%s: '%s' enforced by both or neither" % (op, NAMES[g]), True,
                       "MemoryFS %s, OS(%s) %s" % ("checks" if a else "does not check", eff, "enforces" if b else "does not enforce"), mb.span)
            elif a and not b:
                rep.ob(tag + "R02.1", pb.id, "%s: '%s' checked by MemoryFS only" % (op, NAMES[g]), False,
                       "MemoryFS refuses %s when '%s' fails, but the std call PhysicalFS uses (%s) does not enforce it: "
                       "the two backends disagree on the outcome of that call" % (op, NAMES[g], eff), pb.span)
            else:
                rep.ob(tag + "R02.1", mb.id, "%s: '%s' enforced by the OS only" % (op, NAMES[g]), False,
                       "the OS refuses %s when '%s' fails (%s), MemoryFS does not check it: code validated on MemoryFS "
                       "behaves differently on PhysicalFS" % (op, NAMES[g], eff), mb.span)
    rep.floor("guards compared between the in-memory backend and the OS (%s)" % w.tag, ncmp, floor)
    # the comparison above asks whether the guard is there; Table M's rows ask that it holds on *every* path to the hand-out /
    # mutation (a fast path that returns the writer in front of the type check keeps the check in the code and skips it)
    for o in scratch.obligations:
        if o["rule"] == "M" and " guarded by '" in o["key"]:
            rep.ob(tag + "R02.1m/R01.2", o["fn"], o["key"].split("|")[2], o["ok"], o["detail"], o["loc"])
    # R02.2 error classes
    for o in scratch.obligations:
        if o["rule"] == "Mk":
            rep.ob(tag + "R02.2", o["fn"], o["key"].split("|")[2], o["ok"], o["detail"], o["loc"])
    # wrong-type targets are not "missing": the in-memory backend reports them with a class of their own (Other), as the OS
    # does (ENOTDIR / EISDIR are not NotFound) — a wrong-type target reported as FileNotFound makes "already gone" callers
    # take different branches on the two backends
    for op in ("read_dir", "remove_dir", "remove_file", "open_file", "append_file"):
        mb = mm.ops.get(op)
        if mb is None:
            continue
        for cb in mm.inter.code_bodies(mb):
            for blk in cb.blocks:
                if blk.cleanup:
                    continue
                for st in blk.stmts:
                    if st.kind == "assign" and st.rv.kind == "agg" and st.rv.agg.get("adt") == "error::VfsErrorKind" and \
                            st.rv.agg.get("variant") == "FileNotFound":
                        from ..memrules import GuardView
                        from ..terms import get_tracer
                        from ..panics import nguard
                        # branch outcomes of this very function only (an earlier callee that happened to find the entry —
                        # open_file's access-time bump — says nothing about the lookup whose miss is being reported here)
                        gv = GuardView([nguard(g) for g in get_tracer(facts, cb).guards_at(blk.idx)], mm.inter)
                        ex, _k = gv.exists(mm.key_arg(mb))
                        rep.ob(tag + "R02.2", mb.id, "%s: FileNotFound is built only where the target is missing" % op, not ex,
                               "on the lookup-miss edge" if not ex else
                               "FileNotFound is built on a path where the target was found (a wrong-type target is reported as missing)", st.line)
    return mm


def argument_only_refusals(facts, rep, w, tag, mm):
    """every refusal of the in-memory backend is a statement about the stored entries (something is missing, occupied, of
    the wrong type, not empty) — the conditions a real filesystem enforces.  A refusal decided by the argument alone (the
    root, an empty name, a suffix) is one the physical backend does not make"""
    from ..terms import walk, fmt_guard, short
    n = 0

    def about_entries(t):
        for x in walk(t):
            if x[0] == "field" and x[2] in mm.map_fields():
                return True
            if x[0] == "call" and isinstance(x[1], str) and x[1].split("::")[0] in ("HashMap", "BTreeMap", "Entry", "OccupiedEntry",
                                                                                      "VacantEntry", "hash_map", "btree_map"):
                return True
        return False

    def about_argument(t):
        if any(x[0] == "call" and isinstance(x[1], str) and x[1].split("<")[0] in ("Future::poll", "RwLock::read", "RwLock::write", "Mutex::lock")
               for x in walk(t)):
            return False        # waiting for the lock is not a condition on the path
        return any(x[0] == "arg" and x[1] >= 1 for x in walk(t))
    for op, b in sorted(mm.ops.items()):
        for cb in mm.inter.code_bodies(b):
            for blk in cb.blocks:
                if blk.cleanup:
                    continue
                for st in blk.stmts:
                    if not (st.kind == "assign" and st.rv.kind == "agg" and st.rv.agg.get("adt") == "error::VfsErrorKind"):
                        continue
                    gs = mm.guards(cb, blk.idx)
                    if not gs:
                        continue
                    # the kind handed to `lookup.ok_or(kind)` is the answer to a failed lookup wherever it is built
                    t_ = blk.term
                    if t_.kind == "call" and short(t_.callee() or "") in ("Option::ok_or", "Option::ok_or_else") and st.lhs.is_local() and \
                            any(a.kind in ("move", "copy") and a.place.is_local() and a.place.local == st.lhs.local for a in t_.args):
                        continue
                    ent = [g for g in gs if about_entries(g[1])]
                    arg = [g for g in gs if not about_entries(g[1]) and about_argument(g[1])]
                    bad = bool(arg) and not ent
                    n += 1
                    rep.ob(tag + "R02.1r", b.id, "%s: %s is refused because of the stored entries" % (op, st.rv.agg.get("variant")), not bad,
                           "" if not bad else "%s refuses with %s under a condition on its argument only (%s): PhysicalFS has no such "
                           "refusal" % (op, st.rv.agg.get("variant"), "; ".join(fmt_guard(g)[:60] for g in arg)), st.line)
    return n


def run(facts, rep, tier, ctx):
    ws = World(facts, False)
    mm = compare_world(facts, rep, ws, "", 18)
    argument_only_refusals(facts, rep, ws, "", mm)
    # a refused call leaves the same tree behind on both backends — on disk nothing happened; in memory nothing may have been
    # published either (a write handle built before the checks publishes an empty file when the refusal drops it)
    c01.failed_primitive_unchanged(facts, rep, "R02.1f", mm)
    wa_ = World(facts, True)
    if wa_.present():
        mma_ = compare_world(facts, rep, wa_, "A/", 14)
        if mma_ is not None:
            argument_only_refusals(facts, rep, wa_, "A/", mma_)
            from .c10 import _Prefixed as _Pf2
            c01.failed_primitive_unchanged(facts, _Pf2(rep, "A"), "R02.1f", mma_)
    c12.run_error_rs(facts, rep)  # NotFound normalisation etc. (R12.3a) — PhysicalFS side of the class agreement
    physrules.table_o_shape(facts, rep, "R02.2p", ws)
    # R02.5 the physical translator joins the path argument itself: names that are valid on the host (dots-only, backslashes)
    # must reach the OS unchanged, as they reach the map of the in-memory backend (shared with C07 R07.2)
    from . import c07
    from ..panics import Discharger as _D, load_records as _lr
    import os as _os
    D0 = _D(facts, _lr(_os.path.join(ctx["V"], "rules", "panic_records.json")))
    from .c10 import _Prefixed as _P
    for w_ in (ws, wa_):
        if w_.present():
            c07.physical_gate(facts, _P(rep, ("A/" if w_.asyncw else "") + "R02.5"), w_, D0)
    # R02.6 "started on an empty filesystem": however an in-memory filesystem is constructed, it starts as an existing, empty root
    from . import c03
    c03.root_rules(facts, rep, "R02.6")
    # R02.3 Table P is backend independent
    pr = PathRules(facts, ws)
    pr.table_p(rep, "R02.3")
    # R02.4 the in-memory handles are cursors over the file's bytes like std::fs::File (the physical side hands out
    # std handles, R14.1): seek bases, read window, writer publication
    import os
    from ..handlerules import Handles
    from ..panics import Discharger, load_records
    D = Discharger(facts, load_records(os.path.join(ctx["V"], "rules", "panic_records.json")))
    h = Handles(facts, False, D)
    k = h.seek_rules(rep, "R02.4", "R02.4") + h.read_rules(rep, "R02.4") + h.writer_rules(rep, "R02.4", "R02.4", "R02.4t") + \
        h.handle_surface_rules(rep, "R02.4")
    rep.floor("in-memory handle obligations", k, 23)
    # ... including where std's handles answer with an error: no argument of read/seek/write makes the in-memory handle panic
    from . import c13 as _c13
    _c13.sites_for(facts, rep, ctx["V"], "R02.4p", lambda r: bool(r.impl) and r.impl["self_ty"] in ("impls::memory::ReadableFile", "impls::memory::WritableFile"))
    wa = World(facts, True)
    rep.ob("R02.A", "async_vfs", "async world present", wa.present(), "", "")
    if wa.present():
        from .c10 import _Prefixed
        A = _Prefixed(rep, "A")
        ha = Handles(facts, True, D)
        k = ha.seek_rules(A, "R02.4", "R02.4") + ha.read_rules(A, "R02.4") + ha.writer_rules(A, "R02.4", "R02.4", "R02.4t") + \
            ha.handle_surface_rules(A, "R02.4")
        k += physrules.table_o_shape(facts, A, "R02.2p", wa)
        rep.floor("async in-memory handle / physical obligations", k, 40)
        # the async path type has its own copy of the backend-independent checks and of the stream route (which only the
        # in-memory backend takes: the physical one has native copy/rename) — a refusal or an error class that differs
        # there is a difference between the two async backends
        pra = PathRules(facts, wa, D)
        pra.table_p(A, "R02.3")
        pra.generic_routes(A, "R02.3g")
        # R02.8 the async walk keeps per-entry state across Pending — a path only the physical backend takes (its metadata future is
        # Pending on the first poll, the in-memory one is always ready): the stash/slot typestate of poll_next decides that both
        # backends see the same stream (shared with C15 R15.4)
        from . import c15 as _c15w
        _c15w.poll_next_rules(facts, _Prefixed(rep, "R02.8"), D)
    PathRules(facts, ws, D).generic_routes(rep, "R02.3g")
    # R02.7 is_file / is_dir answer through exists() first: exists() is total on both backends, metadata() of a path below a
    # file is not (ENOTDIR on disk, "not found" in memory) — a single metadata() lookup makes the two backends disagree there
    from . import c05 as _c05
    for w7 in (ws, wa):
        if w7.present():
            _c05.is_kind_rules(facts, _c05._P5(rep if not w7.asyncw else _Prefixed(rep, "A"), "R02.7"), w7, D)
    # R02.1t a native same-filesystem transfer of the in-memory backend establishes what rename(2)/copy enforce on disk: the
    # destination's parent is an existing directory, the source has the right type
    from ..report import Report as _Rp
    for w7 in (ws, wa):
        if not w7.present():
            continue
        scr7 = _Rp("t")
        c01.table_m(facts, scr7, "M", "Mk", self_ty=w7.memory, trait=w7.trait.rsplit("::", 1)[1], ops_filter=c01.TWO_PATH_OPS)
        for o in scr7.obligations:
            if o["rule"] == "M":
                rep.ob(("A/" if w7.asyncw else "") + "R02.1t", o["fn"], o["key"].split("|")[2], o["ok"], o["detail"], o["loc"])
    rep.assume("Table O is what Linux/POSIX enforce for the std calls; O_APPEND seek semantics are excluded by the property")
