"""C07 — AltrootFS is an exact and confined re-rooting (and PhysicalFS stays below its root).

 R07.1 single gate: the root field of AltrootFS (resp. PhysicalFS) is read in exactly one function besides
       constructors and derived impls — the translator — and every path handed to the inner filesystem by any
       FileSystem method originates from the translator applied to that method's own path argument.
 R07.2 the gate strips: the string joined onto the root is the argument without its leading '/' on the
       starts_with('/') edge, and the raw argument only on the other edge (an absolute join would restart at the
       underlying root / replace the OS root).
 R07.3 exact delegation: each FileSystem method m of AltrootFS has exactly one effectful call, VfsPath::m on the
       translated path, and returns that call's result — with three reasoned exceptions (read_dir maps children to
       bare names; exists answers false when pure translation fails; copy_file refuses an empty destination and
       translates both paths).  move_file / move_dir are not overridden.
 R07.4 bare names back: read_dir items are filename() of the inner children.
 R07.5 backends only ever see canonical paths: C06's joiner / accessor rules (shared).
"""
import os
from ..terms import get_tracer, fmt, strip, short, walk
from ..inter import Inter
from ..pathflow import World, MUTATING, OBSERVING
from ..panics import Discharger, load_records, norm
from ..pathrules import sname, peel
from .. import physrules

EXPLANATION = ("value-origin + delegation-table analysis over rustc MIR of AltrootFS (sync, and async twin) and of "
               "PhysicalFS::get_path: single translator gate, leading-slash stripping on the right edges, one inner call "
               "per method on the translated path whose result is returned unchanged, bare names in listings; plus the "
               "joiner rules that guarantee canonical input. Lexical confinement follows; symlinks are out of scope.")

EXCEPTIONS = {
    "read_dir": "children are mapped to filename(): the inner prefix must not leak",
    "exists": "a path that cannot be translated (pure computation) does not exist",
    "copy_file": "NotSupported for an empty destination (the root cannot be a copy target), both paths translated",
}


def translator_of(facts, inter, ty, field_ty_pred):
    """functions (non-derived, non-constructor) that read the root field of `ty`"""
    adt = facts.adts.get(ty)
    if adt is None:
        return None, []
    fields = [f for v in adt["variants"] for f in v["fields"] if field_ty_pred(f["ty"])]
    if len(fields) != 1:
        return None, []
    fname = fields[0]["name"]
    readers = []
    for b in facts.bodies:
        if b.impl and b.impl.get("derived"):
            continue
        root = facts.body(b.root) if b.kind == "Closure" and b.root else b
        if not (root and root.impl and root.impl["self_ty"] == ty):
            continue
        reads = False
        for blk in b.blocks:
            if blk.cleanup:
                continue
            for st in blk.stmts:
                if st.kind == "assign":
                    for pl in [st.rv.place] + [o.place for o in st.rv.ops]:
                        if pl is not None and fname in pl.fields():
                            reads = True
            t = blk.term
            if t.kind == "call":
                for a in t.args:
                    if a.place is not None and fname in a.place.fields():
                        reads = True
        # constructors write the field through an aggregate, not a place read
        if reads:
            readers.append(root)
    uniq = []
    for r in readers:
        if r.id not in [u.id for u in uniq]:
            uniq.append(r)
    return fname, uniq


def gate_rules(facts, rep, w, D):
    inter = D.inter
    n = 0
    # ---- AltrootFS
    fname, readers = translator_of(facts, inter, w.altroot, lambda t: t.endswith("VfsPath"))
    n += 1
    rep.ob("R07.1", w.altroot, "root field read in exactly one function (the translator)", len(readers) == 1,
           "readers: %s" % [r.id for r in readers], "")
    if len(readers) != 1:
        return n, None
    tr_fn = readers[0]
    trt = get_tracer(facts, tr_fn)
    joins = [blk for blk in tr_fn.calls() if sname(blk.term.callee() or "") == "join"]
    n += 1
    rep.ob("R07.2", tr_fn.id, "translator joins onto the root", len(joins) >= 1, "%d join site(s)" % len(joins), tr_fn.span)
    from ..panics import nguard as _ng
    for blk in joins:
        t = blk.term
        recv = norm(trt.operand(t.args[0]))
        okr = recv[0] == "field" and recv[2] == fname and recv[1][0] == "arg" and recv[1][1] == 0
        n += 2
        rep.ob("R07.2", tr_fn.id, "join receiver is the root field", okr, fmt(recv)[:40], t.line)
        # the joined string may be the value of an `if` expression (`let rel = if path.starts_with('/') { &path[1..] } else { path }`):
        # every arm is judged under its own branch outcome
        ok = True
        arg, sw = ("undef",), None
        for arg_raw, extra in trt.operand_cases(t.args[1]):
            arg = norm(arg_raw)
            gs = list(D.guards(tr_fn, blk.idx)) + [_ng(g) for g in extra]
            sw = None
            for g in gs:
                if g[0] == "bool" and g[1][0] == "call" and g[1][1] == "str::starts_with" and g[1][2][1] == ("char", "/") and \
                        g[1][2][0][0] == "arg" and g[1][2][0][1] == 1:
                    sw = g[2]
            stripped = arg[0] == "call" and arg[1] == "Index::index" and arg[2][0][0] == "arg" and arg[2][0][1] == 1 and \
                arg[2][1][0] == "agg" and arg[2][1][1].endswith("RangeFrom") and dict(arg[2][1][3]).get("start") == ("int", 1)
            raw = arg[0] == "arg" and arg[1] == 1
            if not ((stripped and sw is True) or (raw and sw is False)):
                ok = False
                break
        rep.ob("R07.2", tr_fn.id, "joined string: stripped on the '/' edge, raw only on the other edge", ok, "" if ok else
               "the translator joins %s onto the root %s: an argument with a leading '/' restarts at the underlying root, "
               "escaping the altroot directory" % (fmt(arg)[:50], "under starts_with('/')=%s" % sw), t.line)
    # the translator refuses nothing by itself: its only error is the join's own (every canonical path names something
    # below the root; a blanket rejection such as contains("..") hides legal names like "a..b" from every operation)
    own_errs = [st.line for blk in tr_fn.blocks if not blk.cleanup for st in blk.stmts
                if st.kind == "assign" and st.rv.kind == "agg" and st.rv.agg.get("adt") in ("error::VfsErrorKind", "error::VfsError")]
    n += 1
    rep.ob("R07.2", tr_fn.id, "translator builds no error of its own", not own_errs, "" if not own_errs else
           "the translator rejects some paths itself: canonical paths that name entries below the root become unreachable "
           "through the altroot while the underlying filesystem serves them", own_errs[0] if own_errs else tr_fn.span)
    # ... and it only computes a path: no operation on the inner filesystem (every method of the adapter runs it, observers
    # included — a create_dir_all "to be safe" makes exists()/read_dir() write)
    effects = []
    for cbt in inter.code_bodies(tr_fn):
        for s_ in inter.sites(cbt):
            nm_ = sname(s_.path)
            if (s_.self_ty and s_.self_ty.endswith("VfsPath") and nm_ not in ("join", "clone", "as_str", "root", "parent", "filename")) or \
                    s_.trait == w.trait:
                effects.append(s_.short)
    n += 1
    rep.ob("R07.2", tr_fn.id, "translator performs no filesystem operation", not effects, "" if not effects else
           "the translator calls %s: every operation of the adapter, observers included, has that effect on the inner filesystem"
           % ", ".join(sorted(set(effects))), tr_fn.span)
    # Ok(root.clone()) for the empty path
    for ct, _, bb in inter.ret_cases(tr_fn):
        if inter.case_polarity(ct) == "ok":
            v = norm(ct[3][0][1])
            gs = D.guards(tr_fn, bb)
            emp = any(g[0] == "bool" and g[2] is True and g[1][0] == "call" and g[1][1] == "str::is_empty" for g in gs)
            okv = v[0] == "field" and v[2] == fname
            n += 1
            rep.ob("R07.2", tr_fn.id, "empty path translates to the root itself", emp and okv, fmt(v)[:40], tr_fn.blocks[bb].term.line)
    return n, tr_fn


def delegation(facts, rep, w, rule="R07.3", D=None):
    D = D or Discharger(facts)
    inter = D.inter
    n = 0
    fname, readers = translator_of(facts, inter, w.altroot, lambda t: t.endswith("VfsPath"))
    if len(readers) != 1:
        rep.fail(rule, w.altroot, "translator identified", "cannot identify the translator")
        return 0
    tr_fn = readers[0]
    ops = facts.impl_methods(w.trait.rsplit("::", 1)[1], w.altroot)
    expected = set(MUTATING) | set(OBSERVING)
    for m in ("move_file", "move_dir"):
        n += 1
        rep.ob(rule, w.altroot, "%s not overridden" % m, m not in ops, "falls to the NotSupported default" if m not in ops else
               "an override bypasses the path layer's generic route", "")
    for m in sorted(expected - {"move_file", "move_dir"}):
        b = ops.get(m)
        if b is None:
            rep.fail(rule, w.altroot, "%s implemented" % m, "missing")
            continue
        path_calls = []
        other_effects = []
        for cb in inter.code_bodies(b):
            tr = get_tracer(facts, cb)
            for s in inter.sites(cb):
                nm = sname(s.path)
                if s.self_ty and s.self_ty.endswith("VfsPath") and s.args:
                    if nm in ("filename", "as_str", "clone", "join", "parent"):
                        continue
                    path_calls.append((cb, s, tr))
                elif s.trait == w.trait or s.path.startswith(("std::fs", "async_std::fs")):
                    other_effects.append(s)
        names = [sname(s.path) for _, s, _ in path_calls]
        n += 1
        rep.ob(rule, b.id, "%s: exactly one inner call, VfsPath::%s" % (m, m), names == [m] and not other_effects,
               "inner calls: %s" % names if names == [m] else
               "AltrootFS::%s calls %s on the inner filesystem (expected exactly %s): the operation differs from its "
               "translated twin" % (m, names + [s.short for s in other_effects], m), b.span)
        for cb, s, tr in path_calls:
            if sname(s.path) != m:
                continue
            nargs = 2 if m == "copy_file" else 1
            for ai in range(nargs):
                a = norm(tr.operand(s.args[ai]))
                p = peel(a)
                ok = p[0] == "call" and inter.body_of_call(p) is not None and inter.body_of_call(p).id == tr_fn.id and \
                    len(p[2]) == 2 and p[2][1][0] == "arg" and p[2][1][1] == 1 + ai
                n += 1
                rep.ob(rule, b.id, "%s: operand %d is translator(own path argument %d)" % (m, ai, ai + 1), ok, "" if ok else
                       "the inner call receives %s instead of the translated own argument" % fmt(a)[:60], s.line)
        # result is the inner call's result
        cases = inter.ret_cases(b)
        bad = []
        for ct, _, bb in cases:
            pol = inter.case_polarity(ct)
            c = norm(ct)
            if pol == "err":
                # only propagation of translation errors or the listed refusal
                if c[0] == "call" and sname(c[1]) == "from_residual":
                    continue
                if m == "copy_file" and any(x[0] == "agg" and x[2] == "NotSupported" for x in walk(c)):
                    continue
                bad.append(("extra error return %s" % fmt(c)[:50], bb))
                continue
            # ok / unknown: must be (a mapping of) the inner call's result
            inner = [x for x in walk(c) if x[0] == "call" and sname(x[1]) == m and x[2] and x[2][0] != ("arg", 0)]
            has_inner = any(peel(x[2][0])[0] == "call" for x in inner)
            if m == "exists":
                # unwrap_or(map(translate(path), |p| p.exists()), Ok(false))  /  match translate { Ok(p) => p.exists(), Err(_) => Ok(false) }
                txt = repr(c)
                if c[0] == "call" and c[1] in ("Result::unwrap_or",) and len(c[2]) == 2:
                    dflt = c[2][1]
                    okd = dflt[0] == "agg" and dflt[2] == "Ok" and dflt[3][0][1] == ("int", 0)
                    src = c[2][0]
                    okm = src[0] == "call" and src[1] == "Result::map" and peel(src[2][0])[0] == "call" and \
                        inter.body_of_call(peel(src[2][0])) is not None and inter.body_of_call(peel(src[2][0])).id == tr_fn.id
                    if okd and okm:
                        continue
                if has_inner:
                    continue
                if c[0] == "agg" and c[2] == "Ok" and c[3][0][1] == ("int", 0):
                    # Ok(false) only on the failing-translation edge
                    cb0 = inter.code_body(b)
                    gs = D.guards(cb0, bb)
                    if any(g[0] == "variant" and g[2] == "err" and peel(g[1])[0] == "call" and
                           inter.body_of_call(peel(g[1])) is not None and inter.body_of_call(peel(g[1])).id == tr_fn.id for g in gs):
                        continue
                bad.append(("returns %s" % fmt(c)[:60], bb))
                continue
            if m == "read_dir":
                if any(x[0] == "call" and sname(x[1]) == "read_dir" for x in walk(c)):
                    continue
                bad.append(("returns %s" % fmt(c)[:60], bb))
                continue
            if has_inner or (c[0] == "call" and sname(c[1]) == m):
                # must be the bare call result (no post-processing)
                top = peel(c)
                if top[0] == "call" and sname(top[1]) == m:
                    continue
                bad.append(("post-processes the inner result: %s" % fmt(c)[:60], bb))
                continue
            bad.append(("returns %s which is not the inner call's result" % fmt(c)[:60], bb))
        n += 1
        cb0 = inter.code_body(b)
        rep.ob(rule, b.id, "%s: returns the inner call's result unchanged" % m, not bad,
               ("exception: " + EXCEPTIONS[m]) if (m in EXCEPTIONS and not bad) else ("" if not bad else
               "AltrootFS::%s %s: its outcome differs from the same operation on the translated path" % (m, bad[0][0])),
               cb0.blocks[bad[0][1]].term.line if bad else b.span)
    # R07.4 bare names
    b = ops.get("read_dir")
    if b is not None:
        okf = False
        for cb in inter.code_bodies(b):
            tr = get_tracer(facts, cb)
            for ct, _, _ in inter.ret_cases(cb) if cb.kind == "Closure" else []:
                c = norm(ct)
                if c[0] == "call" and sname(c[1]) == "filename":
                    okf = True
        n += 1
        rep.ob("R07.4" if rule == "R07.3" else rule, b.id, "read_dir yields filename() of inner children", okf, "" if okf else
               "listing items are not reduced to bare names: the inner prefix leaks", b.span)
        # ... of all of them, once each: the inner listing is only mapped, never filtered, cut, extended or reordered
        shaping = []
        for cb in inter.code_bodies(b):
            for s in inter.sites(cb):
                ad = s.short.split("::")[-1]
                if s.short.split("::")[0] in ("Iterator", "StreamExt", "Stream", "Option", "Itertools", "DoubleEndedIterator") and ad in (
                        "filter", "filter_map", "skip", "skip_while", "take", "take_while", "step_by", "chain", "zip", "rev", "flat_map",
                        "flatten", "dedup", "peekable", "scan", "map_while", "fuse", "cycle", "last", "nth"):
                    shaping.append(s.short)
        n += 1
        rep.ob("R07.4" if rule == "R07.3" else rule, b.id, "read_dir lists every inner child (no filtering adaptor)", not shaping,
               "" if not shaping else "the inner listing passes through %s: an entry of the directory behind the altroot is not listed "
               "(or listed differently) although it is reachable by path" % ", ".join(sorted(set(shaping))), b.span)
    return n


def physical_gate(facts, rep, w, D):
    inter = D.inter
    n = 0
    fname, readers = translator_of(facts, inter, w.physical, lambda t: "PathBuf" in t)
    n += 1
    rep.ob("R07.1", w.physical, "root field read in exactly one function (the translator)", len(readers) == 1,
           "readers: %s" % [r.id for r in readers], "")
    if len(readers) != 1:
        return n
    g = readers[0]
    tr = get_tracer(facts, g)
    joins = [blk for blk in g.calls() if sname(blk.term.callee() or "") == "join"]
    n += 1
    rep.ob("R07.2", g.id, "translator joins onto the OS root", len(joins) == 1, "%d" % len(joins), g.span)
    for jb in joins:
        t = jb.term
        # which definitions of the joined local reach the join, per path
        a = t.args[1]
        arg = norm(tr.operand(a))
        alts_ = arg[1] if arg[0] == "phi" else (arg,)
        raw_possible = any(x[0] == "arg" and x[1] == 1 for x in alts_)

        def is_own_arg(x):
            for _ in range(6):
                if (x[0] == "arg" and x[1] == 1) or x == ("rec",):
                    return True   # ("rec",): the argument local re-assigned from itself (`path = &path[1..]`)
                if x[0] == "call" and x[1] in ("AsRef::as_ref", "Deref::deref", "Borrow::borrow", "String::as_str", "Path::new",
                                               "Into::into", "From::from", "ToOwned::to_owned", "ToString::to_string") and x[2]:
                    x = norm(x[2][0])
                    continue
                return False
            return False
        # `path.strip_prefix('/').unwrap_or(path)`: by definition the argument without its leading '/' exactly when it has one
        sp_form = arg[0] == "call" and arg[1] == "Option::unwrap_or" and len(arg[2]) == 2 and is_own_arg(norm(arg[2][1])) and \
            norm(arg[2][0])[0] == "call" and norm(arg[2][0])[1] == "str::strip_prefix" and is_own_arg(norm(norm(arg[2][0])[2][0])) and \
            norm(arg[2][0])[2][1] in (("char", "/"), ("str", "/"))
        if sp_form:
            n += 3
            rep.ob("R07.2", g.id, "joined string is the path argument itself (at most without its leading '/')", True, "strip_prefix('/').unwrap_or(path)", t.line)
            rep.ob("R07.2", g.id, "leading '/' is stripped somewhere", True, "strip_prefix", g.span)
            rep.ob("R07.2", g.id, "joined string: stripped exactly when the argument starts with '/'", True, "strip_prefix('/').unwrap_or(path)", t.line)
            continue
        pure = all(is_own_arg(x) or (x[0] == "call" and x[1] == "Index::index" and len(x[2]) == 2 and is_own_arg(norm(x[2][0])) and
                                     x[2][1][0] == "agg" and x[2][1][1].endswith("RangeFrom") and dict(x[2][1][3]).get("start") == ("int", 1))
                   for x in alts_)
        n += 1
        rep.ob("R07.2", g.id, "joined string is the path argument itself (at most without its leading '/')", pure,
               "" if pure else "the translator rewrites the path before joining it onto the root (%s): characters that were plain "
               "name bytes after normalisation (e.g. '\\') can become separators or '..' components and leave the root" % fmt(arg)[:70], t.line)
        strip_blocks = []
        for blk in g.blocks:
            if blk.cleanup:
                continue
            for st in blk.stmts:
                if st.kind == "assign" and st.lhs.is_local():
                    v = norm(tr.rvalue(st.rv, frozenset()))
                    if v[0] == "call" and v[1] == "Index::index" and v[2][1][0] == "agg" and v[2][1][1].endswith("RangeFrom") and \
                            dict(v[2][1][3]).get("start") == ("int", 1) and any(x[0] == "arg" and x[1] == 1 for x in walk(v[2][0])):
                        strip_blocks.append(blk.idx)
        n += 1
        rep.ob("R07.2", g.id, "leading '/' is stripped somewhere", len(strip_blocks) >= 1, "", g.span)
        # every path to the join that takes the starts_with('/') edge passes a strip block; others do not
        ps = tr.cfg.paths(0, lambda x: x == jb.idx)
        ok = ps is not None
        for path in ps or []:
            sw = None
            for (s, d, label) in path:
                if label is None:
                    continue
                tt = g.blocks[s].term
                for gg in tr.edge_pred(tt, label):
                    gn = (gg[0], norm(gg[1])) + tuple(gg[2:])
                    if gn[0] == "bool" and gn[1][0] == "call" and gn[1][1] == "str::starts_with" and gn[1][2][1] == ("char", "/"):
                        sw = gn[2]
            passed = any(d in strip_blocks for (_, d, _) in path)
            if sw is True and not passed:
                ok = False
            if sw is False and passed:
                ok = False
            if sw is None and not passed and raw_possible:
                ok = False
        n += 1
        rep.ob("R07.2", g.id, "joined string: stripped exactly when the argument starts with '/'", ok, "" if ok else
               "some path joins an argument that still has its leading '/' (PathBuf::join would replace the root) or strips "
               "a relative argument", t.line)
    # R07.7 operations on the filesystem happen only inside the trait methods: the constructors and the translator of the physical
    # backend compute a path and nothing else — `new` that creates its root ("a fresh data directory may not be there yet") also
    # creates the root's missing ancestors, which lie outside the root, without any operation having been called
    from .. import physrules as _ph7
    for b7 in facts.bodies:
        if b7.kind == "Closure" or not b7.impl or b7.impl["self_ty"] != w.physical or b7.impl.get("trait") or b7.impl.get("derived"):
            continue
        eff = []
        for cb7 in inter.code_bodies(b7):
            for s7 in inter.sites(cb7):
                if s7.short in _ph7.EFFECTS or (s7.path or "").startswith("filetime::") or \
                        (s7.short.split("::")[0] in ("fs", "File", "OpenOptions", "DirBuilder") and s7.short not in ("OpenOptions::new",)):
                    eff.append((s7.short, s7.line))
        n += 1
        rep.ob("R07.7", b7.id, "inherent function of the physical backend performs no OS operation", not eff, "" if not eff else
               "%s calls %s: the host filesystem is touched (possibly outside the root) without an operation of the API having been "
               "called on a path" % (b7.name, eff[0][0]), eff[0][1] if eff else b7.span)

    return n


def run(facts, rep, tier, ctx):
    D = Discharger(facts, load_records(os.path.join(ctx["V"], "rules", "panic_records.json")))
    from . import c06
    for w in (World(facts, False), World(facts, True)):
        if not w.present():
            rep.fail("R07.1", w.tag, "world present", "async_vfs missing")
            continue
        n, tr_fn = gate_rules(facts, rep, w, D)
        rep.floor("gate obligations (%s)" % w.tag, n, 7)
        n = delegation(facts, rep, w, "R07.3", D)
        rep.floor("delegation obligations (%s)" % w.tag, n, 40)
        n = physical_gate(facts, rep, w, D)
        rep.floor("PhysicalFS gate obligations (%s)" % w.tag, n, 4)
        n = physrules.table_o_shape(facts, rep, ("A/" if w.asyncw else "") + "R07.1p", w)
    # an adapter's root is an ordinary directory of the filesystem underneath: remove_dir_all removes it like any other
    # (Table P: every Ok return has passed remove_dir(self))
    from ..pathrules import PathRules
    from ..report import Report
    for w in (World(facts, False), World(facts, True)):
        if not w.present():
            continue
        scratch = Report("p")
        PathRules(facts, w, D).table_p(scratch, "P")
        for o in scratch.obligations:
            d = o["key"].split("|")[2]
            if d.startswith("remove_dir_all"):
                rep.ob(("A/" if w.asyncw else "") + "R07.5", o["fn"], d, o["ok"], o["detail"], o["loc"])
            # a transfer inside an altroot takes the generic route where the filesystem underneath may take its native one: both
            # leave the same tree behind only while the generic route touches the destination after it has the source
            elif d.split(":")[0] in ("copy_file", "move_file", "copy_dir", "move_dir"):
                rep.ob(("A/" if w.asyncw else "") + "R07.6p", o["fn"], d, o["ok"], o["detail"], o["loc"])
        # the composite operations of the path type compute with the path strings of whatever filesystem they run on: on an
        # altroot those are the re-rooted strings, on the filesystem underneath the same strings behind the prefix P.  They
        # behave the same on both only while (a) the relative part of a walked entry is cut off by the length of the source
        # path (not by content) and (b) a backend's same-filesystem operation is used only between paths of one instance
        pr_ = PathRules(facts, w, D)
        tag_ = ("A/" if w.asyncw else "") + "R07.6"
        from .c10 import _Prefixed as _Pf
        pr_.generic_routes(rep if not w.asyncw else _Pf(rep, "A"), "R07.6")
        pr_.fast_paths(rep if not w.asyncw else _Pf(rep, "A"), "R07.6f")
        # (c) the walk decides by the entries it is given, not by how long their path strings are (a depth limit counted on the
        # absolute string cuts the same tree at different places behind different prefixes)
        from . import c05 as _c05w
        _c05w.walk_rules(facts, _c05w._P5(rep if not w.asyncw else _Pf(rep, "A"), "R07.6w"), w, D)
    n = c06.joiner_rules(facts, rep, D)
    n += c06.accessor_rules(facts, rep, D)
    n += c06.single_impl_rules(facts, rep, D)
    rep.floor("shared joiner obligations (R06.*)", n, 25)
    rep.assume("symlinks, hardlinks and remounts are out of scope (stated by the property and by the crate's documentation)")
    rep.assume("the inner filesystem is reached only through VfsPath values (type system: AltrootFS holds nothing else)")
