"""C14 — file handles obey the standard Read, Write and Seek contracts.

 R14.1 what is handed out: every backend's open_file/create_file/append_file returns a std/async-std handle
       (File, Cursor) or one of the crate's hand-written handle structs; PhysicalFS opens with the Table-O option
       sets (create = write+create+truncate, append = append, open = read).
 R14.2 reader seek arms by origin: Start(o) -> o; Current(o) -> position (+) o; End(o) -> content length (+) o.
 R14.3 seek fails exactly for a negative/overflowing target (checked arithmetic) and never because the target is
       beyond the end; the stored position comes from the checked result.
 R14.4 read shape: n = min(buf.len(), len saturating- position); buf[..n] <- content[position..position+n];
       position += n; returns n; the single-byte arm reads the same start.
 R14.5 writer: write/seek are plain delegations to the Cursor; flush/drop publish exactly the buffer (R04.1);
       append positions the cursor at End(0) (R04.2).
 R14.6 the async reader obeys R14.2–R14.4 as well.
"""
import os
from ..terms import get_tracer, short, walk, fmt
from ..pathflow import World
from ..panics import Discharger, load_records, norm
from ..handlerules import Handles
from .. import physrules
from . import c13

EXPLANATION = ("value-origin and guard analysis over rustc MIR of the hand-written in-memory reader and writer (sync and "
               "async): which quantity each SeekFrom arm reads, on which edges seek fails, the shape of the read window, "
               "delegation of write/seek to the Cursor, and which handle types the backends hand out. Decides the "
               "structural clauses; call-by-call equivalence with std::io::Cursor for every script is a refinement proof "
               "and is not decided.")


def handed_out(facts, rep, w, D):
    n = 0
    inter = D.inter
    allowed_calls = ("File::open", "File::create", "OpenOptions::open", "Cursor::new")
    for ty in (w.memory, w.physical):
        ops = facts.impl_methods(w.trait.rsplit("::", 1)[1], ty)
        for op in ("open_file", "create_file", "append_file"):
            b = ops.get(op)
            if b is None:
                continue
            for ct, _, bb in inter.ret_cases(b):
                if inter.case_polarity(ct) != "ok":
                    continue
                v = norm(ct[3][0][1])
                ok = False
                if v[0] == "agg" and v[1].startswith(("impls::memory::", "async_vfs::impls::memory::")):
                    ok = True
                x = v
                while x[0] in ("okval", "await"):
                    x = x[1]
                if x[0] == "call" and x[1] in allowed_calls:
                    ok = True
                n += 1
                rep.ob("R14.1", b.id, "%s hands out a std handle or a crate handle struct" % op, ok, "" if ok else
                       "returns %s" % str(v)[:80], b.span)
    # the embedded backend serves every file — the empty ones too — as a Cursor over the embedded bytes (io::empty() reads the same
    # but answers Ok(0) to every seek: no error before the start, no position past the end)
    if not w.asyncw:
        for b in facts.bodies:
            if b.kind != "Closure" and b.name == "open_file" and b.impl and b.impl["self_ty"].startswith("impls::embedded::EmbeddedFS") and \
                    (b.impl.get("trait") or "").endswith("FileSystem"):
                for ct, _, bb in inter.ret_cases(b):
                    if inter.case_polarity(ct) != "ok":
                        continue
                    x = norm(ct[3][0][1]) if ct[0] == "agg" and ct[3] else norm(ct)
                    while x[0] in ("okval", "await") or (x[0] == "call" and x[1] in ("Box::new",) and x[2]):
                        x = x[1] if x[0] in ("okval", "await") else norm(x[2][0])
                    ok = x[0] == "call" and x[1] == "Cursor::new" and x[2] and any(y[0] == "field" and y[2] == "data" for y in walk(x[2][0]))
                    n += 1
                    rep.ob("R14.1", b.id, "embedded open_file hands out a Cursor over the embedded file's data", ok, "" if ok else
                           "returns %s: a reader that is not a cursor over the file's bytes (seek errors and positions differ)" % fmt(x)[:60],
                           inter.code_body(b).blocks[bb].term.line)
    return n


def run(facts, rep, tier, ctx):
    D = Discharger(facts, load_records(os.path.join(ctx["V"], "rules", "panic_records.json")))
    for asyncw in (False, True):
        w = World(facts, asyncw)
        if not w.present():
            rep.fail("R14.6", "async_vfs", "async world present", "missing")
            continue
        h = Handles(facts, asyncw, D)
        tag = "R14.6/" if asyncw else ""
        n = h.seek_rules(rep, tag + "R14.2", tag + "R14.3")
        rep.floor("seek obligations (%s)" % w.tag, n, 12)
        n = h.read_rules(rep, tag + "R14.4")
        rep.floor("read obligations (%s)" % w.tag, n, 6)
        n = h.writer_rules(rep, tag + "R04.1", tag + "R14.5", tag + "R19.2")
        rep.floor("writer obligations (%s)" % w.tag, n, 5)
        h.handle_surface_rules(rep, tag + "R14.7")
        n = handed_out(facts, rep, w, D)
        rep.floor("handle hand-out sites (%s)" % w.tag, n, 5)
    ws = World(facts, False)
    physrules.table_o_shape(facts, rep, "R14.1p", ws)
    # R14.8 the handle a path method hands out is the one the backend's method of that name made (a create handle is not an append
    # handle: on disk the latter writes at the end whatever was sought)
    from ..pathrules import PathRules as _PR14
    from .c10 import _Prefixed as _Pf14b
    for w8 in (ws, World(facts, True)):
        if w8.present():
            _PR14(facts, w8, D).backend_passthrough(rep if not w8.asyncw else _Pf14b(rep, "R14.6"), "R14.8", ("create_file", "append_file", "open_file"))
    # append positions at End(0); create starts empty (shared with C04)
    from . import c04
    c04.session_start_rules(facts, rep, ws, D, "R14.5s")
    wa_ = World(facts, True)
    if wa_.present():
        c04.session_start_rules(facts, rep, wa_, D, "R14.6/R14.5s")
        # (create starts empty on the async physical backend too: exactly open:create+trunc+write)
        from .c10 import _Prefixed as _Pf14
        physrules.table_o_shape(facts, _Pf14(rep, "R14.6"), "R14.1p", wa_)
    # ... of the bytes the file has: opening an append handle copies them and leaves the stored entry alone (a handle that
    # takes the bytes out leaves an empty file behind for every other handle opened meanwhile)
    from . import c01 as _c01
    from ..report import Report as _Rp
    for w5 in (ws, wa_):
        if not w5.present():
            continue
        scr5 = _Rp("a")
        _c01.table_m(facts, scr5, "M", "Mk", self_ty=w5.memory, trait=w5.trait.rsplit("::", 1)[1], ops_filter=("append_file",))
        for o in scr5.obligations:
            if "the stored entry is not modified" in o["key"]:
                rep.ob(("R14.6/" if w5.asyncw else "") + "R14.5a", o["fn"], o["key"].split("|")[2], o["ok"], o["detail"], o["loc"])
        # "create starts empty" for every handle, not only the one returned: create_file replaces the stored entry by an empty
        # one before it hands the writer out (a second handle opened meanwhile must not see the old bytes)
        scr6 = _Rp("c")
        _c01.table_m(facts, scr6, "M", "Mk", self_ty=w5.memory, trait=w5.trait.rsplit("::", 1)[1], ops_filter=("create_file",))
        for o in scr6.obligations:
            if o["rule"] == "M":
                rep.ob(("R14.6/" if w5.asyncw else "") + "R14.5c", o["fn"], o["key"].split("|")[2], o["ok"], o["detail"], o["loc"])
    # through the overlay an append handle starts after the bytes the overlay showed: the copy-up is a complete byte copy
    # (copy_file of the resolved file) made before the upper layer's append handle is opened
    from . import c09
    for asyncw in (False, True):
        w_ = World(facts, asyncw)
        if w_.present():
            c09.table_u(facts, rep, w_, ("R14.6/" if asyncw else "") + "R14.5u", only=("append_file",))
    # no panics in handle code
    k = c13.sites_for(facts, rep, ctx["V"], "R14.p", lambda r: bool(r.impl) and ("ReadableFile" in r.impl["self_ty"] or "WritableFile" in r.impl["self_ty"]))
    rep.floor("panic sites in handle code", k, 10)
    rep.assume("std::io::Cursor, std::fs::File and their async-std counterparts honour their contracts")
