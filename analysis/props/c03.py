"""C03 — the namespace is always a well-formed tree (inductive step per mutation site).

 R03.1 every site that can ADD an entry (MemoryFS create_dir/create_file inserts) is guarded by parent-exists
       (backend) and parent-is-directory (path layer); an overwriting insert is guarded by "occupant is not a
       directory".
 R03.2 every site that can REMOVE an entry is guarded by file-type (remove_file) resp. directory-type and
       emptiness (remove_dir).
 R03.3 the writer's publication (flush) re-validates before inserting (shared with C16 R16.3).
 R03.4 the only construction of the map inserts the root "" as a Directory.
 R03.5 OverlayFS: removals are guarded by union emptiness, creations by union occupancy (Table U, C09);
       PhysicalFS/AltrootFS inherit from the OS / by delegation (R01.4, R07.3).
"""
from ..terms import get_tracer, fmt, short
from ..pathflow import World
from ..pathrules import PathRules
from ..panics import norm
from . import c01

EXPLANATION = ("invariant-preservation obligations over rustc MIR: for each site that adds, removes or re-types an "
               "entry of the in-memory map (and each overlay removal/creation) the dominating guards must include the "
               "conditions under which the tree stays well-formed (parent exists and is a directory; removed entry has "
               "no children; a directory never becomes a file). Decides the inductive step for all histories; "
               "interleavings are C16's rule.")


def root_rules(facts, rep, rule):
    n = 0
    for asyncw in (False, True):
        w_ = World(facts, asyncw)
        if not w_.present():
            continue
        mod = w_.memory.rsplit("::", 1)[0] + "::"
        holders = [name for name, a in facts.adts.items() if name.startswith(mod) and (asyncw or not name.startswith("async_vfs")) and
                   any(f["ty"].startswith(("std::collections::HashMap<", "std::collections::BTreeMap<")) for v in a["variants"] for f in v["fields"])]
        tag = "A/" if asyncw else ""
        sites = 0
        for b in facts.bodies:
            for blk in b.blocks:
                if blk.cleanup:
                    continue
                for st in blk.stmts:
                    if st.kind == "assign" and st.rv.kind == "agg" and st.rv.agg.get("adt") in holders:
                        sites += 1
                        # the constructing function inserts ("", Directory) into a map
                        ok = False
                        tr = get_tracer(facts, b)
                        for blk2 in b.calls():
                            t = blk2.term
                            if short(t.callee() or "") in ("HashMap::insert", "BTreeMap::insert") and len(t.args) == 3:
                                k = norm(tr.operand(t.args[1]))
                                v = norm(tr.operand(t.args[2]))
                                kk = k
                                while kk[0] == "call" and kk[2]:
                                    kk = norm(kk[2][0])
                                empty = kk == ("str", "") or (kk[0] == "call" and kk[1] in ("String::new", "Default::default", "String::default") and not kk[2])
                                if empty and v[0] == "agg" and dict(v[3]).get("file_type", ("",))[0] == "agg" and \
                                        dict(v[3])["file_type"][2] == "Directory":
                                    ok = True
                        n += 1
                        rep.ob(tag + rule, b.id, "the map is built with the root directory in it", ok,
                               "\"\" -> Directory" if ok else "%s builds the filesystem state without inserting the root directory: "
                               "exists(\"\") is false and nothing can be created (every parent is missing)" % b.id, st.line)
        rep.floor("constructions of the in-memory state (%s)" % w_.tag, sites, 1)
    return n


def run(facts, rep, tier, ctx):
    ws = World(facts, False)
    from ..report import Report
    scratch = Report("x")
    found, n, mm = c01.table_m(facts, scratch, "M", "Mk")
    want = {
        "create_dir": ("R03.1", ("parent exists", "target vacant")),
        "create_file": ("R03.1", ("parent exists", "target is not a directory")),
        "append_file": ("R03.1", ("target is a file",)),
        # (a reader handed out for a directory is what the generic copy — the overlay's copy-up — turns into a file over that directory)
        "open_file": ("R03.1", ("target is a file",)),
        "remove_file": ("R03.2", ("target is a file",)),
        "remove_dir": ("R03.2", ("target is a directory", "directory empty")),
        # native same-filesystem transfers (none today): the backend must place entries below a directory itself
        "copy_file": ("R03.1", ("destination's parent",)),
        "move_file": ("R03.1", ("destination's parent",)),
        "move_dir": ("R03.1", ("destination's parent",)),
    }
    cnt = 0
    for o in scratch.obligations:
        if o["rule"] != "M":
            continue
        desc = o["key"].split("|")[2]
        op = desc.split(":")[0]
        if op in want and (any(("'%s" % g) in desc for g in want[op][1]) or desc.endswith(" present")):
            cnt += 1
            rep.ob(want[op][0], o["fn"], desc, o["ok"],
                   o["detail"] if o["ok"] else o["detail"] + " — this is an orphan-maker / type-changer", o["loc"])
    rep.floor("invariant-preservation obligations (MemoryFS)", cnt, 8)
    # parent-is-directory from the path layer (both worlds: the async path type has its own copy of these checks)
    wa = World(facts, True)
    rep.ob("R03.A", "async_vfs", "async world present", wa.present(), "", "")
    worlds = [(ws, "")] + ([(wa, "A/")] if wa.present() else [])
    for w_, tag in worlds:
        pr = PathRules(facts, w_)
        scratch2 = Report("y")
        pr.table_p(scratch2, "P")
        for o in scratch2.obligations:
            d = o["key"].split("|")[2]
            if "parent" in d or "only after the source was opened" in d:
                # a destination created before the source is known to be a file lets a failed copy-up (overlay append_file on
                # a lower-layer directory) shadow that directory with an empty file
                rep.ob(tag + "R03.1", o["fn"], d, o["ok"], o["detail"], o["loc"])
            if "remove_dir_all" in d or "only after the copy" in d:
                # recursive removal must dispatch children by type and remove the directory last, else entries are orphaned
                rep.ob(tag + "R03.2", o["fn"], d, o["ok"], o["detail"], o["loc"])
        # copy_dir / move_dir create every directory through the path type's create_dir (which checks parent-is-directory):
        # a direct backend call would graft the subtree below a file
        scratch5 = Report("g")
        pr.generic_routes(scratch5, "G")
        for o in scratch5.obligations:
            d = o["key"].split("|")[2]
            if "child directory" in d or "create_dir" in d or "present" in d:
                rep.ob(tag + "R03.1g", o["fn"], d, o["ok"], o["detail"], o["loc"])
    if wa.present():
        scratch4 = Report("w")
        c01.table_m(facts, scratch4, "M", "Mk", self_ty=wa.memory, trait="AsyncFileSystem")
        for o in scratch4.obligations:
            if o["rule"] != "M":
                continue
            desc = o["key"].split("|")[2]
            op = desc.split(":")[0]
            if op in want and (any(("'%s" % g) in desc for g in want[op][1]) or desc.endswith(" present")):
                rep.ob("A/" + want[op][0], o["fn"], desc, o["ok"], o["detail"], o["loc"])
    # R03.5s every entry's parent is a directory — in the overlay's union too: file-over-directory shadowing (F36; C09 R09.12)
    from .c10 import _Prefixed as _Pf3s
    for w3s in (ws, wa):
        if w3s.present():
            __import__("analysis.props.c09", fromlist=["shadowing_rules"]).shadowing_rules(facts, rep if not w3s.asyncw else _Pf3s(rep, "A"), w3s, "R03.5s/R09.12")
    # R03.11 create_dir_all creates every missing segment through the backend and tolerates "already a directory" only from the
    # backend's own answer: a remembered "this directory exists" (a cache on the shared VFS object) outlives a remove_dir and lets a
    # directory be created below what has meanwhile become a file (shared with C01 R01.1c / C17 R17.1)
    from ..pathrules import PathRules as _PR3c
    from ..panics import Discharger as _D3c, load_records as _lr3c
    import os as _os3c
    _D3 = _D3c(facts, _lr3c(_os3c.path.join(ctx["V"], "rules", "panic_records.json")))
    from .c10 import _Prefixed as _Pf3c
    for w3c in (ws, wa):
        if w3c.present():
            _PR3c(facts, w3c, _D3).create_dir_all(rep if not w3c.asyncw else _Pf3c(rep, "A"), "R03.11")
    # R03.3 publication; R03.6 the guards above hold *when the mutation happens*: check and mutation of the in-memory
    # backends share one critical section (C16's R16.1 / R16.5 / R16.6) — a guard evaluated under an earlier lock is stale
    from . import c16
    scratch3 = Report("z")
    c16.run(facts, scratch3, tier, ctx)
    for o in scratch3.obligations:
        r_ = o["rule"]
        if r_ == "R16.3":
            rep.ob("R03.3", o["fn"], o["key"].split("|")[2], o["ok"], o["detail"], o["loc"])
        if r_ in ("A/R16.3",):
            rep.ob("A/R03.3", o["fn"], o["key"].split("|")[2], o["ok"], o["detail"], o["loc"])
        if r_.replace("A/", "") in ("R16.1", "R16.5", "R16.6"):
            rep.ob(("A/" if r_.startswith("A/") else "") + "R03.6", o["fn"], o["key"].split("|")[2], o["ok"], o["detail"], o["loc"])
    # R03.4 root: wherever the struct that holds the key -> entry map is built, the map has the root "" as a Directory in it —
    # in every constructor, derived ones included (a derived Default builds an empty map: a filesystem without a root)
    root_rules(facts, rep, "R03.4")
    # R03.5 overlay + delegation
    try:
        from . import c09
        c09.table_u(facts, rep, ws, rule="R03.5", only=("remove_dir", "create_dir", "create_file", "remove_file", "append_file"))
        from . import c10
        c10.marker_rules(facts, rep, ws, prefix="R03.5m", only=("R10.1", "R10.3", "R10.5"))
        # what a listing hides must be exactly what was removed: remove_dir / remove_dir_all decide emptiness and enumerate
        # children through it, so a live child missing from the listing is orphaned by the next removal
        c09.listing_rules(facts, rep, ws, rule="R03.5l")
        c09.relative_join_rules(facts, rep, ws, rule="R03.5j")
        # the union's guards are evaluated on what the resolver reports: it consults the path's deletion marker first, always
        # (a remembered "no markers yet" is wrong for a second overlay over the same layers)
        c09.resolver_rules(facts, rep, ws, "R03.5r")
        if wa.present():
            A = c10._Prefixed(rep, "A")
            c09.table_u(facts, A, wa, rule="R03.5", only=("remove_dir", "create_dir", "create_file", "remove_file", "append_file"))
            c10.marker_rules(facts, A, wa, prefix="R03.5m", only=("R10.1", "R10.3", "R10.5"))
            c09.listing_rules(facts, A, wa, rule="R03.5l")
            c09.relative_join_rules(facts, A, wa, rule="R03.5j")
            c09.resolver_rules(facts, A, wa, "R03.5r")
    except ImportError:
        rep.note("overlay rules (C09) not available yet")
    # R03.9 a view rooted inside another filesystem is well-formed because it answers what that filesystem answers: the altroot's
    # observers hand the inner call's result on unchanged — an `exists` that says "the root is always there" lets a stack on top
    # (an overlay with that altroot as an optional layer) list a root whose layer directory is gone (C07 R07.3)
    from . import c07 as _c07r
    from ..panics import Discharger as _D3, load_records as _lr3
    import os as _os3
    D3 = _D3(facts, _lr3(_os3.path.join(ctx["V"], "rules", "panic_records.json")))
    for w9 in (ws, wa):
        if w9.present():
            scr9 = Report("d")
            _c07r.delegation(facts, scr9, w9, "D", D3)
            for o in scr9.obligations:
                d9 = o["key"].split("|")[2]
                if d9.split(":")[0] in ("exists", "metadata", "read_dir"):
                    rep.ob(("A/" if w9.asyncw else "") + "R03.9", o["fn"], d9, o["ok"], o["detail"], o["loc"])
    # (the overlay's merged listing — which remove_dir's emptiness test reads — asks is_dir(): a failed metadata lookup is an error of
    # the listing, never "not a directory", or a flaky layer drops out and a directory that still has entries there is removed)
    from . import c05 as _c05k3
    for w9 in (ws, wa):
        if w9.present():
            _c05k3.is_kind_rules(facts, _c05k3._P5(rep if not w9.asyncw else c10._Prefixed(rep, "A"), "R03.9k"), w9, D3)
    from . import c06 as _c06f3, c19 as _c19s
    _c06f3.accessor_rules(facts, _c05k3._P5(rep, "R03.9f"), D3)
    # R03.10 a time setter re-times an entry that is there and does nothing else: "touch" semantics (creating the entry when it is
    # missing) puts a file below whatever the parent happens to be — C19 R19.1
    scr10 = Report("s")
    _c19s.run(facts, scr10, "quick", ctx)
    for o in scr10.obligations:
        if o["rule"] in ("R19.1", "A/R19.1"):
            rep.ob(o["rule"].replace("R19.1", "R03.10"), o["fn"], o["key"].split("|")[2], o["ok"], o["detail"], o["loc"])
    # R03.8 on disk the tree is well-formed because the OS keeps it so — as long as the observers describe what the OS means: the
    # physical metadata follows links like exists/read_dir/create_dir do (an lstat makes a linked, non-empty directory "a file")
    from .. import physrules as _ph
    for w8 in (ws, wa):
        if w8.present():
            _ph.table_o_shape(facts, rep, ("A/" if w8.asyncw else "") + "R03.8p", w8)
    # R03.7 the embedded view is a tree by construction of its index (every ancestor of every file is registered, R18.5): that
    # holds for what the observers report only while they answer from the index and nothing else
    if any(b.impl and b.impl["self_ty"].startswith("impls::embedded::") for b in facts.bodies):
        from . import c18
        from ..report import Report as _Rep
        scr = _Rep("z")
        c18.run(facts, scr, "quick", ctx)
        for o in scr.obligations:
            if o["rule"] in ("R18.3", "R18.5"):
                rep.ob("R03.7", o["fn"], o["key"].split("|")[2], o["ok"], o["detail"], o["loc"])
    rep.assume("removal of the root itself is excluded by the property")
