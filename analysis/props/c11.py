"""C11 — recursive and transfer operations are exact, within and across filesystems.

 R11.1 Table P rows of the transfer operations and remove_dir_all (destination guard first, no mutation before
       it, refusal builds an Err; source removed only after the copy; children dispatched by their own type).
 R11.2 route selection: the backend fast path only under Arc::ptr_eq(self.fs, destination.fs), arguments
       (self.path, destination.path) in that order; its Err is kind-switched with NotSupported as the only arm
       that falls through (C20's escape rule, restricted to these functions).
 R11.3 generic routes: stream copy reads self.open_file() into destination.create_file(); copy_dir/move_dir
       create the destination, then per walked item create_dir / copy_file at destination.join(item minus source
       prefix) chosen by the item's own type.
 R11.4 copy_dir's count: one `+= 1` on a u64 per walked item, after the item was copied; the counter is returned.
 R11.5 create_dir_all: attempt-then-tolerate over the prefixes (R17.1/R17.2).
 R11.7 backend fast paths are what they claim (PhysicalFS copy = fs::copy, moves = fs::rename, (src, dest) order;
       AltrootFS::copy_file = delegation R07.3).
 R11.8 the primitives they are built from remove what they say: MemoryFS removal guards (Table M) and the
       overlay's marker protocol (R10.1) — a move "leaves no trace" only if remove_file does.
"""
import os
from ..pathflow import World
from ..pathrules import PathRules
from ..panics import Discharger, load_records
from .. import physrules
from . import c01, c07, c10, c20

EXPLANATION = ("guard-dominance, kind-switch and value-origin analysis over rustc MIR of the composite path operations "
               "(copy/move file and dir, remove_dir_all, create_dir_all) and of the backend fast paths: which route is "
               "taken when, what each route calls on which operand in which order, what is counted, and that the "
               "primitives used for removal really remove. That fast path and generic route produce identical trees is "
               "behavioural and not decided.")


def run(facts, rep, tier, ctx):
    ws = World(facts, False)
    D = Discharger(facts, load_records(os.path.join(ctx["V"], "rules", "panic_records.json")))
    pr = PathRules(facts, ws, D)
    n = pr.table_p(rep, "R11.1")
    rep.floor("Table P obligations", n, 25)
    n = pr.fast_paths(rep, "R11.2")
    rep.floor("fast-path obligations", n, 6)
    n = pr.generic_routes(rep, "R11.3")
    rep.floor("generic-route obligations", n, 16)
    n = pr.copy_dir_count(rep, "R11.4")
    rep.floor("copy_dir counter obligations", n, 4)
    n = pr.create_dir_all(rep, "R11.5")
    rep.floor("create_dir_all obligations", n, 6)
    # copy_dir / move_dir transfer what walk_dir yields: the walk must reach every descendant (shared with C05 R05.3)
    from . import c05 as _c05
    from .c10 import _Prefixed as _Pf
    _c05.walk_rules(facts, _c05._P5(rep, "R11.6"), ws, D)
    # escapes: only NotSupported falls through (re-use C20's classification on the path layer)
    from ..report import Report
    scratch = Report("x")
    c20.run_world(facts, scratch, ws, {"results": 0, "err_edges": 0, "kind_arms": 0})
    k = 0
    for o in scratch.obligations:
        if o["rule"] in ("R20.2", "R20.4") and any(m in o["fn"] for m in ("copy_file", "move_file", "move_dir", "copy_dir", "create_dir_all", "remove_dir_all")):
            k += 1
            rep.ob("R11.2e", o["fn"], o["key"].split("|")[2], o["ok"], o["detail"], o["loc"])
    rep.floor("route-selection error arms", k, 8)
    n = physrules.table_o_shape(facts, rep, "R11.7", ws)
    c07.delegation(facts, rep, ws, "R11.7a", D)
    # R11.8 primitives
    scratch2 = Report("y")
    found, n2, mm = c01.table_m(facts, scratch2, "M", "Mk", ops_filter=("remove_file", "remove_dir") + c01.TWO_PATH_OPS)
    for o in scratch2.obligations:
        if o["rule"] == "M":
            rep.ob("R11.8", o["fn"], o["key"].split("|")[2], o["ok"], o["detail"], o["loc"])
    c10.marker_rules(facts, rep, ws, prefix="R11.8", only=("R10.1", "R10.5", "R10.3"))
    # R11.15 the recursive operations see the tree through read_dir: on an overlay the listing merges every layer that has the
    # directory (a merge that stops early lists a truncated tree: remove_dir_all / copy_dir / move_dir work on part of the subtree)
    from . import c09 as _c09l
    _c09l.listing_rules(facts, rep, ws, rule="R11.15/R09.4")
    # R11.14 a transfer is complete when it returns: the destination handle of the generic copy has published its bytes by the time
    # it is gone (flush / drop publish on every return — not "later", in a spawned task)
    from ..handlerules import Handles as _H11
    _H11(facts, False, D).writer_rules(rep, "R11.14/R04.1", "R11.14/R04.1", "R11.14/R04.1t")
    # "no trace of the source": after a move / remove_dir_all through an overlay the source must be gone for *every* observer, and
    # metadata / open_file / read_dir (hence a second transfer from the old path) go through the resolver without asking exists()
    # first — the resolver itself has to look at the path's deletion marker before any layer (C09 R09.3)
    from . import c09 as _c09r
    _c09r.resolver_rules(facts, rep, ws, rule="R11.8r")
    # remove_dir_all / move_dir on an overlay succeed only while the markers they write are the ones read_dir subtracts: both
    # sides build the marker path relative to the write layer
    from . import c09 as _c09
    _c09.relative_join_rules(facts, rep, ws, rule="R11.9")
    # transfers into an overlay land below directories that may exist only in a lower layer, any number of levels deep: the
    # overlay mirrors the whole parent chain into the write layer
    _c09.materialisation_rules(facts, rep, ws, rule="R11.10")
    # the async path type carries its own copy of every composite
    wa = World(facts, True)
    rep.ob("R11.A", "async_vfs", "async world present", wa.present(), "", "")
    if wa.present():
        A = c10._Prefixed(rep, "A")
        pra = PathRules(facts, wa, D)
        k = pra.table_p(A, "R11.1") + pra.fast_paths(A, "R11.2") + pra.generic_routes(A, "R11.3") + \
            pra.copy_dir_count(A, "R11.4") + pra.create_dir_all(A, "R11.5")
        _c05.walk_rules(facts, _c05._P5(A, "R11.6"), wa, D)
        _c09.relative_join_rules(facts, A, wa, rule="R11.9")
        _c09.materialisation_rules(facts, A, wa, rule="R11.10")
        scratch = Report("xa")
        c20.run_world(facts, scratch, wa, {"results": 0, "err_edges": 0, "kind_arms": 0})
        for o in scratch.obligations:
            if o["rule"] in ("R20.2", "R20.4") and any(m in o["fn"] for m in ("copy_file", "move_file", "move_dir", "copy_dir", "create_dir_all", "remove_dir_all")):
                k += 1
                A.ob("R11.2e", o["fn"], o["key"].split("|")[2], o["ok"], o["detail"], o["loc"])
        k += physrules.table_o_shape(facts, A, "R11.7", wa)
        k += c07.delegation(facts, A, wa, "R11.7a", D)
        scratch2 = Report("ya")
        c01.table_m(facts, scratch2, "M", "Mk", self_ty=wa.memory, trait="AsyncFileSystem",
                    ops_filter=("remove_file", "remove_dir") + c01.TWO_PATH_OPS)
        for o in scratch2.obligations:
            if o["rule"] == "M":
                k += 1
                A.ob("R11.8", o["fn"], o["key"].split("|")[2], o["ok"], o["detail"], o["loc"])
        k += c10.marker_rules(facts, A, wa, prefix="R11.8", only=("R10.1", "R10.5", "R10.3"))
        k += _c09r.resolver_rules(facts, A, wa, rule="R11.8r")
        k += _c09l.listing_rules(facts, A, wa, rule="R11.15/R09.4")
        _H11(facts, True, D).writer_rules(A, "R11.14/R04.1", "R11.14/R04.1", "R11.14/R04.1t")
        rep.floor("async-world transfer obligations", k, 120)
    # R11.11 a copy whose source is the embedded (read-only) backend copies what that backend lists and serves: its directory index
    # registers every ancestor of every file exactly once, under its own parent, and the observers answer from the index only
    # (C18 R18.3/R18.5) — a bogus root entry makes walk_dir visit a subtree twice and copy_dir fail half-way
    if any(b_.impl and b_.impl["self_ty"].startswith("impls::embedded::") for b_ in facts.bodies):
        from . import c18 as _c18e
        scr_e = Report("z")
        _c18e.run(facts, scr_e, "quick", ctx)
        for o in scr_e.obligations:
            if o["rule"] in ("R18.3", "R18.5"):
                rep.ob("R11.11", o["fn"], o["key"].split("|")[2], o["ok"], o["detail"], o["loc"])
    # R11.12 the walks that copy_dir / move_dir / remove_dir_all make list through the adapters, which rebuild every listed name with
    # `filename()` (the part after the last '/', nothing else is a separator), and decide "absent" with the path type's exists() —
    # the backend's answer for that path, the root included (C06 R06.7, C05 R05.2)
    from . import c06 as _c06f, c05 as _c05k
    _c06f.accessor_rules(facts, _c05k._P5(rep, "R11.12f"), D)
    for w12 in (ws, World(facts, True)):
        if w12.present():
            from .c10 import _Prefixed as _Pf12
            _c05k.is_kind_rules(facts, _c05k._P5(rep if not w12.asyncw else _Pf12(rep, "A"), "R11.12k"), w12, D)
    # R11.13 the walks of copy_dir / remove_dir_all list what is there: the in-memory listing keeps exactly the keys below `dir + "/"`
    # (a range scan that stops at the first key not starting with the prefix loses children behind a sibling like `dir.json`), and a
    # refused native two-path operation leaves the map as it was (the source is not taken out before the destination is known to be
    # acceptable) — C05 R05.4, C01 R01.3
    for w13 in (ws, World(facts, True)):
        if not w13.present():
            continue
        from .c10 import _Prefixed as _Pf13
        _c05k.memory_listing_rules(facts, _c05k._P5(rep if not w13.asyncw else _Pf13(rep, "A"), "R11.13l"), w13, D)
        scr13 = Report("f")
        f13, n13, mm13 = c01.table_m(facts, scr13, "M", "Mk", self_ty=w13.memory, trait=w13.trait.rsplit("::", 1)[1],
                                     ops_filter=("remove_file", "remove_dir") + c01.TWO_PATH_OPS, atomic=True)
        c01.failed_primitive_unchanged(facts, scr13, "F", mm13)
        for o in scr13.obligations:
            if o["rule"] == "F" or (o["rule"] == "M" and "destination vacant" in o["key"]):
                rep.ob(("A/" if w13.asyncw else "") + "R11.13f", o["fn"], o["key"].split("|")[2], o["ok"], o["detail"], o["loc"])
    # (the segment loop of create_dir_all visits every separator and the end of the path: its slicing sites keep the reviewed
    # cursor shape — a loop bound that stops one byte early never creates a final one-byte component yet answers Ok; C13 records)
    from . import c13 as _c13p
    _c13p.sites_for(facts, rep, ctx["V"], "R11.5p", lambda r: r.name == "create_dir_all")
    # R11.16 copy_dir / move_dir compute every destination with join(): it drops or rewrites no component other than '', '.' and '..'
    # (a name of three dots that vanishes sends an entry onto its parent's destination: "Destination exists" half way) — C06 R06.2/R06.3
    from . import c06 as _c06j
    from .c10 import _Prefixed as _Pf11j
    _c06j.joiner_rules(facts, _Pf11j(rep, "R11.16"), D)
    rep.assume("copy_dir/move_dir into the source's own subtree is excluded by the property")
