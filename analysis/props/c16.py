"""C16 — MemoryFS is linearizable under concurrent use (sufficient lock-region conditions).

 R16.1 one critical section per operation: in every FileSystem method of MemoryFS no path contains two
       lock events (a direct acquisition, or a call to an in-crate function that acquires) — the
       operation then takes effect atomically inside its single region.  Reviewed exceptions: R16.4.
 R16.2 no self-deadlock: no lock event is reachable while a guard of the lock is live (std RwLock is not
       re-entrant and a queued writer blocks later readers), including through callees and closures; no
       guard escapes its function; no call into foreign code (dyn, indirect) while a guard is live.
       No undischarged panic site inside a region (poisoning) — shared with C13 (D9).
 R16.3 handle publication is an operation too: the writer's flush/drop is one write-locked region and the
       insert is guarded by a re-validation of the entry (still present and a file).
 R16.4 reviewed exceptions with a one-line reason each.
"""
import os
from ..terms import get_tracer, fmt, strip, short
from ..inter import Inter
from ..locks import LockSummary, is_guard_ty
from ..panics import Discharger, load_records, inventory, norm

EXPLANATION = ("lock-region analysis over rustc MIR of impls/memory.rs: acquisitions of the filesystem RwLock, the live "
               "range of each guard, lock events reachable inside a live region (re-entrancy), number of critical sections "
               "per FileSystem operation (atomicity), publication re-validation in the writer. A sufficient condition "
               "for linearizability under all schedules; compositions made by the path layer are not covered.")

# R16.4 — (method, first event, second event): reason
EXCEPTIONS = {
    ("open_file", "call set_access_time", "acquire read"):
        "the access-time bump is not observed by the lookup that follows; every interleaving between the two regions is "
        "equivalent to one where the other thread ran entirely before or after",
}

MEMORY = "impls::memory::MemoryFS"
TRAIT = "FileSystem"


def event_name(kind, detail):
    if kind == "acquire":
        return "acquire %s" % detail.mode
    return "call %s" % detail.name


def _awaits_ready_future(facts, b, tr, ybb):
    """the future awaited at this yield is an operation on an in-memory Cursor (async_std::io::Cursor completes every
    read/write/seek on the first poll: the await never suspends)"""
    doms = tr.cfg.dominating_blocks(ybb)
    for d in doms:   # nearest first
        t = b.blocks[d].term
        if t.kind == "call" and short(t.callee() or "") == "IntoFuture::into_future" and t.args:
            x = strip(tr.operand(t.args[0]))
            if x[0] == "call" and isinstance(x[1], str) and short(x[1]).split("::")[0] in ("SeekExt", "ReadExt", "WriteExt", "AsyncSeekExt", "AsyncReadExt", "AsyncWriteExt") and x[2]:
                site = x[3] if len(x) > 3 else None
                if site and site[0] == b.id:
                    ct = b.blocks[site[1]].term
                    a0 = ct.args[0] if ct.args else None
                    if a0 is not None and a0.place is not None and a0.place.is_local():
                        ty = b.local_ty(a0.place.local)
                        return "Cursor<" in ty
            return False
    return False


def run(facts, rep, tier, ctx):
    from ..pathflow import World
    run_world(facts, rep, tier, ctx, World(facts, False), rep)
    wa = World(facts, True)
    rep.ob("R16.A", "async_vfs", "async world present", wa.present(), "", "")
    if wa.present():
        # the async in-memory backend: same rules on async_std's RwLock (guards held across .await included)
        from .c10 import _Prefixed
        run_world(facts, _Prefixed(rep, "A"), tier, ctx, wa, rep)
    # R16.3p publication happens-before the return of flush/drop (both worlds): a publication that is skipped or handed
    # to a detached task when the lock is busy loses the update for the writer's own later calls
    from ..handlerules import Handles
    from ..report import Report
    D = Discharger(facts, load_records(os.path.join(ctx["V"], "rules", "panic_records.json")))
    for asyncw in (False, True):
        w_ = World(facts, asyncw)
        if not w_.present():
            continue
        h = Handles(facts, asyncw, D)
        # an open+read is one observation of the file: the read handle works on a private snapshot (no lock, no map access)
        h.handle_surface_rules(rep, ("A/" if asyncw else "") + "R16.7")
        scratch = Report("x")
        h.writer_rules(scratch, "P", "x", "y")
        k = 0
        for o in scratch.obligations:
            if o["rule"] == "P":
                k += 1
                rep.ob(("A/" if asyncw else "") + "R16.3p", o["fn"], o["key"].split("|")[2], o["ok"], o["detail"], o["loc"])
            # "no update is lost": what a publication carries over from the stored entry (its other time stamps) is read from
            # the entry inside the publishing critical section, not remembered from when the handle was opened
            if o["rule"] == "y":
                rep.ob(("A/" if asyncw else "") + "R16.3t", o["fn"], o["key"].split("|")[2], o["ok"], o["detail"], o["loc"])
        rep.floor("publication obligations (%s)" % w_.tag, k, 5)
    # "nothing panics": the handles' own code (Drop publishes through flush and unwraps its result) has no undischarged panic
    # site — shared with C13/C14
    from . import c13 as _c13
    _c13.sites_for(facts, rep, ctx["V"], "R16.p", lambda r: bool(r.impl) and ("ReadableFile" in r.impl["self_ty"] or "WritableFile" in r.impl["self_ty"]))
    # R16.6 operations that hand out a handle do not leave an intermediate state behind: append_file does not touch the stored
    # entry, and a write handle (whose Drop publishes) is only built once nothing can fail any more — shared with C01 (Table M,
    # R01.3)
    from . import c01
    for asyncw in (False, True):
        w_ = World(facts, asyncw)
        if not w_.present():
            continue
        scratch = Report("m")
        found, n_, mm_ = c01.table_m(facts, scratch, "M", "Mk", self_ty=w_.memory, trait=w_.trait.rsplit("::", 1)[1], ops_filter=("append_file",))
        c01.failed_primitive_unchanged(facts, scratch, "F", mm_)
        k = 0
        for o in scratch.obligations:
            d = o["key"].split("|")[2]
            if "the stored entry is not modified" in d or "write handle was built" in d:
                k += 1
                rep.ob(("A/" if asyncw else "") + "R16.6", o["fn"], d, o["ok"], o["detail"], o["loc"])
        # what each critical section establishes before it mutates (Table M): a sequential execution refuses a create below
        # a missing parent, so must the operation inside its single region
        scratch = Report("t")
        c01.table_m(facts, scratch, "M", "Mk", self_ty=w_.memory, trait=w_.trait.rsplit("::", 1)[1], atomic=True)
        for o in scratch.obligations:
            if o["rule"] == "M":
                rep.ob(("A/" if asyncw else "") + "R16.8", o["fn"], o["key"].split("|")[2], o["ok"], o["detail"], o["loc"])
        rep.floor("hand-out obligations (%s)" % w_.tag, k, 3)
        # open + read returns a value the file had at some point: the convenience reader takes what the handle yields up to
        # its end, not a number of bytes fixed by an earlier, separate metadata() call
        from . import c04 as _c04
        from .c10 import _Prefixed as _Pf
        _c04.read_to_string_rules(facts, _Pf(rep, "A") if asyncw else rep, w_, D, "R16.9")
        # R16.10 the observers of the call alphabet (exists, metadata, read_dir, open) reach the filesystem through the path type: each
        # of them is ONE backend call — its result is then that call's result at one point in time.  A second look at the filesystem
        # from the same observer (a listing whose entries are re-validated one by one with exists(), lazily, as the iterator is
        # consumed) combines states of several points in time into an answer no sequential execution gives
        from ..pathflow import OBSERVING as _OBS, MUTATING as _MUT
        from ..pathrules import sname as _sn
        pm = w_.path_methods()
        k10 = 0
        inter = Inter(facts)
        tname = w_.trait.rsplit("::", 1)[1]
        for nm in ("exists", "metadata", "read_dir", "open_file"):
            pb = pm.get(nm)
            if pb is None:
                continue
            backend, extra = [], []
            for cb in inter.code_bodies(pb):
                for s_ in inter.sites(cb):
                    n_ = _sn(s_.path)
                    if (s_.trait or "").endswith(tname) and (n_ in _OBS or n_ in _MUT):
                        backend.append((n_, s_.line))
                    elif (s_.self_ty or "").endswith(w_.path_ty.rsplit("::", 1)[1]) and (n_ in _OBS or n_ in _MUT or n_ in ("is_file", "is_dir", "walk_dir", "read_to_string")):
                        extra.append((n_, s_.line))
            ok10 = len(backend) == 1 and backend[0][0] == nm and not extra
            k10 += 1
            rep.ob(("A/" if asyncw else "") + "R16.10", pb.id, "%s is a single backend call" % nm, ok10, "" if ok10 else
                   "%s looks at the filesystem more than once (backend calls %s, path-level calls %s): under concurrent updates its "
                   "answer mixes several states" % (nm, [x[0] for x in backend], [x[0] for x in extra]), pb.span)
        rep.floor("path-level observers of the alphabet judged (%s)" % w_.tag, k10, 4)
    rep.assume("every access to the map goes through a guard (enforced by the type system: the map lives inside the RwLock)")
    rep.assume("per-call linearizability only: compositions in the path layer (get_parent + create_dir) are separate calls by design")


def run_world(facts, rep, tier, ctx, w, rep0):
    asyncw = w.asyncw
    MEMORY = w.memory
    TRAIT = w.trait.rsplit("::", 1)[1]
    inter = Inter(facts)
    ls = LockSummary(facts, inter)
    ops = facts.impl_methods(TRAIT, MEMORY)
    rep.floor("FileSystem methods of the in-memory backend (%s)" % w.tag, len(ops), 9 if asyncw else 12)
    n_acq = 0
    n_regions_checked = 0
    # all bodies of the memory module that take part (methods, helpers, handle impls, closures)
    mem_bodies = [b for b in facts.bodies if b.file.endswith("impls/memory.rs") and (("async_vfs" in b.file) == asyncw)
                  and not (b.impl and b.impl.get("derived"))]
    for b in mem_bodies:
        li = ls.info(b)
        tr = get_tracer(facts, b)
        for a in li.acqs:
            n_acq += 1
            n_regions_checked += 1
            # guard must not escape
            rep.ob("R16.2", b.id, "guard of %s stays local" % ("%s-lock" % a.mode), not a.escapes,
                   "the lock guard is moved out of the function or could not be followed; its critical section is unbounded"
                   if a.escapes else "guard dropped in %d place(s)" % len(a.drops), a.line)
            # an async guard must not be held across a suspension point: the task parks with the lock held, and the writer's
            # Drop acquires the same lock *blocking* (block_on) — on the same executor thread that is a deadlock
            if a.is_async:
                ys = [bb for bb in sorted(a.region) if b.blocks[bb].term.kind == "yield" and not _awaits_ready_future(facts, b, tr, bb)]
                rep.ob("R16.2", b.id, "%s guard is not held across an await" % a.mode, not ys,
                       "no suspension point inside the region" if not ys else
                       "the %s guard taken at %s is still alive at an .await (%s): the task can be suspended while holding the "
                       "filesystem lock; a blocking acquisition from another task on the same thread (AsyncWritableFile::drop) "
                       "then never returns" % (a.mode, a.line, b.blocks[ys[0]].term.line), b.blocks[ys[0]].term.line if ys else a.line)
            # events inside the region
            for bb in sorted(a.region):
                blk = b.blocks[bb]
                t = blk.term
                if t.kind != "call":
                    continue
                if bb == a.bb:
                    continue
                sh = short(t.callee()) if t.callee() else "<indirect>"
                # direct re-acquisition
                for a2 in li.acqs:
                    if a2.bb == bb and a2 is not a:
                        rep.fail("R16.2", b.id, "re-lock (%s) under live %s guard" % (a2.mode, a.mode),
                                 "the lock is acquired again while the guard taken at %s is still alive: std RwLock is not "
                                 "re-entrant (deadlock, or deadlock as soon as a writer queues in between)" % a.line, t.line)
                # callee that acquires
                for s in inter.sites(b):
                    if s.bb != bb:
                        continue
                    c = inter.local_callee(s)
                    if c is not None and ls.acquires(c):
                        rep.fail("R16.2", b.id, "call %s (acquires) under live %s guard" % (c.name, a.mode),
                                 "%s acquires the filesystem lock and is called while the guard taken at %s is alive" % (c.id, a.line), t.line)
                    if c is None and (s.rkind in ("virtual", "indirect")):
                        rep.fail("R16.2", b.id, "foreign call %s under live guard" % s.short,
                                 "a dynamically dispatched / indirect call runs inside the critical section", t.line)
                # closures passed to std combinators inside the region: their bodies run under the lock
                for arg in t.args:
                    x = strip(tr.operand(arg))
                    for y in (x[1] if x[0] == "phi" else (x,)):
                        if y[0] == "closure":
                            cb = facts.body(y[1])
                            if cb is not None and ls.acquires(cb):
                                rep.fail("R16.2", b.id, "closure acquiring the lock under live guard",
                                         "closure %s runs inside the critical section and acquires the lock" % cb.id, t.line)
    rep.floor("lock acquisitions in impls/memory.rs (%s)" % w.tag, n_acq, 8 if asyncw else 10)

    # R16.1 one critical section per operation
    for name, b0 in sorted(ops.items()):
        b = inter.code_body(b0)
        ev = ls.events(b)
        tr = get_tracer(facts, b)
        cfg = tr.cfg
        pairs = []
        for i, (bb1, k1, d1) in enumerate(ev):
            for j, (bb2, k2, d2) in enumerate(ev):
                if i == j:
                    if cfg.strictly_reaches(bb1, bb1):
                        pairs.append(((bb1, k1, d1), (bb2, k2, d2)))
                    continue
                if cfg.strictly_reaches(bb1, bb2):
                    pairs.append(((bb1, k1, d1), (bb2, k2, d2)))
        if not ev:
            rep.fail("R16.1", b.id, "operation acquires the lock", "no lock event found in a MemoryFS operation (map access without lock?)", b.span)
            continue
        if not pairs:
            rep.ob("R16.1", b.id, "single critical section", True, "%d lock event(s), no two on one path" % len(ev), b.span)
        for (e1, e2) in pairs:
            n1, n2 = event_name(e1[1], e1[2]), event_name(e2[1], e2[2])
            exc = EXCEPTIONS.get((name, n1, n2))
            line = b.blocks[e2[0]].term.line
            if exc:
                rep.ob("R16.4", b.id, "%s then %s" % (n1, n2), True, "reviewed exception: " + exc, line)
            else:
                rep.ob("R16.1", b.id, "%s then %s" % (n1, n2), False,
                       "two critical sections on one path: the operation releases the lock after '%s' and takes it again "
                       "for '%s'; another thread can run in between (check-then-act)" % (n1, n2), line)

    # R16.5 a removal is decided inside its own critical section: either a lookup of the same key made under the same
    # guard dominates it, or its own outcome (Some/None) decides the result.  (A check made in an earlier region — e.g.
    # through a callee that locks for itself — can be stale by the time the write lock is held: two racing removals
    # would both report success.)
    from ..terms import walk
    n5 = 0
    for name, b0 in sorted(ops.items()):
        b = inter.code_body(b0)
        li = ls.info(b)
        tr = get_tracer(facts, b)
        for blk in b.calls():
            sh = short(blk.term.callee() or "")
            is_ins = sh in ("HashMap::insert", "VacantEntry::insert", "Entry::or_insert", "Entry::or_insert_with")
            if sh not in ("HashMap::remove", "HashMap::remove_entry") and not is_ins:
                continue
            region = set()
            for a in li.acqs:
                if blk.idx in a.region or a.bb == blk.idx:
                    region |= a.region
                    region.add(a.bb)
            local = False
            for g in tr.guards_at(blk.idx):
                for x in walk(g[1]):
                    if x[0] == "call" and isinstance(x[1], str) and short(x[1]) in ("HashMap::get", "HashMap::get_mut", "HashMap::contains_key", "HashMap::entry") \
                            and len(x) > 3 and x[3] and x[3][0] == b.id and x[3][1] in region:
                        local = True
            if is_ins and not local:
                # a type check on both arms of `if let Some(e) = map.get(k)` does not dominate: accept a lookup made under the
                # same guard on every path to the insert
                sets = tr.path_guard_sets(blk.idx)
                if sets is not None and sets:
                    local = all(any(x[0] == "call" and isinstance(x[1], str) and short(x[1]) in ("HashMap::get", "HashMap::get_mut", "HashMap::contains_key", "HashMap::entry")
                                    and len(x) > 3 and x[3] and x[3][0] == b.id and x[3][1] in region
                                    for g in gs for x in walk(g[1])) for gs in sets)
            own = False
            for blk2 in b.blocks:
                if blk2.cleanup or blk2.term.kind != "switch":
                    continue
                dt = tr.operand(blk2.term.discr)
                if any(x[0] == "call" and len(x) > 3 and x[3] == (b.id, blk.idx) for x in walk(dt)):
                    own = True
            n5 += 1
            if is_ins:
                rep.ob("R16.5", b.id, "insertion decided inside its own critical section", local,
                       "occupancy looked up under the same guard" if local else
                       "the map insertion is not preceded by a lookup of the map under the same guard: the vacancy / type check "
                       "was made in an earlier critical section and can be stale (lost update or a directory overwritten)", blk.term.line)
                continue
            rep.ob("R16.5", b.id, "removal decided inside its own critical section", local or own,
                   "lookup under the same guard" if local else "the removal's own outcome is checked" if own else
                   "HashMap::remove is neither dominated by a lookup made under the same guard nor is its result checked: the "
                   "existence check happened in an earlier critical section, so two racing calls both report success "
                   "(no sequential order explains two successful removals of one entry)", blk.term.line)
    rep.floor("mutation sites checked for in-region decision", n5, 4)

    # R16.3 publication re-validates
    # the function of the writer type that inserts into the map (flush / drop itself, or a private helper they call);
    # obligations are filed under the entry point
    pubs = []
    for b in mem_bodies:
        if b.impl and b.impl["self_ty"].endswith("WritableFile") and b.kind != "Closure" and \
                any(short(x.term.callee() or "") == "HashMap::insert" for x in b.calls()):
            pubs.append(b)
    rep.floor("writer publication functions (%s)" % ("drop" if asyncw else "flush"), len(pubs), 1)
    D = Discharger(facts, load_records(os.path.join(ctx["V"], "rules", "panic_records.json")))
    for b in pubs:
        li = ls.info(b)
        tr = get_tracer(facts, b)
        wr = [a for a in li.acqs if a.mode == "write"]
        bkey = D.owner_id(b)
        rep.ob("R16.3", bkey, "publication takes the write lock exactly once", len(li.acqs) == 1 and len(wr) == 1,
               "%d acquisitions (%d write)" % (len(li.acqs), len(wr)), b.span)
        for blk in b.calls():
            t = blk.term
            if short(t.callee() or "") == "HashMap::insert":
                inreg = any(blk.idx in a.region for a in wr)
                gs = D.guards(b, blk.idx)
                # re-validation: a dominating branch on the presence/type of the destination entry
                reval = False
                for g in gs:
                    txt = repr(g)
                    if g[0] == "variant" and ("HashMap::get" in txt or "HashMap::get_mut" in txt or "HashMap::entry" in txt):
                        reval = True
                    if g[0] == "bool" and "HashMap::contains_key" in txt:
                        reval = True
                rep.ob("R16.3", bkey, "insert inside the write region", inreg, "", t.line)
                rep.ob("R16.3", bkey, "publication re-validates the entry", reval,
                       "re-validated" if reval else
                       "flush inserts the buffer unconditionally: if the file (or its parent directory) was removed, or "
                       "replaced by a directory, since the handle was created, the insert resurrects it / overwrites it — "
                       "an orphan or a lost update under some schedule (and sequentially with a late drop)", t.line)

    # panic under lock (shared with C13)
    bad = D.panics_under_lock(async_locks=asyncw)
    rep.ob("R16.2", MEMORY, "no undischarged panic site inside a lock region", not bad,
           "; ".join("%s at %s" % (s.desc, s.line) for (_, s, _) in bad[:4]) if bad else "lock can never be poisoned", "")
