"""C06 — path joining is total, canonical and cannot climb above the root.

 R06.1 totality: no undischarged panic site in PathLike's provided methods nor in join/parent/root/is_root/eq/
       filename/extension/as_str of VfsPath and AsyncVfsPath (C13 machinery).
 R06.2 canonical components: the only push onto the component stack is dominated by component != ".",
       component != "" and component != ".." on the same value; every Ok return of the joiner is either the
       unchanged base (empty argument) or the string assembled from the base by appending "/" + component for
       the stacked components — nothing else writes the result.
 R06.3 the base: "" exactly on the starts_with('/') edge, the receiver's path otherwise; the only other
       assignment is parent_internal(base) on the (".." ∧ stack empty) edge; parent_internal can only shorten
       (path[..rfind('/')] or "").
 R06.4 rejection: Err(InvalidPath) exactly on the (len > 1 ∧ ends_with('/')) edge, before any component is
       processed; no other Err exit.
 R06.5 one implementation: no impl overrides a provided PathLike method; join/parent/filename/extension of both
       path types pass their own path to the *_internal default and wrap the result with the same fs.
 R06.6 equality: eq conjoins string equality of the two path fields with Arc::ptr_eq of the two fs fields.
 R06.7 filename/extension: filename = path[rfind('/')+1..]; extension is computed from the filename only.
"""
import os
from ..terms import get_tracer, fmt, strip, short, walk, passthrough_of
from ..inter import Inter
from ..panics import Discharger, inventory, load_records, norm, unchecked_arith
from ..pathrules import sname, peel

EXPLANATION = ("guard-dominance and value-origin analysis over rustc MIR of PathLike::join_internal and the accessors: "
               "component filter, base selection, rejection edge, result assembly, single implementation, equality. "
               "Necessary conditions for canonical form and confinement at the root (what C07 relies on); that the "
               "output equals the lexical resolution for every string (and the composition law) is functional "
               "correctness over all strings and is not decided.")

TRAIT = "path::PathLike"


def provided(facts, name):
    for b in facts.bodies:
        if b.trait_item_of == TRAIT and b.name == name and b.kind != "Closure":
            return b
    return None


def is_lit(t, s):
    return t == ("str", s)


def joiner_rules(facts, rep, D):
    b = provided(facts, "join_internal")
    if b is None:
        rep.fail("R06.2", TRAIT, "join_internal present", "provided method missing")
        return 0
    tr = get_tracer(facts, b)
    n = 0
    arg_in, arg_path = ("arg", 1), ("arg", 2)

    def is_arg(t, i):
        t = norm(t)
        return t[0] == "arg" and t[1] == i

    # ---- R06.2 pushes
    pushes = [blk for blk in b.calls() if short(blk.term.callee() or "") in ("Vec::push", "Vec::insert", "VecDeque::push_back", "Vec::extend")]
    n += 1
    rep.ob("R06.2", b.id, "component stack has a push site", len(pushes) >= 1, "%d" % len(pushes), b.span)
    for blk in pushes:
        t = blk.term
        comp = norm(tr.operand(t.args[1]))
        gs = D.guards(b, blk.idx)
        need = {".": False, "..": False, "": False}
        for g in gs:
            if g[0] == "bool" and g[1][0] == "call":
                c = g[1]
                if c[1] in ("PartialEq::eq", "PartialEq::ne") and len(c[2]) == 2 and c[2][0] == comp and c[2][1][0] == "str":
                    neq = (g[2] is False) if c[1] == "PartialEq::eq" else (g[2] is True)
                    if neq and c[2][1][1] in need:
                        need[c[2][1][1]] = True
                if c[1] == "str::is_empty" and c[2] and c[2][0] == comp and g[2] is False:
                    need[""] = True
        # the component is an element of split(path, '/')
        from_split = any(x[0] == "call" and x[1] == "str::split" and len(x[2]) == 2 and is_arg(x[2][0], 2) and x[2][1] == ("char", "/")
                         for x in walk(comp))
        n += 4
        for k, label in ((".", "'.'"), ("..", "'..'"), ("", "the empty component")):
            rep.ob("R06.2", b.id, "push guarded by component != %s" % label, need[k], "" if need[k] else
                   "a component equal to %s can be pushed onto the result: the joined path is not canonical" % label, t.line)
        rep.ob("R06.2", b.id, "pushed component is an element of path.split('/')", from_split, fmt(comp)[:60], t.line)
    # ---- R06.2b result assembly: every Ok return
    inter = D.inter
    fold_closures = []
    for ct, gs0, bb in inter.ret_cases(b):
        pol = inter.case_polarity(ct)
        if pol == "err":
            continue
        v = norm(ct[3][0][1]) if ct[0] == "agg" and ct[3] else norm(ct)
        gs = D.guards(b, bb)
        alts_ = v[1] if v[0] == "phi" else (v,)
        empty_arg = any(g[0] == "bool" and g[2] is True and g[1][0] == "call" and g[1][1] == "str::is_empty" and is_arg(g[1][2][0], 2) for g in gs)
        if empty_arg:
            ok = all(is_arg(a, 1) for a in alts_)
            why = "base returned unchanged for an empty argument"
        else:
            # assembled string: alternatives are the base definitions (in_path | "" | parent_internal(..))
            ok = True
            def base_like(a0):
                if is_arg(a0, 1) or a0 == ("str", ""):
                    return True
                return a0[0] == "call" and sname(a0[1]) == "parent_internal"
            for a in alts_:
                a0 = a
                if base_like(a0):
                    continue
                # `stack.into_iter().fold(base, |acc, c| { acc += "/"; acc += c; acc })`: the base threaded through the appends
                # (what the closure appends is judged with the other append sites below)
                if a0[0] == "call" and a0[1] == "Iterator::fold" and len(a0[2]) == 3 and strip(a0[2][2])[0] == "closure" and \
                        all(base_like(i0) for i0 in (norm(a0[2][1])[1] if norm(a0[2][1])[0] == "phi" else (norm(a0[2][1]),))):
                    fold_closures.append(strip(a0[2][2])[1])
                    continue
                ok = False
            why = "assembled from the base"
            # and the loop over the stacked components has passed (dominated by split exhausted)
            done = any(g[0] == "variant" and g[3] == "None" and peel(g[1])[0] == "call" and sname(peel(g[1])[1]) == "next" for g in gs)
            ok = ok and done
        n += 1
        rep.ob("R06.2", b.id, "Ok return value is the base or the assembled string", ok, why if ok else
               "join_internal can return %s without going through component filtering: '.', '..' or empty components "
               "reach the backends" % fmt(v)[:80], b.blocks[bb].term.line)
    # writers of the result: add_assign pieces are "/" and a stacked component
    pieces_ok = True
    npieces = 0
    for blk in b.calls():
        t = blk.term
        if short(t.callee() or "") in ("AddAssign::add_assign", "String::push_str", "String::push"):
            npieces += 1
            piece = norm(tr.operand(t.args[1]))
            if piece == ("str", "/") or piece == ("char", "/"):
                continue
            if peel(piece)[0] == "call" and sname(peel(piece)[1]) == "next":
                continue
            pieces_ok = False
    for cid in fold_closures:
        fc = facts.body(cid)
        if fc is None:
            pieces_ok = False
            continue
        trc = get_tracer(facts, fc)
        for blk in fc.calls():
            t = blk.term
            if short(t.callee() or "") in ("AddAssign::add_assign", "String::push_str", "String::push"):
                npieces += 1
                piece = norm(trc.operand(t.args[1]))
                if piece == ("str", "/") or piece == ("char", "/"):
                    continue
                # the element parameter of the fold closure (env, accumulator, element)
                if piece[0] == "arg" and piece[1] == 2 and len(piece) > 3 and piece[3] == fc.id:
                    continue
                pieces_ok = False
    n += 1
    rep.ob("R06.2", b.id, "result is extended only by '/' and stacked components", pieces_ok and npieces >= 2,
           "%d append site(s)" % npieces, b.span)
    # ---- R06.3 base
    # find the local holding the base: the one whose defs include to_string(in_path) and to_string("")
    base_local = None
    for l, ds in tr.defs.items():
        vals = []
        for kind, bb, idx in ds:
            if kind == "call":
                t = b.blocks[bb].term
                vals.append((bb, short(t.callee() or ""), [norm(tr.operand(a)) for a in t.args]))
            elif kind == "assign":
                vals.append((bb, "assign", [norm(tr.rvalue(b.blocks[bb].stmts[idx].rv, frozenset()))]))
        if any(v[2] and v[2][0] == ("str", "") for v in vals) and any(v[2] and is_arg(v[2][0], 1) for v in vals):
            base_local = (l, vals)
    if base_local is None:
        rep.fail("R06.3", b.id, "base selection recognised", "no local is initialised from both \"\" and the receiver's path", b.span)
    else:
        l, vals = base_local
        for bb, how, args in vals:
            gs = D.guards(b, bb)
            sw = None
            for g in gs:
                if g[0] == "bool" and g[1][0] == "call" and g[1][1] == "str::starts_with" and is_arg(g[1][2][0], 2) and g[1][2][1] == ("char", "/"):
                    sw = g[2]
            if args and args[0] == ("str", ""):
                n += 1
                rep.ob("R06.3", b.id, "base is \"\" exactly on the starts_with('/') edge", sw is True, "" if sw is True else
                       "the empty base is not selected under path.starts_with('/')", b.blocks[bb].term.line)
            elif args and is_arg(args[0], 1):
                n += 1
                rep.ob("R06.3", b.id, "base is the receiver's path only when the argument is relative", sw is False, "" if sw is False else
                       "the receiver's path is used as base although the argument may start with '/': an absolute "
                       "argument does not restart at the root", b.blocks[bb].term.line)
        # other definitions of the base local: only parent_internal(base) under ".." ∧ stack empty
        for kind, bb, idx in tr.defs[l]:
            if kind == "call":
                t = b.blocks[bb].term
                v = ("call", short(t.callee() or ""), tuple(norm(tr.operand(a)) for a in t.args), None)
                line = t.line
            elif kind == "assign":
                v = norm(tr.rvalue(b.blocks[bb].stmts[idx].rv, frozenset()))
                line = b.blocks[bb].stmts[idx].line
            else:
                continue
            vs = v[1] if v[0] == "phi" else (v,)
            for x in vs:
                if x == ("str", "") or is_arg(x, 1):
                    continue
                if x[0] == "call" and sname(x[1]) in ("to_string", "to_owned", "from", "new") and x[2] and (x[2][0] == ("str", "") or is_arg(x[2][0], 1)):
                    continue
                gs = D.guards(b, bb)
                dd = any(g[0] == "bool" and g[2] is True and g[1][0] == "call" and g[1][1] == "PartialEq::eq" and g[1][2][1] == ("str", "..") for g in gs)
                em = any(g[0] == "bool" and g[2] is True and g[1][0] == "call" and g[1][1] == "Vec::is_empty" for g in gs) or \
                    any(g[0] == "bool" and g[1][0] == "call" and g[1][1] in ("Option::is_none", "Option::is_some") and
                        g[2] is (g[1][1] == "Option::is_none") and g[1][2] and g[1][2][0][0] == "call" and g[1][2][0][1] == "Vec::pop" for g in gs) or \
                    any(g[0] == "variant" and g[3] == "None" and peel(g[1])[0] == "call" and peel(g[1])[1] == "Vec::pop" for g in gs)
                isp = x[0] == "call" and sname(x[1]) == "parent_internal"
                n += 1
                rep.ob("R06.3", b.id, "base shortened only by parent_internal on ('..' and empty stack)", isp and dd and em,
                       "%s under '..'=%s, stack-empty=%s" % (fmt(x)[:40], dd, em), line)
    pi = provided(facts, "parent_internal")
    if pi is None:
        rep.fail("R06.3", TRAIT, "parent_internal present", "missing")
    else:
        ok = True
        slices = 0
        cases = inter.ret_cases(pi)
        for ct, cgs, bb in cases:
            v = norm(inter.inline_ret(ct, 2, pred=lambda bd: bd.kind == "Closure"))
            txt = fmt(v)
            # value = unwrap_or_default(map(rfind(path,'/'), |idx| path[..idx]))
            good = v[0] == "call" and v[1] in ("Option::unwrap_or_default", "Option::unwrap_or", "Option::unwrap_or_else") and \
                v[2] and v[2][0][0] == "call" and v[2][0][1] == "Option::map" and v[2][0][2][0][0] == "call" and \
                v[2][0][2][0][1] == "str::rfind" and v[2][0][2][0][2][1] == ("char", "/")
            if good:
                clo = v[2][0][2][1]
                cb = facts.body(clo[1]) if clo[0] == "closure" else None
                if cb is None:
                    good = False
                else:
                    for c2, _, _ in inter.ret_cases(cb):
                        c2n = norm(c2)
                        sl = peel(c2n)
                        while sl[0] == "call" and sl[1] in ("ToString::to_string", "ToOwned::to_owned", "String::from") and sl[2]:
                            sl = sl[2][0]
                        if not (sl[0] == "call" and sl[1] == "Index::index" and sl[2][1][0] == "agg" and sl[2][1][1].endswith("RangeTo")):
                            good = False
            if not good:
                # the same function written as a match on rfind: `Some(idx) => path[..idx].to_string(), None => String::new()`
                sl = peel(v)
                while sl[0] == "call" and sl[1] in ("ToString::to_string", "ToOwned::to_owned", "String::from") and sl[2]:
                    sl = peel(sl[2][0])
                is_rfind = lambda r_: r_[0] == "call" and r_[1] == "str::rfind" and len(r_[2]) == 2 and r_[2][0][0] == "arg" and \
                    r_[2][1] == ("char", "/")
                if sl[0] == "call" and sl[1] == "Index::index" and len(sl[2]) == 2 and sl[2][0][0] == "arg" and sl[2][1][0] == "agg" and \
                        sl[2][1][1].endswith("RangeTo") and not sl[2][1][1].endswith("RangeToInclusive") and len(sl[2][1][3]) == 1 and \
                        sl[2][1][3][0][1][0] == "okval" and is_rfind(sl[2][1][3][0][1][1]) and \
                        sl[2][1][3][0][1][1][2][0] == sl[2][0]:
                    good = True
                    slices += 1
                elif sl in (("call", "String::new", ()), ("str", "")) or (sl[0] == "call" and sl[1] in ("String::new", "Default::default") and not sl[2]):
                    gs_ = [(g[0], norm(g[1])) + tuple(g[2:]) for g in list(cgs or ()) + list(D.guards(pi, bb))]
                    good = any(g[0] == "variant" and g[3] == "None" and is_rfind(peel(g[1])) for g in gs_)
            ok = ok and good
        if slices == 0 and any(norm(c_[0])[0] != "call" or not norm(c_[0])[1].startswith("Option::unwrap_or") for c_ in cases):
            ok = False
        n += 1
        rep.ob("R06.3", pi.id, "parent_internal = path[..rfind('/')] or \"\"", ok and bool(cases), "" if ok else
               "parent_internal is not the prefix up to the last '/' (it could lengthen or change the path)", pi.span)
    # ---- R06.4 rejection
    errs = [(ct, bb) for ct, _, bb in inter.ret_cases(b) if inter.case_polarity(ct) == "err"]
    n += 1
    rep.ob("R06.4", b.id, "exactly one Err exit", len(errs) == 1, "%d Err return(s)" % len(errs), b.span)
    for ct, bb in errs:
        gs = D.guards(b, bb)
        ew = any(g[0] == "bool" and g[2] is True and g[1][0] == "call" and g[1][1] == "str::ends_with" and is_arg(g[1][2][0], 2) and g[1][2][1] == ("char", "/") for g in gs)
        ln = any(g[0] == "bool" and g[2] is True and g[1][0] == "bin" and g[1][1] == "Gt" and g[1][3] == ("int", 1) and
                 g[1][2][0] == "call" and g[1][2][1] == "str::len" and is_arg(g[1][2][2][0], 2) for g in gs)
        extra = [g for g in gs if not (
            (g[0] == "bool" and g[1][0] == "call" and g[1][1] in ("str::ends_with", "str::is_empty")) or
            (g[0] == "bool" and g[1][0] == "bin" and g[1][1] == "Gt"))]
        kind = any(x[0] == "agg" and x[2] == "InvalidPath" for x in walk(ct))
        before_loop = not any(g[0] == "variant" and peel(g[1])[0] == "call" and sname(peel(g[1])[1]) == "next" for g in gs)
        n += 4
        rep.ob("R06.4", b.id, "Err on the (len > 1 and ends_with('/')) edge", ew and ln, "ends_with=%s len>1=%s" % (ew, ln), b.blocks[bb].term.line)
        rep.ob("R06.4", b.id, "Err edge carries no further condition", not extra, "" if not extra else
               "the trailing-slash rejection additionally depends on %s: some trailing-slash arguments are accepted" % fmt(extra[0][1])[:60], b.blocks[bb].term.line)
        rep.ob("R06.4", b.id, "rejection happens before any component is processed", before_loop, "", b.blocks[bb].term.line)
        rep.ob("R06.4", b.id, "rejection builds InvalidPath", kind, "", b.blocks[bb].term.line)
    return n


def single_impl_rules(facts, rep, D):
    n = 0
    trait = facts.traits.get(TRAIT)
    if trait is None:
        rep.fail("R06.5", TRAIT, "trait present", "missing")
        return 0
    defaults = {m["name"] for m in trait["methods"] if m["has_default"]}
    for imp in facts.impls:
        if imp["trait"] == TRAIT:
            over = sorted(defaults & {m["name"] for m in imp["methods"]})
            n += 1
            rep.ob("R06.5", imp["self_ty"], "no provided PathLike method overridden", not over, "overrides: %s" % over if over else "", imp["span"])
    inter = D.inter
    for ty in ("path::VfsPath", "async_vfs::path::AsyncVfsPath"):
        ms = facts.inherent_methods(ty)
        if not ms:
            continue
        why_join = ""
        for name, internal, wraps in (("join", "join_internal", True), ("parent", "parent_internal", True),
                                      ("filename", "filename_internal", False), ("extension", "extension_internal", False)):
            b = ms.get(name)
            if b is None:
                rep.fail("R06.5", ty, "%s present" % name, "missing")
                continue
            tr = get_tracer(facts, b)
            cases = inter.ret_cases(b)
            ok = bool(cases)
            own_err = ""
            for ct, _, bb in cases:
                if inter.case_polarity(ct) == "err":
                    # the only error of a wrapper is the shared implementation's (sync and async accept the same arguments)
                    src_e = passthrough_of(norm(ct))
                    while src_e[0] == "await":
                        src_e = src_e[1]
                    if not (src_e[0] == "call" and sname(src_e[1]) == internal):
                        ok = False
                        own_err = "the wrapper returns an error of its own (%s): " % fmt(norm(ct))[:50]
                    continue
                v = ct
                if v[0] == "agg" and v[2] == "Ok" and v[3]:
                    v = v[3][0][1]
                vn = norm(v)
                if wraps:
                    if not (vn[0] == "agg" and vn[1] == ty):
                        ok = False
                        continue
                    d = dict(vn[3])
                    p, f = d.get("path"), d.get("fs")
                    src = peel(p)
                    while src[0] == "call" and src[1] in ("Arc::from", "From::from", "Into::into") and src[2]:
                        src = peel(src[2][0])
                    good_p = src[0] == "call" and sname(src[1]) == internal and src[2] and src[2][0][0] == "arg" and src[2][0][1] == 0 and \
                        any(x[0] == "field" and x[2] == "path" and x[1][0] == "arg" and x[1][1] == 0 for a in src[2][1:2] for x in walk(a))
                    if name == "join":
                        # the caller's string reaches the shared normaliser untouched (no trimming / prefix stripping /
                        # re-writing in the wrapper: children listed by read_dir never pass through it)
                        a = src[2][2] if (src[0] == "call" and len(src) > 2 and len(src[2]) >= 3) else ("x",)
                        while a[0] == "call" and a[1] in ("AsRef::as_ref", "Deref::deref", "Borrow::borrow", "String::as_str",
                                                          "str::as_ref", "ToString::to_string", "ToOwned::to_owned", "Into::into",
                                                          "From::from", "Clone::clone") and a[2]:
                            a = a[2][0]
                        exact = a[0] == "arg" and a[1] == 1
                        if good_p and not exact:
                            why_join = "the join argument is rewritten before normalisation: %s" % fmt(a)[:70]
                        good_p = good_p and exact
                    good_f = f is not None and f[0] == "field" and f[2] == "fs" and f[1][0] == "arg" and f[1][1] == 0
                    ok = ok and good_p and good_f
                else:
                    src = peel(vn)
                    ok = ok and src[0] == "call" and sname(src[1]) == internal and src[2] and src[2][0][0] == "arg" and src[2][0][1] == 0
            n += 1
            rep.ob("R06.5", b.id, "%s delegates to %s on its own path%s" % (name, internal, " and keeps the filesystem" if wraps else ""), ok,
                   "" if ok else own_err + (why_join if name == "join" and why_join else "") + " %s::%s does not (only) return %s(self.path, ..) wrapped with self.fs: path handling differs from the "
                   "single shared implementation" % (ty.split("::")[-1], name, internal), b.span)
        # root / is_root
        b = ms.get("root")
        if b is not None:
            ok = True
            for ct, _, _ in inter.ret_cases(b):
                vn = norm(ct)
                d = dict(vn[3]) if vn[0] == "agg" else {}
                p = peel(d.get("path", ("x",)))
                while p[0] == "call" and p[2]:
                    p = p[2][0]
                ok = ok and p == ("str", "") and d.get("fs", ("x",))[0] == "field"
            n += 1
            rep.ob("R06.5", b.id, "root() is the empty path on the same filesystem", ok, "", b.span)
        b = ms.get("as_str")
        if b is not None:
            from ..terms import strip as _strip
            vn = _strip(get_tracer(facts, b).local(0), extra=("String::as_str", "Deref::deref"))
            ok = vn[0] == "field" and vn[2] == "path" and vn[1][0] == "arg" and vn[1][1] == 0
            n += 1
            rep.ob("R06.5", b.id, "as_str() returns the path field", ok, fmt(vn)[:60], b.span)
        b = ms.get("is_root")
        if b is not None:
            vn = norm(get_tracer(facts, b).local(0))
            ok = vn[0] == "call" and vn[1] in ("str::is_empty", "String::is_empty") and vn[2][0][0] == "field" and vn[2][0][2] == "path"
            n += 1
            rep.ob("R06.5", b.id, "is_root() tests the path for emptiness", ok, fmt(vn)[:60], b.span)
    return n


def _strings_equal(g):
    """the branch outcome `a.path == b.path` holds — written with `==` taken or with `!=` not taken"""
    if g[0] != "bool":
        return False
    t, val = g[1], g[2]
    while t[0] == "un" and t[1] == "Not":
        t, val = t[2], (not val)
    return t[0] == "call" and ((t[1] == "PartialEq::eq" and val is True) or (t[1] == "PartialEq::ne" and val is False))


def eq_rules(facts, rep, D):
    n = 0
    for ty in ("path::VfsPath", "async_vfs::path::AsyncVfsPath"):
        bs = [b for b in facts.bodies if b.impl and b.impl["self_ty"] == ty and b.impl["trait"] and b.impl["trait"].endswith("PartialEq") and b.name == "eq"]
        if not bs:
            if any(b.impl and b.impl["self_ty"] == ty for b in facts.bodies):
                rep.fail("R06.6", ty, "PartialEq::eq present", "missing")
            continue
        b = bs[0]
        tr = get_tracer(facts, b)
        # result: true only on the path where both comparisons were true
        has_path = has_ptr = False
        for ct, gs0, bb in D.inter.ret_cases(b):
            pass
        for blk in b.calls():
            t = blk.term
            a = [norm(tr.operand(x)) for x in t.args]
            sh = short(t.callee() or "")
            if sh in ("PartialEq::eq", "PartialEq::ne") and len(a) == 2 and all(x[0] == "field" and x[2] == "path" for x in a) and {a[0][1][1], a[1][1][1]} == {0, 1}:
                has_path = True
            if sh == "Arc::ptr_eq" and len(a) == 2 and all(x[0] == "field" and x[2] == "fs" for x in a) and {a[0][1][1], a[1][1][1]} == {0, 1}:
                has_ptr = True
        # conjunction: the `true` result is dominated by both being true
        conj = False
        r = norm(tr.local(0))
        alts_ = r[1] if r[0] == "phi" else (r,)
        # typical lowering: _0 = ptr_eq(..) on the path-eq-true edge, _0 = false otherwise
        for kind, bb, idx in tr.defs.get(0, []):
            gs = D.guards(b, bb)
            if kind == "call" and short(b.blocks[bb].term.callee() or "") == "Arc::ptr_eq":
                conj = any(_strings_equal(g) for g in gs)
            if kind == "call" and short(b.blocks[bb].term.callee() or "") == "PartialEq::eq":
                conj = any(g[0] == "bool" and g[2] is True and g[1][0] == "call" and g[1][1] == "Arc::ptr_eq" for g in gs)
            if kind == "assign":
                v = norm(tr.rvalue(b.blocks[bb].stmts[idx].rv, frozenset()))
                if v == ("int", 1):
                    conj = conj or (any(_strings_equal(g) for g in gs) and
                                    any(g[0] == "bool" and g[2] is True and g[1][0] == "call" and g[1][1] == "Arc::ptr_eq" for g in gs))
        n += 3
        rep.ob("R06.6", b.id, "eq compares the two path strings", has_path, "", b.span)
        rep.ob("R06.6", b.id, "eq compares the two filesystems by Arc::ptr_eq", has_ptr, "" if has_ptr else
               "paths of different filesystem instances with the same string compare equal", b.span)
        rep.ob("R06.6", b.id, "eq is the conjunction of both", conj, "", b.span)
    # `!=` is what slices, Vecs and tuples of paths compare their elements with: it is the negation of `==` — the provided method, or an
    # override that is literally `!self.eq(other)`; a hand-written second formula is a second definition of equality
    for b2 in facts.bodies:
        if b2.kind != "Closure" and b2.name == "ne" and b2.impl and (b2.impl.get("trait") or "").endswith("PartialEq") and \
                b2.impl["self_ty"] in ("path::VfsPath", "async_vfs::path::AsyncVfsPath"):
            cases = D.inter.ret_cases(b2)
            neg = len(cases) == 1 and norm(cases[0][0])[0] == "un" and norm(cases[0][0])[1] == "Not" and \
                norm(cases[0][0])[2][0] == "call" and norm(cases[0][0])[2][1] == "PartialEq::eq"
            n += 1
            rep.ob("R06.6", b2.id, "ne is the negation of eq", neg, "" if neg else
                   "%s defines `!=` with a formula of its own: paths that are not `==` can fail to be `!=` (element comparison of "
                   "collections uses `!=`)" % b2.impl["self_ty"], b2.span)

    return n


def accessor_rules(facts, rep, D):
    n = 0
    inter = D.inter
    fi = provided(facts, "filename_internal")
    if fi is None:
        rep.fail("R06.7", TRAIT, "filename_internal present", "missing")
    else:
        tr = get_tracer(facts, fi)
        ok = False
        for blk in fi.calls():
            t = blk.term
            if short(t.callee() or "") == "Index::index":
                a = [norm(tr.operand(x)) for x in t.args]
                if a[1][0] == "agg" and a[1][1].endswith("RangeFrom"):
                    st = dict(a[1][3]).get("start")
                    pats = [x for x in walk(st) if x[0] == "call" and x[1] in ("str::rfind",)]
                    ok = bool(pats) and all(p[2][1] == ("char", "/") for p in pats) and D.index_from_find(st, a[0], True)  # (phi: the match spelling of map(+1).unwrap_or(0))
        n += 1
        rep.ob("R06.7", fi.id, "filename = path[rfind('/') + 1 ..] (or the whole path)", ok, "" if ok else
               "filename_internal does not cut exactly after the last '/'", fi.span)
    ei = provided(facts, "extension_internal")
    if ei is None:
        rep.fail("R06.7", TRAIT, "extension_internal present", "missing")
    else:
        tr = get_tracer(facts, ei)
        ok = False
        for blk in ei.calls():
            t = blk.term
            if short(t.callee() or "") in ("str::rsplitn", "str::rsplit_once", "str::rfind", "str::rsplit", "str::split"):
                recv = norm(tr.operand(t.args[0]))
                ok = peel(recv)[0] == "call" and sname(peel(recv)[1]) == "filename_internal"
                if not ok:
                    break
        n += 1
        rep.ob("R06.7", ei.id, "extension is computed from the filename only", ok, "" if ok else
               "extension_internal splits something other than filename_internal(self): a dot in a directory name leaks into the extension", ei.span)
    return n


def totality(facts, rep, D):
    n = 0
    names = {"join_internal", "parent_internal", "filename_internal", "extension_internal", "join", "parent", "root", "is_root",
             "eq", "filename", "extension", "as_str", "get_path"}
    for b in facts.bodies:
        root = facts.body(b.root) if b.kind == "Closure" and b.root else b
        if root is None:
            continue
        owner_ok = root.trait_item_of == TRAIT or (root.impl and root.impl["self_ty"] in ("path::VfsPath", "async_vfs::path::AsyncVfsPath"))
        if not owner_ok or root.name not in names:
            continue
        for s in inventory(facts, b):
            r = D.discharge(s)
            n += 1
            rep.ob("R06.1", b.id, s.desc, r is not None, ("%s: %s" % r) if r else (s.reason or "undischarged panic site in a path accessor"), s.line)
    # ... nor can what join calls on its rejection path: the error constructors of error.rs (`VfsError::from(kind).with_path(arg)` is
    # how a trailing slash is refused — an assertion about "normalised paths" there fires on the raw argument join reports)
    for b in facts.bodies:
        root = facts.body(b.root) if b.kind == "Closure" and b.root else b
        if root is None or not (root.file == "src/error.rs" or root.file.endswith("/src/error.rs")):
            continue
        for s in inventory(facts, b):
            r = D.discharge(s)
            rep.ob("R06.1", b.id, s.desc, r is not None, ("%s: %s" % r) if r else (s.reason or "undischarged panic site on join's rejection path"), s.line)
    return n


def run(facts, rep, tier, ctx):
    D = Discharger(facts, load_records(os.path.join(ctx["V"], "rules", "panic_records.json")))
    n = joiner_rules(facts, rep, D)
    rep.floor("joiner obligations", n, 17)
    n = single_impl_rules(facts, rep, D)
    rep.floor("single-implementation obligations", n, 8)
    n = eq_rules(facts, rep, D)
    rep.floor("equality obligations", n, 3)
    n = accessor_rules(facts, rep, D)
    rep.floor("accessor obligations", n, 2)
    n = totality(facts, rep, D)
    rep.floor("panic sites in path accessors", n, 3)  # 4 today; a vacuity floor, not a site count: `pop()` for `truncate(len - 1)` removes one
