"""C05 — existence, metadata, listings and traversal agree with each other (structural couplings).

 R05.1 VfsPath::read_dir builds every child as self.path + "/" + name on the same fs.
 R05.2 is_file / is_dir = exists() ∧ metadata().file_type == File / Directory; the not-exists edge returns false.
 R05.3 walk_dir is pre-order and visits once: in next() items come from inner.next(), the only read_dir receiver
       originates from todo.pop(), the only todo.push argument is the item being returned and it is guarded by the
       item's metadata().file_type == Directory (async twin: same facts on poll_next).
 R05.4 MemoryFS read_dir: scans every key; a candidate is kept iff it starts_with(path + "/") and the remainder
       contains no '/'.
 R05.5 OverlayFS read_dir merges into a set, inserts bare names, subtracts markers (C09 R09.4); the resolver
       serves exists/metadata/open consistently (marker first, C09 R09.3); AltrootFS read_dir yields filename().
 R05.6 directory iff listable, file iff readable: MemoryFS read_dir carries exists ∧ directory, open_file carries
       exists ∧ file (Table M); PhysicalFS enforces the same (Table O + its own is_dir check).
 R05.7 EmbeddedFS: observers agree on keys and order, index construction registers every ancestor (C18).
"""
import os
from ..terms import get_tracer, short, walk, fmt, fmt_guard
from ..facts import decode_fmt_template
from ..pathflow import World
from ..panics import Discharger, load_records, norm
from ..pathrules import PathRules, sname, peel
from . import c01, c02, c07, c09

EXPLANATION = ("value-origin and guard analysis over rustc MIR of the observers: how child paths are built, what is_file/"
               "is_dir test, the order in which the walk yields and descends, the key filter of the in-memory listing, the "
               "overlay's merged listing and resolver, and the listable/readable guards of each backend. Agreement of the "
               "observers in every reachable state needs the state and is not decided.")


def fmt_pieces(t):
    """[('lit', s) | ('arg', term)] of a format!(..) term"""
    t = peel(t)
    while t[0] == "call" and t[1] in ("Into::into", "From::from", "hint::must_use", "Arc::from") and t[2]:
        t = t[2][0]
    if not (t[0] == "call" and t[1] == "fmt::format" and t[2]):
        return None
    a = t[2][0]
    if not (a[0] == "call" and sname(a[1]) == "new" and len(a[2]) == 2 and a[2][0][0] == "bytes"):
        return None
    tpl = decode_fmt_template(a[2][0][1])
    args = a[2][1][1] if a[2][1][0] == "array" else ()
    out = []
    for kind, v in tpl:
        if kind == "lit":
            out.append(("lit", v))
        elif kind == "arg":
            x = args[v] if v < len(args) else ("unknown",)
            if x[0] == "call" and x[2]:
                x = x[2][0]
            out.append(("arg", x))
        else:
            out.append(("unknown", v))
    return out


def child_path_rules(facts, rep, w, D):
    pr = PathRules(facts, w, D)
    b = pr.methods.get("read_dir")
    n = 0
    if b is None:
        rep.fail("R05.1", w.path_ty, "read_dir present", "missing")
        return 0
    found = False
    for cb in pr.inter.code_bodies(b):
        tr = get_tracer(facts, cb)
        for blk in cb.blocks:
            if blk.cleanup:
                continue
            for st in blk.stmts:
                if st.kind == "assign" and st.rv.kind == "agg" and st.rv.agg.get("adt") == w.path_ty:
                    found = True
                    v = norm(tr.rvalue(st.rv, frozenset()))
                    d = dict(v[3])
                    pieces = fmt_pieces(d.get("path"))
                    okp = False
                    if pieces and len(pieces) == 3 and pieces[1] == ("lit", "/") and pieces[0][0] == "arg" and pieces[2][0] == "arg":
                        p0, p2 = pieces[0][1], pieces[2][1]
                        parent_ok = p0[0] == "field" and p0[2] == "path" and p0[1][0] == "arg" and p0[1][1] == 0
                        name_ok = any(x[0] == "call" and sname(x[1]) == "read_dir" and x[2] and
                                      any(y[0] == "field" and y[2] == "fs" for y in walk(x[2][0])) for x in walk(p2))
                        okp = parent_ok and name_ok
                    fs = d.get("fs")
                    okf = fs is not None and fs[0] == "field" and fs[2] == "fs" and fs[1][0] == "arg" and fs[1][1] == 0
                    n += 2
                    rep.ob("R05.1", b.id, "child path = self.path + \"/\" + listed name", okp, "" if okp else
                           "children are built as %s: a listed child is not the path exists()/metadata() are asked about" % str(pieces)[:90], st.line)
                    rep.ob("R05.1", b.id, "child lives on the receiver's filesystem", okf, "", st.line)
    if not found:
        rep.fail("R05.1", b.id, "child construction found", "no construction of child paths", b.span)
    return n


def is_kind_rules(facts, rep, w, D):
    pr = PathRules(facts, w, D)
    n = 0
    for name, want in (("is_file", "File"), ("is_dir", "Directory")):
        b = pr.methods.get(name)
        if b is None:
            rep.fail("R05.2", w.path_ty, "%s present" % name, "missing")
            continue
        cb = pr.inter.code_body(b)
        okfalse = okcmp = False
        for ct, _, bb in pr.inter.ret_cases(b):
            if pr.inter.case_polarity(ct) != "ok":
                continue
            v = norm(ct[3][0][1])
            gs = pr.guards(cb, bb)
            if v == ("int", 0):
                if pr.g_exists(gs, lambda t: pr.is_arg(t, 0), False):
                    okfalse = True
            elif v[0] == "call" and v[1] in ("PartialEq::eq",) and len(v[2]) == 2:
                a, c = v[2]
                m = peel(a[1]) if a[0] == "field" and a[2] == "file_type" else ("x",)
                if m[0] == "call" and sname(m[1]) == "metadata" and pr.is_arg(m[2][0], 0) and c[0] == "agg" and c[2] == want and \
                        pr.g_exists(gs, lambda t: pr.is_arg(t, 0), True):
                    okcmp = True
            elif v == ("int", 1) and pr.g_type(gs, lambda t: pr.is_arg(t, 0), want) and pr.g_exists(gs, lambda t: pr.is_arg(t, 0), True):
                okcmp = True        # `matches!(metadata.file_type, Want)`: `true` on the arm of the wanted variant
        # ... and every *other* answer is that comparison: in particular a failed metadata lookup is an error, not "false"
        others = []
        for ct, _, bb in pr.inter.ret_cases(b):
            if pr.inter.case_polarity(ct) != "ok":
                continue
            v = norm(ct[3][0][1])
            if v == ("int", 0) and pr.g_exists(pr.guards(cb, bb), lambda t: pr.is_arg(t, 0), False):
                continue
            if v[0] == "call" and v[1] == "PartialEq::eq":
                continue
            # the match form of the comparison: `true` under the wanted variant, `false` under the other one
            gs_ = pr.guards(cb, bb)
            if v == ("int", 1) and pr.g_type(gs_, lambda t: pr.is_arg(t, 0), want):
                continue
            if v == ("int", 0) and pr.g_type(gs_, lambda t: pr.is_arg(t, 0), "Directory" if want == "File" else "File"):
                continue
            others.append(fmt(v)[:50])
        n += 1
        rep.ob("R05.2", b.id, "%s: no answer other than !exists -> false and the type comparison" % name, not others, "" if not others else
               "%s can also answer %s: e.g. a metadata failure reported as `false` makes an existing directory look like neither file "
               "nor directory (and lets the overlay's merged listing skip a layer silently)" % (name, others[0]), b.span)
        n += 2
        rep.ob("R05.2", b.id, "%s: false when the path does not exist" % name, okfalse, "", b.span)
        rep.ob("R05.2", b.id, "%s: exists ∧ metadata().file_type == %s" % (name, want), okcmp, "" if okcmp else
               "%s does not compare the path's own metadata type with %s under exists()" % (name, want), b.span)
    # exists() of the path type is the backend's answer for this path, for every path (no "the root always exists" shortcut:
    # the root of an altroot / of a PhysicalFS can be removed underneath)
    b = pr.methods.get("exists")
    if b is not None:
        consts = []
        delegated = False
        for ct, _, bb in pr.inter.ret_cases(b):
            if pr.inter.case_polarity(ct) == "err":
                continue
            v = ct
            if v[0] == "agg" and v[2] == "Ok" and v[3]:
                v = v[3][0][1]
            v = norm(v)
            for alt in (v[1] if v[0] == "phi" else (v,)):
                if alt[0] == "int":
                    consts.append(alt[1])
                x = peel(alt)
                if x[0] == "call" and sname(x[1]) == "exists":
                    delegated = True
            if ct[0] == "call" and sname(ct[1]) in ("map_err", "exists"):
                delegated = True
        n += 1
        rep.ob("R05.2", b.id, "exists: the backend's answer, never a constant", delegated and not consts, "" if not consts else
               "exists() answers a constant (%s) for some paths without asking the filesystem: exists and metadata/read_dir can disagree "
               "(e.g. for a root that was removed underneath)" % consts, b.span)
    return n


def walk_rules(facts, rep, w, D):
    n = 0
    nb = None
    for b in facts.bodies:
        if b.impl and b.impl["self_ty"] == w.walk and b.name in ("next", "poll_next") and b.kind != "Closure":
            nb = b
    if nb is None:
        rep.fail("R05.3", w.walk, "next/poll_next present", "missing")
        return 0
    inter = D.inter
    pushes, readdirs = [], []
    for cb in inter.code_bodies(nb):
        tr = get_tracer(facts, cb)
        for s in inter.sites(cb):
            if s.short == "Vec::push":
                pushes.append((cb, s, tr))
            if sname(s.path) == "read_dir" and s.self_ty and s.self_ty.endswith("VfsPath"):
                readdirs.append((cb, s, tr))
    # the stack of pending directories loses an element only by being popped for listing: clearing / truncating it (on an
    # error, say) drops directories that were yielded but never walked
    dropping = []
    for cb in inter.code_bodies(nb):
        tr_ = get_tracer(facts, cb)
        for s in inter.sites(cb):
            if s.short.split("::")[0] in ("Vec", "VecDeque") and s.short.split("::")[-1] in (
                    "clear", "truncate", "drain", "retain", "split_off", "remove", "swap_remove", "dedup", "pop_front", "pop_back") and s.args and \
                    any(y[0] == "field" and y[2] == "todo" for y in walk(norm(tr_.operand(s.args[0])))):
                dropping.append(s.short)
    n += 1
    rep.ob("R05.3", nb.id, "pending directories leave the stack only by pop", not dropping, "" if not dropping else
           "the walk calls %s on its stack of pending directories: directories already yielded are never listed" % ", ".join(sorted(set(dropping))), nb.span)
    n += 2
    rep.ob("R05.3", nb.id, "one push onto the directory stack", len(pushes) == 1, "%d" % len(pushes), nb.span)
    rep.ob("R05.3", nb.id, "one read_dir of a stacked directory", len(readdirs) == 1, "%d" % len(readdirs), nb.span)
    for cb, s, tr in readdirs:
        recv = norm(tr.operand(s.args[0]))
        from_stack = any(x[0] == "call" and x[1] in ("Vec::pop", "Index::index", "slice::last", "Vec::remove", "Clone::clone") and x[2] and
                         any(y[0] == "field" and y[2] == "todo" for y in walk(x[2][0])) for x in walk(recv)) or \
            any(y[0] == "field" and y[2] == "todo" for y in walk(recv))
        n += 1
        rep.ob("R05.3", nb.id, "listing is requested only for a directory taken from the stack", from_stack, fmt(recv)[:60], s.line)
        gs = D.guards(cb, s.bb)
        drained = any((g[0] == "variant" and g[3] in ("None",) and peel(g[1])[0] == "call" and sname(peel(g[1])[1]) in ("next", "poll_next_unpin", "poll_next")) or
                      (g[0] == "variant" and g[3] == "None") for g in gs)
        n += 1
        rep.ob("R05.3", nb.id, "next directory is opened only when the current listing is exhausted", drained, "", s.line)
    for cb, s, tr in pushes:
        v = norm(tr.operand(s.args[1]))
        gs = D.guards(cb, s.bb)
        # the pushed path is the item being yielded: it derives from inner.next()
        is_item = any(x[0] == "call" and sname(x[1]) in ("next", "poll_next_unpin", "poll_next") and x[2] and
                      any(y[0] == "field" and y[2] in ("inner", "prev_result") for y in walk(x[2][0])) for x in walk(v)) or \
            any(y[0] == "field" and y[2] == "prev_result" for y in walk(v))
        isdir = False
        for g in gs:
            if g[0] == "bool" and g[2] is True and g[1][0] == "call" and g[1][1] == "PartialEq::eq" and len(g[1][2]) == 2:
                a, c = g[1][2]
                if a[0] == "field" and a[2] == "file_type" and c[0] == "agg" and c[2] == "Directory":
                    isdir = True
            if g[0] == "variant" and g[1][0] == "field" and g[1][2] == "file_type" and g[3] == "Directory":
                isdir = True
        # ... and every directory item is queued: nothing but the item's type decides (a depth bound, a name filter or a
        # budget yields a directory whose descendants are then never walked — copy_dir / move_dir / remove_dir_all lose them)
        extra = []
        for g in gs:
            if g[0] in ("bool", "inteq", "intne"):
                t_ = g[1]
                about_type = any(x[0] == "field" and x[2] == "file_type" for x in walk(t_)) or \
                    any(x[0] == "call" and isinstance(x[1], str) and sname(x[1]) in ("is_dir", "is_file") for x in walk(t_))
                if not about_type:
                    extra.append(fmt_guard(g)[:70])
        n += 1
        rep.ob("R05.3", nb.id, "every directory item is queued for descent (type is the only condition)", not extra, "" if not extra else
               "the push onto the directory stack also depends on %s: a directory that fails it is yielded but its descendants are "
               "never visited" % "; ".join(extra), s.line)
        n += 2
        rep.ob("R05.3", nb.id, "the pushed path is the item being yielded", is_item, fmt(v)[:70], s.line)
        rep.ob("R05.3", nb.id, "pushed only if the item's metadata says Directory", isdir, "" if isdir else
               "an item is queued for descent without its type being Directory (or a directory is descended before being yielded)", s.line)
    # the returned item is the one from inner.next() (pre-order: yielded in the same call that queues it)
    ok = False
    for ct, _, bb in inter.ret_cases(nb):
        c = norm(ct)
        if any(x[0] == "call" and sname(x[1]) in ("next", "poll_next_unpin", "poll_next") for x in walk(c)) or \
                any(y[0] == "field" and y[2] == "prev_result" for y in walk(c)):
            ok = True
    n += 1
    rep.ob("R05.3", nb.id, "the yielded item is the one just taken from the current listing", ok, "", nb.span)
    return n


def memory_listing_rules(facts, rep, w, D):
    n = 0
    b = facts.impl_methods(w.trait.rsplit("::", 1)[1], w.memory).get("read_dir")
    if b is None:
        rep.fail("R05.4", w.memory, "read_dir implemented", "missing")
        return 0
    inter = D.inter
    srcs = []
    keeps = []
    for cb in inter.code_bodies(b):
        tr = get_tracer(facts, cb)
        for s in inter.sites(cb):
            if s.short in ("HashMap::iter", "HashMap::keys", "BTreeMap::iter", "BTreeMap::keys", "BTreeMap::range", "HashMap::into_iter"):
                srcs.append((cb, s, tr))
            if s.short in ("Iterator::take_while", "Iterator::skip_while", "Iterator::take", "Iterator::skip", "Iterator::step_by", "BTreeMap::range"):
                rep.fail("R05.4", b.id, "the scan covers every key", "the key scan is limited by %s: entries outside the scanned window are not listed" % s.short, s.line)
        # kept candidates: closure returns Some(rest.to_string()) under starts_with(prefix) && !contains('/'),
        # or a loop pushes the name into the result under the same two tests
        keep_blocks = []
        if cb.kind == "Closure":
            for ct, _, bb in inter.ret_cases(cb):
                c = norm(ct)
                if c[0] == "agg" and c[2] == "Some":
                    keep_blocks.append(bb)
        for s in inter.sites(cb):
            if s.short in ("Vec::push", "VecDeque::push_back", "Vec::insert", "HashSet::insert", "BTreeSet::insert"):
                keep_blocks.append(s.bb)
        if True:
            for bb in keep_blocks:
                if True:
                    gs = D.guards(cb, bb)
                    sw = nc = False
                    prefix_ok = False
                    for g in gs:
                        if g[0] == "bool" and g[2] is True and g[1][0] == "call" and g[1][1] == "str::starts_with":
                            sw = True
                            pfx = fmt_pieces(g[1][2][1])
                            if pfx and len(pfx) == 2 and pfx[0][0] == "arg" and pfx[1] == ("lit", "/") and pfx[0][1][0] == "arg" and pfx[0][1][1] == 1:
                                prefix_ok = True
                        if g[0] == "bool" and g[2] is False and g[1][0] == "call" and g[1][1] == "str::contains" and g[1][2][1] == ("char", "/"):
                            nc = True
                    keeps.append((sw, nc, prefix_ok, cb.blocks[bb].term.line))
    n += 1
    rep.ob("R05.4", b.id, "the listing scans the map's keys", len(srcs) >= 1 and all(s.short in ("HashMap::iter", "HashMap::keys", "BTreeMap::iter", "BTreeMap::keys") for _, s, _ in srcs),
           "%s" % [s.short for _, s, _ in srcs], b.span)
    n += 1
    rep.ob("R05.4", b.id, "a kept-candidate site exists", len(keeps) >= 1, "%d" % len(keeps), b.span)
    for sw, nc, pfx, line in keeps:
        n += 3
        rep.ob("R05.4", b.id, "kept only if it starts with the prefix", sw, "", line)
        rep.ob("R05.4", b.id, "the prefix is path + \"/\" (separator included)", pfx, "" if pfx else
               "the prefix test does not include the trailing '/': 'a' would list 'ab'", line)
        rep.ob("R05.4", b.id, "kept only if the remainder contains no '/'", nc, "" if nc else "grandchildren are listed as children", line)
    return n


class _P5:
    """files another module's obligations under one rule id of this property"""

    def __init__(self, rep, prefix):
        self._rep, self._prefix, self.analysed = rep, prefix, rep.analysed

    def ob(self, rule, fn, desc, ok, detail="", loc=None):
        return self._rep.ob("%s/%s" % (self._prefix, rule), fn, desc, ok, detail, loc)

    def fail(self, rule, fn, desc, detail="", loc=None):
        return self.ob(rule, fn, desc, False, detail, loc)

    def floor(self, *a):
        return None

    def note(self, t):
        self._rep.note(t)

    def assume(self, t):
        self._rep.assume(t)


def run(facts, rep, tier, ctx):
    D = Discharger(facts, load_records(os.path.join(ctx["V"], "rules", "panic_records.json")))
    ws = World(facts, False)
    n = child_path_rules(facts, rep, ws, D)
    rep.floor("child-path obligations", n, 2)
    n = is_kind_rules(facts, rep, ws, D)
    rep.floor("is_file/is_dir obligations", n, 4)
    n = walk_rules(facts, rep, ws, D)
    rep.floor("walk obligations", n, 7)
    n = memory_listing_rules(facts, rep, ws, D)
    rep.floor("in-memory listing obligations", n, 5)
    from . import c13 as _c13l
    _c13l.sites_for(facts, rep, ctx["V"], "R05.4p", lambda r: r.name == "read_dir" and bool(r.impl) and "::memory::" in r.impl["self_ty"])
    c09.listing_rules(facts, rep, ws, "R05.5")
    c09.relative_join_rules(facts, rep, ws, "R05.5j")
    c09.resolver_rules(facts, rep, ws, "R05.5r")
    c07.delegation(facts, rep, ws, "R05.5a", D)
    c07.gate_rules(facts, _P5(rep, "R05.5a"), ws, D)
    # what the overlay hides stays hidden consistently: only the removal / re-creation protocol touches markers (deleting the
    # markers of a removed directory's former entries makes those entries exist again under a parent that does not)
    from . import c10 as _c10
    _c10.marker_rules(facts, rep, ws, prefix="R05.5m", only=("R10.5",))
    # "a file iff it can be read": the overlay opens what its resolver found (the entry metadata/read_dir describe), not the
    # first layer that happens to hold a file of that name
    from . import c04 as _c04
    _c04.overlay_read_delegation(facts, _P5(rep, "R05.5o"), ws)
    # what copy_dir / move_dir create goes through the path type's own create_dir / copy_file (parent is a directory): a tree
    # built below a file exists but no listing shows it
    from ..pathrules import PathRules as _PRules
    _PRules(facts, ws, D).generic_routes(_P5(rep, "R05.5g"), "G")
    # a failed transfer leaves nothing behind: the generic copy creates the destination only once the source is open (an empty
    # file left in a write layer over a lower directory turns that directory into a file whose children still exist)
    from ..report import Report as _RepP
    _scrp = _RepP("p")
    _PRules(facts, ws, D).table_p(_scrp, "P")
    for o in _scrp.obligations:
        if "destination created only after the source was opened" in o["key"]:
            rep.ob("R05.5c/R01.1", o["fn"], o["key"].split("|")[2], o["ok"], o["detail"], o["loc"])
    # R05.6
    from ..report import Report
    scratch = Report("x")
    c01.table_m(facts, scratch, "M", "Mk", ops_filter=("read_dir", "open_file", "create_dir", "create_file", "remove_dir", "remove_file") + c01.TWO_PATH_OPS)
    k = 0
    for o in scratch.obligations:
        # (for the creating operations only the row that keeps "exists iff the parent lists it": the parent is there)
        if o["rule"] == "M" and (o["key"].split("|")[2].split(":")[0] not in ("create_dir", "create_file") or "'parent exists'" in o["key"] or "'target is not a directory'" in o["key"]):
            k += 1
            rep.ob("R05.6", o["fn"], o["key"].split("|")[2], o["ok"], o["detail"], o["loc"])
    rep.floor("listable/readable obligations (MemoryFS)", k, 4)
    scratch = Report("y")
    c02.run(facts, scratch, tier, ctx)
    for o in scratch.obligations:
        if o["rule"] == "R02.1" and ("open_file" in o["key"] or "read_dir" in o["key"]):
            rep.ob("R05.6", o["fn"], o["key"].split("|")[2], o["ok"], o["detail"], o["loc"])
    # listed names are rebuilt by adapters with filename(): filename = the part after the last '/' and nothing else
    from . import c06
    c06.accessor_rules(facts, _P5(rep, "R05.5f"), D)
    # which std call each PhysicalFS observer makes (metadata follows links like open/read_dir/exists do: lstat would make
    # a linked directory listable but "a file")
    from .. import physrules
    physrules.table_o_shape(facts, rep, "R05.6p", ws)
    # R05.7 embedded
    if any(b.impl and b.impl["self_ty"].startswith("impls::embedded::") for b in facts.bodies):
        from . import c18
        scratch = Report("z")
        c18.run(facts, scratch, "quick", ctx)
        for o in scratch.obligations:
            if o["rule"] in ("R18.3", "R18.5"):
                rep.ob("R05.7", o["fn"], o["key"].split("|")[2], o["ok"], o["detail"], o["loc"])
    # R05.8 what exists() reports stays listed by its parent under concurrent use too: check and mutation of the in-memory backends
    # share one critical section (a parent checked under an earlier lock can be removed before the insert: the child exists, its
    # parent does not, no listing reaches it) — C16's R16.1 / R16.5 / R16.6
    from . import c16 as _c16
    scr8 = Report("z")
    _c16.run(facts, scr8, tier, ctx)
    for o in scr8.obligations:
        r_ = o["rule"]
        if r_.replace("A/", "") in ("R16.1", "R16.5", "R16.6"):
            rep.ob(("A/" if r_.startswith("A/") else "") + "R05.8", o["fn"], o["key"].split("|")[2], o["ok"], o["detail"], o["loc"])
    # R05.9 a directory that still shows entries in the merged listing cannot be removed: the overlay's remove_dir rows of Table U
    # (a hidden directory whose lower-layer children stay reachable exists for exists/metadata but is listed by no parent)
    for w9 in (ws, World(facts, True)):
        if w9.present():
            from .c10 import _Prefixed as _Pf9
            c09.table_u(facts, rep if not w9.asyncw else _Pf9(rep, "A"), w9, "R05.9", only=("remove_dir",))
    # the async port has its own copies of all the observers
    wa = World(facts, True)
    rep.ob("R05.A", "async_vfs", "async world present", wa.present(), "", "")
    if wa.present():
        from .c10 import _Prefixed
        A = _Prefixed(rep, "A")
        k = child_path_rules(facts, A, wa, D) + is_kind_rules(facts, A, wa, D) + walk_rules(facts, A, wa, D) + \
            memory_listing_rules(facts, A, wa, D)
        k += c09.listing_rules(facts, A, wa, "R05.5")
        k += c09.relative_join_rules(facts, A, wa, "R05.5j")
        k += c09.resolver_rules(facts, A, wa, "R05.5r")
        k += c07.delegation(facts, A, wa, "R05.5a", D)
        c07.gate_rules(facts, _P5(A, "R05.5a"), wa, D)
        _c04.overlay_read_delegation(facts, _P5(A, "R05.5o"), wa)
        _c10.marker_rules(facts, A, wa, prefix="R05.5m", only=("R10.5",))
        _PRules(facts, wa, D).generic_routes(_P5(A, "R05.5g"), "G")
        _scrpa = _RepP("pa")
        _PRules(facts, wa, D).table_p(_scrpa, "P")
        for o in _scrpa.obligations:
            if "destination created only after the source was opened" in o["key"]:
                A.ob("R05.5c/R01.1", o["fn"], o["key"].split("|")[2], o["ok"], o["detail"], o["loc"])
        k += physrules.table_o_shape(facts, A, "R05.6p", wa)
        scratch = Report("xa")
        c01.table_m(facts, scratch, "M", "Mk", self_ty=wa.memory, trait="AsyncFileSystem",
                    ops_filter=("read_dir", "open_file", "create_dir", "create_file", "remove_dir", "remove_file") + c01.TWO_PATH_OPS)
        for o in scratch.obligations:
            if o["rule"] == "M" and (o["key"].split("|")[2].split(":")[0] not in ("create_dir", "create_file") or "'parent exists'" in o["key"] or "'target is not a directory'" in o["key"]):
                k += 1
                A.ob("R05.6", o["fn"], o["key"].split("|")[2], o["ok"], o["detail"], o["loc"])
        rep.floor("async-world observer obligations", k, 40)
    # R05.5s an entry exists only below a directory: file-over-directory shadowing in the overlay's resolver (F36; C09 R09.12)
    from . import c09 as _c09s5
    from .c10 import _Prefixed as _Pf5s
    for w5s in (ws, World(facts, True)):
        if w5s.present():
            _c09s5.shadowing_rules(facts, rep if not w5s.asyncw else _Pf5s(rep, "A"), w5s, "R05.5s/R09.12")
    # R05.3e the walk reports a directory it cannot list: an Err of read_dir that next() swallows (by kind, "skip what cannot be read")
    # drops an existing directory and its whole subtree from the walk, which then ends as if complete (C20's consumer rows of next)
    from . import c20 as _c20w
    from ..report import Report as _Rp5w
    for w5w in (ws, World(facts, True)):
        if not w5w.present():
            continue
        scr5w = _Rp5w("w")
        _c20w.run_world(facts, scr5w, w5w, {"results": 0, "err_edges": 0, "kind_arms": 0})
        for o in scr5w.obligations:
            if o["rule"] in ("R20.1", "R20.2", "R20.4") and "WalkDirIterator" in o["fn"]:
                rep.ob(("A/" if w5w.asyncw else "") + "R05.3e/" + o["rule"], o["fn"], o["key"].split("|")[2], o["ok"], o["detail"], o["loc"])
    rep.assume("ordering inside one directory is unspecified")
