"""C15 — the async port is behaviourally identical to the sync API (sibling agreement + Pending-safety).

 R15.A the async world obeys the same structural rules as the sync world: every rule set that is expressed over a
       `World` (path layer Tables P, routes, create_dir_all, labels, error discipline; overlay Table U, resolver,
       listing, marker protocol; altroot delegation; in-memory guard table; reader seek/read shape; child paths,
       is_file/is_dir, walk order; PhysicalFS std-call table) is evaluated on AsyncVfsPath / AsyncFileSystem and its
       four implementations.  A rule that holds for the sync twin and fails for the async twin is a divergence.
 R15.2 twin skeletons: for every pair of twin functions the sets of semantic events (in-crate and std fs/io callees
       after name mapping, error kinds built, string literals, compared enum variants) agree, except for differences
       listed in the benign table (one reason each).  A public method present on one side only is reported.
 R15.4 the walk stream keeps its state across Pending: every future that is polled comes from `take()` of its slot
       or is freshly created (never polled after completion); a Pending return stores the polled future back into
       its slot and, when an item is in hand, stashes the item; the stash is consumed with take(); a directory is
       popped from the stack only on a Ready edge of its read_dir future.
"""
import os
import re
from ..terms import get_tracer, short, walk, fmt
from ..facts import decode_fmt_template
from ..pathflow import World
from ..panics import Discharger, load_records, norm
from ..pathrules import PathRules, sname, peel
from ..handlerules import Handles
from .. import physrules
from . import c01, c05, c07, c09, c10, c12, c20

EXPLANATION = ("sibling agreement over rustc MIR: (A) all World-parametric rule sets are evaluated on the async twins; (2) twin "
               "functions are compared as sets of semantic events after erasing await plumbing; (4) a typestate/pairing "
               "analysis of WalkDirIterator::poll_next shows that no state is lost or re-polled across Pending. Executor "
               "liveness and async-std vs std agreement are trusted; byte-level equality is not decided.")

# ---------------------------------------------------------------- twin comparison
PLUMBING = {"IntoFuture::into_future", "Future::poll", "future::get_context", "Pin::new_unchecked", "Box::pin", "Pin::new",
            "Try::branch", "FromResidual::from_residual", "Deref::deref", "DerefMut::deref_mut", "Clone::clone", "Into::into",
            "From::from", "AsRef::as_ref", "ToString::to_string", "Box::new", "Arc::new", "Arc::from", "Pin::get_mut",
            "FutureExt::poll_unpin", "StreamExt::poll_next_unpin", "hint::must_use", "fmt::format", "Arguments::new",
            "Argument::new_display", "Argument::new_debug", "Arguments::from_str", "IntoIterator::into_iter", "String::as_str",
            "Option::take", "Option::unwrap", "Option::is_some", "Option::is_none", "String::clone", "PathLike::get_path",
            "Vec::new", "ToOwned::to_owned", "Borrow::borrow", "drop", "mem::drop", "Poll::map", "VfsPath::as_str"}
NAME_MAP = [
    (r"AsyncVfsPath", "VfsPath"), (r"AsyncFileSystem", "FileSystem"), (r"AsyncMemoryFS", "MemoryFS"),
    (r"AsyncPhysicalFS", "PhysicalFS"), (r"AsyncAltrootFS", "AltrootFS"), (r"AsyncOverlayFS", "OverlayFS"),
    (r"AsyncReadableFile", "ReadableFile"), (r"AsyncWritableFile", "WritableFile"), (r"AsyncMemoryFsImpl", "MemoryFsImpl"),
    (r"AsyncMemoryFile", "MemoryFile"), (r"StreamExt::next", "Iterator::next"), (r"StreamExt::map", "Iterator::map"),
    (r"stream::iter", "IntoIterator::into_iter"), (r"ReadExt::read_to_string", "Read::read_to_string"),
    (r"SeekExt::seek", "Seek::seek"), (r"AsyncRead", "Read"), (r"AsyncSeek", "Seek"), (r"AsyncWrite", "Write"),
    (r"poll_read", "read"), (r"poll_seek", "seek"), (r"poll_write", "write"), (r"poll_flush", "flush"), (r"poll_next", "next"),
]
TYPE_PAIRS = [
    ("path::VfsPath", "async_vfs::path::AsyncVfsPath"),
    ("impls::memory::MemoryFS", "async_vfs::impls::memory::AsyncMemoryFS"),
    ("impls::physical::PhysicalFS", "async_vfs::impls::physical::AsyncPhysicalFS"),
    ("impls::altroot::AltrootFS", "async_vfs::impls::altroot::AsyncAltrootFS"),
    ("impls::overlay::OverlayFS", "async_vfs::impls::overlay::AsyncOverlayFS"),
    ("path::WalkDirIterator", "async_vfs::path::WalkDirIterator"),
    ("impls::memory::ReadableFile", "async_vfs::impls::memory::AsyncReadableFile"),
    ("impls::memory::MemoryFsImpl", "async_vfs::impls::memory::AsyncMemoryFsImpl"),
]
# differences accepted between twins: (type pair sync name, method or '*', event) -> reason
BENIGN = {
    ("*", "*", "call:RwLock::read"): "std lock vs async lock: acquisition appears as read().await",
    ("*", "*", "call:RwLock::write"): "std lock vs async lock",
    ("*", "*", "call:Result::unwrap"): "std LockResult unwrap has no async counterpart (async locks do not poison)",
    ("*", "*", "call:executor::block_on"): "async writer publishes from Drop through block_on (known finding of C13, F25)",
    ("impls::physical::PhysicalFS", "append_file", "call:OpenOptions::write"): "append(true) implies write access: .write(true).append(true) == .append(true)",
    ("impls::physical::PhysicalFS", "*", "call:task::spawn_blocking"): "filetime is blocking: run on tokio's blocking pool",
    ("impls::physical::PhysicalFS", "*", "call:Handle::try_current"): "runtime probe for the blocking pool",
    ("impls::physical::PhysicalFS", "*", "lit:Tokio"): "join error of the blocking pool (\"Tokio Concurrency Error: \", word by word)",
    ("impls::physical::PhysicalFS", "*", "lit:Concurrency"): "join error of the blocking pool",
    ("impls::physical::PhysicalFS", "*", "lit:Error"): "join error of the blocking pool",
    ("impls::physical::PhysicalFS", "*", "lit::"): "join error of the blocking pool",
    ("impls::physical::PhysicalFS", "*", "kind:Other"): "join error of the blocking pool is reported as Other",
    ("impls::physical::PhysicalFS", "*", "call:Pin::new"): "AsyncPhysicalFS stores Pin<PathBuf>",
    ("impls::physical::PhysicalFS", "*", "call:PathBuf::join"): "std::path vs async_std::path join (same semantics)",
    ("impls::physical::PhysicalFS", "*", "call:Path::join"): "std::path vs async_std::path join (same semantics)",
    ("impls::physical::PhysicalFS", "*", "call:Path::to_path_buf"): "path conversion",
    ("impls::physical::PhysicalFS", "read_dir", "call:Iterator::next"): "sync iterates a std ReadDir in a for loop, async drains a stream with while-let: same events",
    ("impls::physical::PhysicalFS", "exists", "call:Path::exists"): "which single stat-like probe exists() uses is decided by Table O (exactly one access/stat, never fails) in both worlds",
    ("impls::physical::PhysicalFS", "exists", "call:Path::try_exists"): "same",
    ("impls::physical::PhysicalFS", "exists", "call:fs::metadata"): "same",
    ("path::WalkDirIterator", "next", "*"): "the stream state machine is checked by R15.4/R05.3 instead of by event sets",
    ("path::VfsPath", "walk_dir", "call:Vec::new"): "constructor detail",
    ("path::VfsPath", "remove_dir_all", "call:remove_dir_all"): "async recursion is boxed by #[async_recursion]",
}


def mapname(s):
    for a, b in NAME_MAP:
        s = re.sub(a, b, s)
    return s


KEEP_STD = {"io::copy", "Read::read_to_string", "Seek::seek", "Arc::ptr_eq", "SystemTime::now", "mem::swap",
            "HashMap::insert", "HashMap::remove", "HashMap::get", "HashMap::get_mut", "HashMap::contains_key", "HashMap::entry",
            "HashMap::iter", "HashSet::insert", "HashSet::remove", "Vec::pop", "Cursor::new", "Write::write",
            "Write::flush", "str::starts_with", "str::ends_with", "str::contains", "str::rfind", "str::find", "str::split",
            "slice::copy_from_slice", "cmp::min", "u64::saturating_sub", "u64::checked_add", "u64::checked_sub",
            "OpenOptions::append", "OpenOptions::create", "OpenOptions::truncate", "OpenOptions::create_new", "OpenOptions::read"}


def keep_call(facts, t):
    fn = t.func.fn
    sh = short(fn["path"])
    if fn.get("crate") == facts.crate:
        return True
    if sh in physrules.EFFECTS or fn["path"].startswith("filetime::"):
        return True
    return sh in KEEP_STD or mapname(sh) in KEEP_STD


def is_private_helper(b, owner_ty):
    """inherent, non-public function of the same type (or a free private fn): its structure is not compared"""
    if b is None or b.kind == "Closure":
        return False
    if b.vis == "pub":
        return False
    if b.impl and b.impl["trait"]:
        return False
    return True


def events(facts, inter, body, depth=3, _seen=None):
    ev = set()
    _seen = _seen or set()
    if body.id in _seen:
        return ev
    _seen = _seen | {body.id}
    for cb in inter.code_bodies(body):
        for blk in cb.blocks:
            if blk.cleanup:
                continue
            for st in blk.stmts:
                if st.kind == "assign" and st.rv.kind == "agg" and st.rv.agg.get("kind") == "adt":
                    a = st.rv.agg
                    if a["adt"] == "error::VfsErrorKind":
                        ev.add("kind:" + a["variant"])
                    if a["adt"] == "path::VfsFileType":
                        ev.add("filetype:" + a["variant"])
                    # `e.kind() != ErrorKind::AlreadyExists` builds the variant it compares with, `match e.kind() { AlreadyExists => ..`
                    # switches on it: the same test of the OS error's kind
                    if a["adt"].endswith("io::ErrorKind") or a["adt"].endswith("io::error::ErrorKind"):
                        ev.add("match:" + a["variant"])
                if st.kind == "assign":
                    for o in st.rv.ops:
                        _lits(o, ev)
            t = blk.term
            if t.kind == "call":
                cal = t.callee()
                if cal and t.func.kind == "fn":
                    helper = facts.body(t.resolved() or "") or facts.body(cal)
                    if helper is not None and is_private_helper(helper, None) and depth > 0:
                        ev |= events(facts, inter, helper, depth - 1, _seen)
                    elif keep_call(facts, t):
                        sh = mapname(short(cal))
                        if sh not in PLUMBING and short(cal) not in PLUMBING:
                            ev.add("call:" + sh)
                for o in t.args:
                    _lits(o, ev)
            if t.kind == "switch":
                tr = get_tracer(facts, cb)
                dt = tr.operand(t.discr)
                if dt[0] == "discr" and dt[2] and dt[2][0] not in ("Ok", "Continue", "None", "Ready", "Some", "Occupied", "Borrowed"):
                    for v, _ in t.targets:
                        if v < len(dt[2]):
                            # a test of the file type is the same event whether it is spelled `== File` (an aggregate that is
                            # compared) or `matches!(.., File)` (a switch)
                            ev.add(("filetype:" if set(dt[2]) == {"File", "Directory"} else "match:") + dt[2][v])
    return ev


def ordered_calls(facts, inter, body):
    """the "comes first" relation {(x, y)} between crate-level calls that occur exactly once in the body (closures and async blocks
    included; two calls are compared when they sit in the same code body and one dominates the other) — the basis of the twin
    *order* comparison: which of two effects comes first is behaviour when the first can fail"""
    seen = {}
    cfgs = {}
    for cb in inter.code_bodies(body):
        cfgs[cb.id] = get_tracer(facts, cb).cfg
        for blk in cb.blocks:
            if blk.cleanup:
                continue
            t = blk.term
            if t.kind == "call" and t.func.kind == "fn" and t.callee() and keep_call(facts, t):
                sh = mapname(short(t.callee()))
                if sh in PLUMBING or short(t.callee()) in PLUMBING:
                    continue
                # (told apart by the parameter they are called on: `destination.create_dir()` and `dest_path.create_dir()`)
                if t.args:
                    r0 = norm(get_tracer(facts, cb).operand(t.args[0]))
                    if r0[0] == "arg":
                        sh = "%s(arg %d)" % (sh, r0[1])
                seen.setdefault(sh, []).append((cb.id, blk.idx))
    once = {k: v[0] for k, v in seen.items() if len(v) == 1}
    rel = set()
    for x, (cx, bx) in once.items():
        for y, (cy, by) in once.items():
            if x != y and cx == cy and bx != by and cfgs[cx].dominates(bx, by):
                rel.add((x, y))
    return set(once), rel


def _lit_events(text, ev):
    """a literal without white space (a separator, a suffix, a file name) is one event; running text (messages) is compared word
    by word, so that how a message is cut into format pieces and arguments — "Could not {}, parent .." against
    "Could not {}, {}" with the reason passed in — is not a difference between the twins, while a changed or missing word still is"""
    text = mapname(text)
    if not re.search(r"\s", text):
        ev.add("lit:" + text)
        return
    for tok in re.findall(r"[\w']+|[^\w\s]", text):
        ev.add("lit:" + tok)


def _lits(o, ev):
    s_ = o.const_str()
    if s_:
        _lit_events(s_, ev)
    bs = o.const_bytes()
    if bs:
        for k, v in decode_fmt_template(bs):
            if k == "lit" and v.strip():
                _lit_events(v, ev)


def methods_of(facts, ty):
    out = {}
    for b in facts.bodies:
        if b.kind == "Closure" or not b.impl or b.impl.get("derived"):
            continue
        if b.impl["self_ty"] == ty:
            tr = b.impl["trait"] or ""
            key = mapname(b.name)
            out[key] = b
    return out


def twin_rules(facts, rep, D):
    inter = D.inter
    n = 0
    for sty, aty in TYPE_PAIRS:
        sm, am = methods_of(facts, sty), methods_of(facts, aty)
        if not am:
            rep.fail("R15.2", aty, "async twin type present", "no methods found for %s" % aty)
            continue
        pub_s = {k for k, b in sm.items() if b.vis == "pub"}
        pub_a = {k for k, b in am.items() if b.vis == "pub"}
        for k in sorted(pub_s ^ pub_a):
            side = "sync" if k in pub_s else "async"
            ok = (sty, k, "only-" + side) in ONE_SIDED
            n += 1
            rep.ob("R15.2", (sm.get(k) or am.get(k)).id, "public method %s exists on both sides" % k, ok,
                   ONE_SIDED.get((sty, k, "only-" + side), "public method `%s` exists only in the %s world" % (k, side)),
                   (sm.get(k) or am.get(k)).span)
        for k in sorted(set(sm) & set(am)):
            sb, ab = sm[k], am[k]
            if is_private_helper(sb, sty) and is_private_helper(ab, aty):
                continue  # helper structure may differ; helpers are inlined into their callers' event sets
            es, ea = events(facts, inter, sb), events(facts, inter, ab)
            diff = []
            for e in sorted(es ^ ea):
                if any((t, m, ev) in BENIGN for t in (sty, "*") for m in (k, "*") for ev in (e, "*")):
                    continue
                diff.append(("sync-only " if e in es else "async-only ") + e)
            n += 1
            if not diff:
                rep.ob("R15.2", ab.id, "twin %s::%s agrees with its sync counterpart" % (aty.split("::")[-1], k), True,
                       "%d events agree" % len(es & ea), ab.span)
            # same events in the same order: for two calls that occur once in each twin, the one that comes first in the sync
            # version comes first in the async one (`destination.create_dir()` before the source walk is opened: when the walk
            # fails, one world has left an empty destination behind and the other has not)
            if sty == "path::VfsPath":
                s_once, s_rel = ordered_calls(facts, inter, sb)
                a_once, a_rel = ordered_calls(facts, inter, ab)
                swapped = sorted((x_, y_) for (x_, y_) in s_rel if (y_, x_) in a_rel and x_ in a_once and y_ in a_once)
                n += 1
                rep.ob("R15.2", ab.id, "twin %s::%s makes its calls in the sync order" % (aty.split("::")[-1], k), not swapped, "" if not swapped else
                       "%s comes before %s in %s and after it in the async twin: when the first of the two fails, the two worlds leave "
                       "different things behind" % (swapped[0][0], swapped[0][1], sb.id), ab.span)
            for dv in diff:
                rep.ob("R15.2", ab.id, "twin %s::%s: %s" % (aty.split("::")[-1], k, dv), False,
                       "the async twin differs from %s in the event `%s`: a behaviour (or a fix) present in one world only" % (sb.id, dv), ab.span)
    return n


# public items that legitimately exist on one side only
ONE_SIDED = {
    ("impls::memory::MemoryFS", "set_creation_time", "only-sync"): "KNOWN: AsyncMemoryFS keeps no timestamps (finding F22)",
}


# ---------------------------------------------------------------- R15.4
def poll_next_rules(facts, rep, D):
    w = World(facts, True)
    nb = None
    for b in facts.bodies:
        if b.impl and b.impl["self_ty"] == w.walk and b.name == "poll_next" and b.kind != "Closure":
            nb = b
    if nb is None:
        rep.fail("R15.4", w.walk, "poll_next present", "missing")
        return 0
    tr = get_tracer(facts, nb)
    n = 0
    adt = facts.adts.get(w.walk)
    fut_slots = [f["name"] for v in adt["variants"] for f in v["fields"] if f["ty"].startswith("std::option::Option<std::pin::Pin<std::boxed::Box<")]
    stash = [f["name"] for v in adt["variants"] for f in v["fields"] if f["ty"].startswith("std::option::Option<async_vfs::path::AsyncVfsPath")]
    n += 1
    rep.ob("R15.4", nb.id, "future slots and item stash identified by type", len(fut_slots) == 2 and len(stash) == 1,
           "slots=%s stash=%s" % (fut_slots, stash), nb.span)
    polls = [blk for blk in nb.calls() if short(blk.term.callee() or "") in ("FutureExt::poll_unpin", "Future::poll")]
    n += 1
    rep.ob("R15.4", nb.id, "stored futures are polled", len(polls) == 2, "%d poll sites" % len(polls), nb.span)
    stores = []  # (bb, field, value term)
    for blk in nb.blocks:
        if blk.cleanup:
            continue
        for st in blk.stmts:
            if st.kind == "assign" and not st.lhs.is_local():
                fs = st.lhs.fields()
                if fs and fs[-1] in fut_slots + stash:
                    stores.append((blk.idx, fs[-1], norm(tr.rvalue(st.rv, frozenset())), st.line))
    for pb in polls:
        fut = norm(tr.operand(pb.term.args[0]))
        alts_ = fut[1] if fut[0] == "phi" else (fut,)
        slot = None
        ok_src = True
        for a in alts_:
            if a[0] == "call" and a[1] in ("Box::pin",) or a[0] == "closure":
                continue
            # must be unwrap(take(slot))
            if a[0] == "call" and a[1] == "Option::unwrap" and a[2] and a[2][0][0] == "call" and a[2][0][1] == "Option::take" and \
                    a[2][0][2][0][0] == "field" and a[2][0][2][0][2] in fut_slots:
                slot = a[2][0][2][0][2]
                continue
            # ... or the payload of `match slot.take() { Some(f) => f, .. }` / `if let Some(f) = slot.take()`
            if a[0] == "okval" and a[1][0] == "call" and a[1][1] == "Option::take" and a[1][2] and a[1][2][0][0] == "field" and \
                    a[1][2][0][2] in fut_slots:
                slot = a[1][2][0][2]
                continue
            ok_src = False
            for x in walk(a):
                if x[0] == "field" and x[2] in fut_slots:
                    slot = x[2]
        n += 1
        rep.ob("R15.4", nb.id, "polled future is freshly created or taken out of its slot", ok_src and slot is not None, "" if ok_src else
               "a stored future is polled in place (%s): after it completed it stays in the slot and is polled again — "
               "`async fn` resumed after completion" % fmt(fut)[:80], pb.term.line)
        if slot is None:
            continue
        # stores into this slot: only on the Pending edge of this poll, and such a store exists
        mine = [s for s in stores if s[1] == slot]
        has_pending_store = False
        for (bb, f, v, line) in mine:
            gs = D.guards(nb, bb)
            on_pending = any(g[0] == "variant" and g[3] == "Pending" and peel(g[1])[0] == "call" and
                             peel(g[1])[1] in ("FutureExt::poll_unpin", "Future::poll") for g in gs)
            is_none = v[0] == "agg" and v[2] == "None"
            n += 1
            rep.ob("R15.4", nb.id, "future stored into `%s` only after it returned Pending" % slot, on_pending or is_none, "" if (on_pending or is_none) else
                   "a future is put back into its slot on a path where it has already completed", line)
            if on_pending and v[0] == "agg" and v[2] == "Some":
                has_pending_store = True
        n += 1
        rep.ob("R15.4", nb.id, "a Pending `%s` future is kept for the next poll" % slot, has_pending_store, "" if has_pending_store else
               "when the future returns Pending it is not stored: the next poll creates a new one and the wake-up of the old "
               "one is lost", pb.term.line)
    # Pending returns after the metadata poll keep the item
    for ct, _, bb in D.inter.ret_cases(nb):
        c = norm(ct)
        if not (c[0] == "agg" and c[2] == "Pending"):
            continue
        gs = D.guards(nb, bb)
        item_in_hand = any(g[0] == "variant" and g[2] == "ok" and g[1][0] == "phi" for g in gs) or \
            any("metadata" in repr(g) and g[0] == "variant" and g[3] == "Pending" for g in gs)
        if not item_in_hand:
            continue
        doms = set(tr.cfg.dominating_blocks(bb))
        kept = any(s[0] in doms and s[1] in stash and s[2][0] == "agg" and s[2][2] == "Some" for s in stores)
        n += 1
        rep.ob("R15.4", nb.id, "Pending with an item in hand stashes the item", kept, "" if kept else
               "poll_next returns Pending after it obtained an item without storing it: the item is lost", nb.blocks[bb].term.line)
    # the stash is consumed with take()
    uses = []
    for blk in nb.calls():
        t = blk.term
        a = [norm(tr.operand(x)) for x in t.args]
        if a and a[0][0] == "field" and a[0][2] in stash:
            uses.append((short(t.callee() or ""), t.line))
    bad = [u for u in uses if u[0] not in ("Option::take", "Option::is_none", "Option::is_some")]
    n += 1
    rep.ob("R15.4", nb.id, "the stashed item is consumed with take()", not bad and any(u[0] == "Option::take" for u in uses), "" if not bad else
           "the stash is read with %s: it is not emptied when its item is used, so an error on that item is yielded forever" % bad[0][0],
           bad[0][1] if bad else nb.span)
    # pops only on Ready edges of the read_dir future
    for blk in nb.calls():
        if short(blk.term.callee() or "") in ("Vec::pop", "Vec::remove", "Vec::truncate"):
            gs = D.guards(nb, blk.idx)
            ready = any(g[0] == "variant" and g[3] == "Ready" and peel(g[1])[0] == "call" and peel(g[1])[1] in ("FutureExt::poll_unpin", "Future::poll") for g in gs)
            n += 1
            rep.ob("R15.4", nb.id, "directory popped only when its listing arrived (Ready)", ready, "" if ready else
                   "the pending directory is removed from the stack before its read_dir future completed: a Pending loses it", blk.term.line)
    return n


def run(facts, rep, tier, ctx):
    D = Discharger(facts, load_records(os.path.join(ctx["V"], "rules", "panic_records.json")))
    wa = World(facts, True)
    if not wa.present():
        rep.fail("R15.A", "async_vfs", "async world present", "async_vfs module not found in the all-features build")
        return
    from ..report import Report
    from .c10 import _Prefixed
    A = _Prefixed(rep, "R15.A")
    pr = PathRules(facts, wa, D)
    n = pr.table_p(A, "P")
    n += pr.fast_paths(A, "R11.2")
    n += pr.generic_routes(A, "R11.3")
    n += pr.copy_dir_count(A, "R11.4")
    n += pr.create_dir_all(A, "R17.1")
    rep.floor("path-layer obligations on the async world", n, 60)
    n = c09.table_u(facts, A, wa, "U")
    n += c09.resolver_rules(facts, A, wa, "R09.3")
    n += c09.listing_rules(facts, A, wa, "R09.4")
    n += c09.materialisation_rules(facts, A, wa, "R09.2")
    n += c10.marker_rules(facts, A, wa)
    n += c09.relative_join_rules(facts, A, wa, "R09.6")
    rep.floor("overlay obligations on the async world", n, 55)
    n = c07.delegation(facts, A, wa, "R07.3", D)
    rep.floor("altroot obligations on the async world", n, 40)
    found, n, mm = c01.table_m(facts, A, "M", "Mk", self_ty=wa.memory, trait="AsyncFileSystem")
    rep.floor("Table M obligations on AsyncMemoryFS", n, 14)
    n = physrules.table_o_shape(facts, A, "O", wa)
    rep.floor("PhysicalFS std-call obligations on the async world", n, 20)
    # where the twin comparison accepts different callees (which stat-like probe exists() uses), the property that makes them
    # interchangeable is required of the sync side here as well
    scratch_o = Report("o")
    physrules.table_o_shape(facts, scratch_o, "O", World(facts, False))
    for o in scratch_o.obligations:
        d = o["key"].split("|")[2]
        if d in ("exists never fails", "exists performs exactly access"):
            rep.ob("R15.2s", o["fn"], d, o["ok"], o["detail"], o["loc"])
    h = Handles(facts, True, D)
    n = h.seek_rules(A, "R14.2", "R14.3") + h.read_rules(A, "R14.4")
    rep.floor("async reader obligations", n, 16)
    n = c05.child_path_rules(facts, A, wa, D) + c05.is_kind_rules(facts, A, wa, D) + c05.walk_rules(facts, A, wa, D) + \
        c05.memory_listing_rules(facts, A, wa, D)
    rep.floor("observer obligations on the async world", n, 18)
    from . import c04 as _c04
    _c04.read_to_string_rules(facts, A, wa, D, "R04.5")
    _c04.session_start_rules(facts, A, wa, D, "R04.2")
    c12.run_world(facts, A, wa, {"fallible": 25, "with_path": 25})
    c20.run_world(facts, A, wa, {"results": 20, "err_edges": 5, "kind_arms": 4})
    n = poll_next_rules(facts, rep, D)
    rep.floor("poll_next typestate obligations", n, 12)
    # R15.5 the async writer publishes on flush like the sync writer (R04.1) — and on drop
    n = h.writer_rules(A, "R04.1", "R14.5", "R19.2")
    h.flush_publishes(rep, "R15.5")
    n = twin_rules(facts, rep, D)
    rep.floor("twin pairs compared", n, 70)
    # the async physical metadata classifies like the sync one: Directory exactly under is_dir() (a socket / FIFO / device is a
    # file on both sides), length 0 for directories and Metadata::len() otherwise — C04 R04.3
    _c04.length_rules(facts, A, wa, D, "R15.A/R04.3")
    rep.assume("executor-level behaviour (wake-ups delivered) and async_std::fs vs std::fs agreement are trusted")
