"""C13 — no operation panics.

 R13.1 inventory: every Assert terminator (overflow, bounds, division) and every call into the frozen
       panicking-callee table (unwrap/expect, Index, split_at, copy_from_slice, Vec::remove, time
       arithmetic, block_on, spawn_blocking, print!, panic!...) in every non-derived body of the crate.
 R13.2 every site must be discharged by a machine-checked idiom (D1..D12) or by a reviewed record whose
       premises are re-checked on each run; anything else is reported.
 R13.3 hostile directory contents: the PhysicalFS closures are ordinary sites of the inventory.
 R13.4 (thorough) cross-reference with clippy's restriction lints: inventory ⊇ clippy sites.
"""
import os
import re
import subprocess
from ..terms import get_tracer, fmt
from ..panics import inventory, Discharger, load_records

EXPLANATION = ("panic-site inventory over rustc MIR (all Assert terminators + calls into a frozen table of panicking std "
               "callees) for every function of the crate, sync, embedded and async; each site must be proven "
               "unreachable by a guard/origin idiom evaluated on the dominating branch outcomes, or by a reviewed record "
               "with machine-checked premises. Proof-style: errs towards alarm. Does not cover allocation failure, "
               "stack overflow, or panics inside std/dependencies on valid arguments.")


def collect(facts, V):
    D = Discharger(facts, load_records(os.path.join(V, "rules", "panic_records.json")))
    sites = []
    for b in facts.bodies:
        if b.impl and b.impl.get("derived"):
            continue
        for s in inventory(facts, b):
            r = D.discharge(s)
            sites.append((b, s, r))
    return D, sites


def sites_for(facts, rep, V, rule, fn_pred):
    """panic-site obligations restricted to functions whose root satisfies fn_pred (for re-use by other properties)"""
    D, sites = collect(facts, V)
    n = 0
    for b, s, r in sites:
        root = facts.body(b.root) if b.kind == "Closure" and b.root else b
        if root is None or not fn_pred(root):
            continue
        n += 1
        rep.ob(rule, D.owner_id(b), s.desc, r is not None, ("%s: %s" % r) if r else (s.reason or "undischarged panic site: %s" % s.what), s.line)
    return n


def run(facts, rep, tier, ctx):
    V = ctx["V"]
    D, sites = collect(facts, V)
    n_assert = sum(1 for _, s, _ in sites if s.kind == "assert")
    n_call = sum(1 for _, s, _ in sites if s.kind == "call")
    idioms = {}
    for b, s, r in sites:
        if r is None:
            tr = get_tracer(facts, b)
            if s.kind == "call":
                args = ", ".join(fmt(tr.operand(a))[:60] for a in s.term.args)
            else:
                args = fmt(tr.operand(s.term.cond))[:100]
            why = s.reason or ("no discharge idiom proves this %s safe: %s(%s)" % (
                "call" if s.kind == "call" else "arithmetic/bounds check", s.what, args))
            rep.ob("R13.2", D.owner_id(b), s.desc, False, why, s.line)
        else:
            idioms[r[0]] = idioms.get(r[0], 0) + 1
            rep.ob("R13.2", D.owner_id(b), s.desc, True, "%s: %s" % r, s.line)
    rep.note("discharge idiom usage: %s" % dict(sorted(idioms.items())))
    rep.floor("Assert terminators inventoried", n_assert, 16)  # 20 today; a vacuity floor: tidying arithmetic away removes asserts
    rep.floor("panicking-callee call sites inventoried", n_call, 60)
    # lock regions for D9 must exist (MemoryFS has 14 acquisitions)
    nacq = 0
    for b in facts.bodies:
        nacq += len(D.locks.info(b).acqs)
    rep.floor("std lock acquisitions seen (D9 premise)", nacq, 13)
    bad = D.panics_under_lock()
    for (b, s, a) in bad:
        rep.ob("R13.2", b.id, "panic site inside lock region: %s" % s.desc, False,
               "an undischarged panic site lies inside the critical section opened at %s: a panic there poisons the "
               "lock and every later MemoryFS call panics" % a.line, s.line)
    # `async fn` resumed after completion is a panic the MIR inventory cannot see (the check is inserted after
    # mir_built): it is excluded structurally by the stream typestate rule R15.4
    if any(b.impl and b.impl["self_ty"] == "async_vfs::path::WalkDirIterator" for b in facts.bodies):
        from . import c15
        c15.poll_next_rules(facts, rep, D)
    # R13.5 a formatting impl fails only when the writer it is given fails: `format!`, `to_string`, `println!`, a failing `assert_eq!`
    # of two paths ... panic ("a formatting trait implementation returned an error") when fmt() answers Err on its own.  No
    # `fmt::Error` value is built anywhere in the crate — every Err a fmt() returns is the Formatter's
    from ..terms import get_tracer as _gt13, walk as _wk13
    from ..panics import norm as _nm13
    nfmt = 0
    for b in facts.bodies:
        if b.file.startswith("tests") or b.file.endswith("test_macros.rs"):
            continue
        if b.kind != "Closure" and b.name == "fmt" and b.impl and (b.impl.get("trait") or "").startswith("std::fmt::") and \
                not b.impl.get("derived"):
            nfmt += 1
        built = []
        tr13 = None
        for blk in b.blocks:
            if blk.cleanup:
                continue
            for st in blk.stmts:
                if st.kind == "assign" and st.rv.kind == "agg" and st.rv.agg.get("adt") == "std::fmt::Error":
                    built.append(st.line)
            t = blk.term
            if t.kind == "call" and t.args:
                tr13 = tr13 or _gt13(facts, b)
                for a in t.args:
                    if a.place is None and any(x[0] == "agg" and x[1] == "std::fmt::Error" for x in _wk13(_nm13(tr13.operand(a)))):
                        built.append(t.line)
        for line in sorted(set(built)):
            rep.ob("R13.5", D.owner_id(b), "no fmt::Error of the library's own", False,
                   "a `fmt::Error` is built here: a Debug/Display impl that returns it while the writer is fine makes format!/to_string/"
                   "println! panic in the caller", line)
    rep.ob("R13.5", "crate", "hand-written fmt impls inspected", nfmt >= 1, "%d impl(s); no fmt::Error constructed" % nfmt, "")
    if tier == "thorough":
        clippy_crossref(facts, rep, ctx, sites)
    rep.assume("FileSystem contract: every path a backend receives is \"\" or starts with '/' (the path layer only "
               "produces canonical paths, rule R06.2/R06.3); foreign callers of the raw trait are bound by its documentation")
    rep.assume("std contracts: Cursor<Vec<u8>>::flush never fails; lengths of strings/slices are <= isize::MAX")
    rep.assume("rust-embed contract: every name yielded by iter() is accepted by get(); embedded timestamps are real mtimes")


def clippy_crossref(facts, rep, ctx, sites):
    """R13.4: every clippy restriction-lint site must be in the inventory (guards the extractor against blind spots)"""
    repo = ctx["repo"]
    lints = ["clippy::unwrap_used", "clippy::expect_used", "clippy::indexing_slicing", "clippy::string_slice",
             "clippy::panic", "clippy::unreachable", "clippy::todo", "clippy::unimplemented", "clippy::arithmetic_side_effects"]
    env = dict(os.environ)
    env["CARGO_TARGET_DIR"] = os.path.join(ctx["V"], ".cache", "target-clippy")
    env["CARGO_NET_OFFLINE"] = "true"
    cmd = ["cargo", "clippy", "--offline", "--lib", "--all-features", "--message-format=short",
           "--manifest-path", os.path.join(repo, "Cargo.toml"), "--"] + sum([["-W", l] for l in lints], [])
    # force a fresh run
    subprocess.run(["rm", "-rf", os.path.join(env["CARGO_TARGET_DIR"], "debug", ".fingerprint")] , check=False)
    p = subprocess.run(cmd, stdout=subprocess.PIPE, stderr=subprocess.STDOUT, text=True, env=env, cwd=repo)
    have = {}
    for b, s, r in sites:
        have.setdefault(s.line, []).append(s)
    missing = []
    n = 0
    for line in p.stdout.splitlines():
        m = re.match(r"^(src/[^:]+):(\d+):\d+: warning: (.*)$", line)
        if not m:
            continue
        f, ln, msg = m.group(1), int(m.group(2)), m.group(3)
        if not any(k in msg for k in ("unwrap", "expect", "indexing", "slicing", "panic", "arithmetic", "unreachable")):
            continue
        n += 1
        # inventory lines are call-site lines; allow a small window for multi-line expressions
        if not any(("%s:%d" % (f, l)) in have for l in range(ln - 6, ln + 7)):
            # arithmetic on floats / in test code etc. is not a panic site; report for triage
            missing.append("%s:%d %s" % (f, ln, msg[:80]))
    rep.ob("R13.4", "clippy", "inventory covers clippy restriction-lint sites", not missing,
           ("clippy reports %d panic-prone sites; not in the MIR inventory: %s" % (n, missing[:6])) if missing else
           "%d clippy sites, all within the MIR inventory" % n, "cargo clippy")
    rep.floor("clippy restriction-lint sites cross-referenced", n, 30)
