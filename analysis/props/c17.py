"""C17 — concurrent create_dir_all calls all succeed.

The structural argument the 0.9.0 fix rests on — attempt, then tolerate "already a directory"; never ask first:
 R17.1 in create_dir_all (both worlds) no creating call is control-dependent on an exists/metadata observation;
       the prefixes of self.path are attempted; no observation of the filesystem at all.
 R17.2 the Err of the creating call is kind-switched; DirectoryExists is the only arm that continues.
 R17.3 every backend decides "occupied by a directory" atomically with the creation attempt and reports
       DirectoryExists: MemoryFS — entry() decision and insert in one write-lock region, Occupied+Directory builds
       DirectoryExists, no lock event under a live guard (no self-deadlock); PhysicalFS — one mkdir, not preceded by a
       stat, AlreadyExists classified by the occupant.
 R17.4 adapters preserve the kind: AltrootFS::create_dir is exact delegation; OverlayFS::create_dir reports
       DirectoryExists for a union directory, un-marks only after the upper create (two racing callers must not both
       remove the marker first), and materialises parents with the tolerant create_dir_all.
"""
import os
from ..terms import get_tracer, short, walk, fmt
from ..pathflow import World
from ..pathrules import PathRules
from ..panics import Discharger, load_records
from ..locks import LockSummary
from .. import physrules
from . import c01, c07, c09, c10, c16

EXPLANATION = ("control-dependence + kind-switch + lock-region analysis over rustc MIR: create_dir_all never asks before "
               "creating and tolerates exactly DirectoryExists; each backend takes the occupied/vacant decision atomically "
               "with the creation and reports DirectoryExists; adapters keep that kind. A sufficient structural argument "
               "for every interleaving of concurrent create_dir_all calls without concurrent removals; the OS's mkdir "
               "atomicity is trusted.")


def run(facts, rep, tier, ctx):
    D = Discharger(facts, load_records(os.path.join(ctx["V"], "rules", "panic_records.json")))
    for w in (World(facts, False), World(facts, True)):
        if not w.present():
            rep.fail("R17.1", w.tag, "world present", "async_vfs missing")
            continue
        pr = PathRules(facts, w, D)
        n = pr.create_dir_all(rep, "R17.1")
        rep.floor("create_dir_all obligations (%s)" % w.tag, n, 6)
    # R17.5 what the in-memory backends answer never depends on who else holds the lock: the filesystem lock is taken by waiting for
    # it (read / write / lock), not by a try_* acquisition whose failure is turned into an answer — an exists() that says "no"
    # while a concurrent create_dir holds the write lock makes the checked create of the next segment fail ("parent does not exist")
    from ..inter import Inter as _In17
    in17 = _In17(facts)
    ntry = nacq17 = 0
    for b5 in facts.bodies:
        if not b5.file.endswith(("impls/memory.rs",)):
            continue
        for s5 in in17.sites(b5):
            if s5.short in ("RwLock::read", "RwLock::write", "Mutex::lock"):
                nacq17 += 1
            if s5.short in ("RwLock::try_read", "RwLock::try_write", "Mutex::try_lock", "RwLock::try_upgradable_read"):
                ntry += 1
                rep.ob("R17.5", D.owner_id(b5), "the filesystem lock is waited for, not tried", False,
                       "%s: when another thread holds the lock this call answers from \"lock busy\" instead of from the tree (a spurious "
                       "\"does not exist\" / refusal under concurrency)" % s5.short, s5.line)
    rep.ob("R17.5", "impls/memory.rs", "lock acquisitions of the in-memory backends inspected", nacq17 >= 10,
           "%d blocking acquisitions, %d try_* acquisitions" % (nacq17, ntry), "")
    ws = World(facts, False)
    # R17.3 MemoryFS
    from ..report import Report
    scratch = Report("x")
    found, n, mm = c01.table_m(facts, scratch, "M", "Mk", ops_filter=("create_dir",))
    for o in scratch.obligations:
        rep.ob("R17.3", o["fn"], o["key"].split("|")[2], o["ok"], o["detail"], o["loc"])
    b = mm.ops.get("create_dir")
    ls = LockSummary(facts, mm.inter)
    if b is not None:
        li = ls.info(b)
        tr = get_tracer(facts, b)
        wr = [a for a in li.acqs if a.mode == "write"]
        decide = [blk.idx for blk in b.calls() if short(blk.term.callee() or "") in ("HashMap::entry", "HashMap::contains_key", "HashMap::get")]
        ins = [blk.idx for blk in b.calls() if short(blk.term.callee() or "") in ("HashMap::insert", "VacantEntry::insert", "Entry::or_insert_with")]
        same = bool(wr) and all(any(d in a.region and i in a.region for a in wr) for d in decide for i in ins) and decide and ins
        rep.ob("R17.3", b.id, "occupancy decision and insert share one write-lock region", bool(same),
               "" if same else "the occupied/vacant decision and the insertion are not inside one write-locked region: two "
               "racing create_dir calls can both see 'vacant'", b.span)
    scratch2 = Report("y")
    c16.run(facts, scratch2, tier, ctx)
    k = 0
    for o in scratch2.obligations:
        if o["rule"] == "R16.2":
            k += 1
            rep.ob("R17.3", o["fn"], o["key"].split("|")[2], o["ok"], o["detail"], o["loc"])
    rep.floor("lock re-entrancy obligations", k, 10)
    # R17.3s what an in-memory create refuses is decided by looking up the target and its parent — never by a scan over the other
    # entries of the map ("nothing can be created below a file": `parent.starts_with(candidate)` without a '/' boundary makes a
    # sibling file /a refuse create_dir_all(/ab/c))
    from ..inter import Inter as _In17
    in17 = _In17(facts)
    for w3 in (ws, World(facts, True)):
        if not w3.present():
            continue
        ops3 = facts.impl_methods(w3.trait.rsplit("::", 1)[1], w3.memory)
        k3 = 0
        for opn in ("create_dir", "create_file"):
            b3 = ops3.get(opn)
            if b3 is None:
                continue
            todo, seen3 = [b3], {b3.id}
            while todo:
                f3 = todo.pop()
                for cb3 in in17.code_bodies(f3):
                    for s3 in in17.sites(cb3):
                        h3 = in17.local_callee(s3)
                        if h3 is not None and h3.id not in seen3 and h3.kind != "Closure" and h3.vis != "pub" and h3.file == b3.file and \
                                not (h3.impl and h3.impl.get("trait")):
                            seen3.add(h3.id)
                            todo.append(h3)
                    if cb3.kind == "Closure" and cb3 is not in17.code_body(f3):
                        continue
                    for blk3 in cb3.blocks:
                        if blk3.cleanup:
                            continue
                        for st3 in blk3.stmts:
                            if st3.kind == "assign" and st3.rv.kind == "agg" and st3.rv.agg.get("adt") == "error::VfsErrorKind":
                                scans = [g for g in D.guards(cb3, blk3.idx) if any(
                                    x[0] == "call" and isinstance(x[1], str) and x[1] in ("Iterator::any", "Iterator::all", "Iterator::find", "Iterator::position",
                                                                                        "Iterator::filter", "Iterator::count", "Iterator::find_map")
                                    and any(y[0] == "call" and isinstance(y[1], str) and y[1] in ("HashMap::iter", "HashMap::keys", "HashMap::values",
                                                                                                "BTreeMap::iter", "BTreeMap::keys", "BTreeMap::range")
                                            for y in walk(x)) for x in walk(g[1]))]
                                k3 += 1
                                rep.ob(("A/" if w3.asyncw else "") + "R17.3s", b3.id, "%s: refusal %s decided by lookups, not by a scan of the map" % (
                                    opn, st3.rv.agg.get("variant")), not scans, "" if not scans else
                                    "a refusal of %s is decided by a scan over all entries (%s): entries that are neither the target nor its parent can "
                                    "make a create fail" % (opn, fmt(scans[0][1])[:60]), st3.line)
        rep.floor("in-memory create refusals judged (%s)" % w3.tag, k3, 3)
    # PhysicalFS
    physrules.table_o_shape(facts, rep, "R17.3p", ws)
    physrules.mkdir_not_asked(facts, rep, "R17.3p", ws, D)
    # R17.4 adapters
    c07.delegation(facts, rep, ws, "R17.4a", D)
    # (the altroot translator refuses no name of its own — a substring test like contains("..") rejects legal names — and
    # the overlay's layer paths are relative to the layer: a create that lands outside the write layer is not seen afterwards)
    from .c10 import _Prefixed as _Pf17
    for w17 in (ws, World(facts, True)):
        if w17.present():
            c07.gate_rules(facts, _Pf17(rep, ("A/" if w17.asyncw else "") + "R17.4g"), w17, D)
            c09.relative_join_rules(facts, rep if not w17.asyncw else _Pf17(rep, "A"), w17, rule="R17.4j")
    # ... and the physical translator hands every name to the OS as it is (a backslash inside a segment is part of the name, not
    # a separator: `create_dir_all("/reports\\2024")` must create one directory); the path type's create_dir hands the backend's
    # error class on through any number of stacked adapters (a re-wrapped DirectoryExists is not tolerated one level up)
    from . import c12 as _c12k
    for w17 in (ws, World(facts, True)):
        if w17.present():
            c07.physical_gate(facts, _Pf17(rep, ("A/" if w17.asyncw else "") + "R17.4t"), w17, D)
            _c12k.kind_preserving_relabels(facts, rep, w17, ("A/" if w17.asyncw else "") + "R17.2k", only=("create_dir", "create_dir_all"))
    # (an adapter's create_dir does nothing optional on the way: a time setter called from it — "bump the parent's mtime" — answers
    # NotSupported on backends that keep the trait default and fails a create that has already happened; C19 R19.4w)
    from . import c19 as _c19w
    from ..report import Report as _Rp17
    scr17 = _Rp17("w")
    _c19w.run(facts, scr17, "quick", ctx)
    for o in scr17.obligations:
        if o["rule"] in ("R19.4w", "A/R19.4w"):
            rep.ob(o["rule"].replace("R19.4w", "R17.4s"), o["fn"], o["key"].split("|")[2], o["ok"], o["detail"], o["loc"])
    c09.table_u(facts, rep, ws, "R17.4o", only=("create_dir",))
    c09.materialisation_rules(facts, rep, ws, "R17.4o")
    c10.marker_rules(facts, rep, ws, prefix="R17.4m", only=("R10.3", "R10.2"))
    # the segment loop of create_dir_all slices the path: no undischarged panic site (shared with C13 / C01)
    from . import c13
    kk = c13.sites_for(facts, rep, ctx["V"], "R17.p", lambda r: r.name == "create_dir_all")
    rep.floor("create_dir_all slicing sites", kk, 6)
    # ... nor has any backend's / adapter's create_dir (a racing caller must get DirectoryExists, not a panic: an assertion of
    # a state that only holds sequentially is one)
    c13.sites_for(facts, rep, ctx["V"], "R17.pc", lambda r: r.name in ("create_dir", "exists", "metadata") and bool(r.impl) and
                  bool(r.impl.get("trait")) and r.impl["trait"].rsplit("::", 1)[-1] in ("FileSystem", "AsyncFileSystem"))
    # no process-wide lock: every lock the crate takes belongs to one filesystem value (a `static` Mutex is shared by all
    # instances — an adapter stacked on an adapter of the same kind re-enters it and create_dir_all never returns)
    static_locks = []
    n_locks = 0
    for b_ in facts.bodies:
        if "::tests::" in b_.id or b_.file.startswith("src/test_macros"):
            continue
        tr_ = get_tracer(facts, b_)
        for blk_ in b_.calls():
            sh_ = short(blk_.term.callee() or "")
            if sh_.split("<")[0] in ("Mutex::lock", "Mutex::try_lock", "RwLock::read", "RwLock::write", "RwLock::try_read", "RwLock::try_write",
                                     "Condvar::wait", "Once::call_once", "OnceLock::get_or_init", "OnceCell::get_or_init") and blk_.term.args:
                n_locks += 1
                recv_ = tr_.operand(blk_.term.args[0])
                if recv_[0] == "const" or any(x[0] == "const" and "alloc" in str(x[1]) for x in walk(recv_)):
                    static_locks.append((b_.id, sh_, blk_.term.line))
    rep.ob("R17.s", "crate", "every lock belongs to a filesystem value (no static lock)", not static_locks, "%d lock acquisitions examined" % n_locks
           if not static_locks else "%s takes a process-wide lock (%s): shared by every instance, re-entered by stacked adapters"
           % (static_locks[0][0], static_locks[0][1]), static_locks[0][2] if static_locks else "")
    # every way of constructing the in-memory filesystems yields one whose root is a directory (create_dir_all's first segment
    # needs it)
    from . import c03 as _c03
    _c03.root_rules(facts, rep, "R17.r")
    # R17.4w re-creating a directory that was removed through the overlay takes two writes (create in the write layer, remove
    # the deletion marker).  Between them the union view is inconsistent (the write layer answers DirectoryExists, the
    # overlay's exists() still says "absent"), so a concurrent create_dir_all of something below the directory fails in
    # ensure_has_parent.  The two writes have to sit in one critical section.
    from ..overlayrules import Overlay
    for w_ in (ws, World(facts, True)):
        if not w_.present():
            continue
        ov = Overlay(facts, w_)
        b = ov.ops.get("create_dir")
        if b is None:
            continue
        tag = "A/" if w_.asyncw else ""
        cbody = ov.inter.code_body(b)
        lsx = LockSummary(facts, ov.inter)
        li = lsx.info(cbody)
        creates = [s.bb for cb, s, tr, recv in ov.path_sites(b, ("create_dir",)) if cb is cbody and ov.is_upper_plain(recv)]
        unmarks = [s.bb for cb, s, tr, recv in ov.path_sites(b, ("remove_file",)) if cb is cbody and ov.is_marker(recv)]
        same = bool(creates) and bool(unmarks) and any(all(x in a.region for x in creates + unmarks) for a in li.acqs)
        rep.ob(tag + "R17.4w", b.id, "upper create and marker removal share one critical section", same,
               "" if same else "create_dir creates the directory in the write layer (%d site) and removes its deletion marker (%d site) "
               "without holding a lock across both: while a removed directory is being re-created, a concurrent create_dir_all of a "
               "path below it is told DirectoryExists for the directory and then fails with 'Parent path does not exist'" % (len(creates), len(unmarks)),
               b.span)
    # the async backends and adapters (their own copies of create_dir)
    wa = World(facts, True)
    if wa.present():
        A = c10._Prefixed(rep, "A")
        scratch = Report("xa")
        c01.table_m(facts, scratch, "M", "Mk", self_ty=wa.memory, trait="AsyncFileSystem", ops_filter=("create_dir",))
        k = 0
        for o in scratch.obligations:
            k += 1
            A.ob("R17.3", o["fn"], o["key"].split("|")[2], o["ok"], o["detail"], o["loc"])
        k += physrules.table_o_shape(facts, A, "R17.3p", wa)
        k += physrules.mkdir_not_asked(facts, A, "R17.3p", wa, D)
        k += c07.delegation(facts, A, wa, "R17.4a", D)
        k += c09.table_u(facts, A, wa, "R17.4o", only=("create_dir",))
        k += c09.materialisation_rules(facts, A, wa, "R17.4o")
        k += c10.marker_rules(facts, A, wa, prefix="R17.4m", only=("R10.3", "R10.2"))
        rep.floor("async backend/adapter create_dir obligations", k, 60)
    rep.assume("no concurrent removals and no files in the way (stated by the property)")
    rep.assume("mkdir(2) is atomic")
