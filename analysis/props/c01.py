"""C01 — every backend implements one abstract tree (operation contracts).

 R01.1 Table P: the path layer guards every creation by parent-exists ∧ parent-is-directory, every
       transfer by destination-absent before any mutation, removes a moved source only after the copy.
 R01.2 Table M: every MemoryFS mutation / handle hand-out carries its operation's guard set
       (existence, type, parent, emptiness); missing targets build FileNotFound; create_dir reports
       FileExists/DirectoryExists by the occupant's type.
 R01.3 a failed primitive leaves the tree unchanged: in MemoryFS no mutation site is followed by an
       Err return.
 R01.4 PhysicalFS: each operation has exactly the filesystem effects of its Table-O row on the
       translated path; create_dir maps AlreadyExists by the occupant's is_dir().
 R01.5 adapters: AltrootFS is pure delegation (R07.3), OverlayFS obeys Table U (C09) — re-used.
"""
from ..terms import get_tracer, fmt, strip, short, walk
from ..inter import Inter
from ..pathflow import World
from ..memrules import GuardView, MemoryModel, short_name
from ..pathrules import PathRules
from ..panics import norm
from .. import physrules

EXPLANATION = ("guard-dominance analysis over rustc MIR: for every mutation site (map insert/remove/field write, handle "
               "hand-out, backend call) the branch outcomes that hold on every path to it — expanded through in-crate "
               "callees — must include the operation's documented preconditions (Tables P/M), and PhysicalFS operations "
               "must consist of exactly their Table-O std call. Decides the precondition/refusal/error-kind clauses for "
               "all histories and inputs; does not decide that a successful call changes exactly the named entries.")

MEM = "impls::memory::MemoryFS"
TWO_PATH_OPS = ("copy_file", "move_file", "move_dir")


def table_m(facts, rep, rule_guard, rule_kind, self_ty=MEM, trait="FileSystem", ops_filter=None, atomic=False):
    """Table M obligations; returns dict op -> set of guard letters found (for C02)"""
    mm = MemoryModel(facts, self_ty, trait)
    found = {}
    n = 0

    def need(op, b, cb, bb, line, what, required, site_desc, per_path=False):
        nonlocal n
        key = mm.key_arg(b)
        if per_path:
            sets = mm.path_guard_sets(cb, bb)
            if sets is None:
                rep.fail(rule_guard, b.id, "%s: %s" % (op, site_desc), "too many paths to analyse", line)
                return set()
            views = [GuardView(gs, mm.inter) for gs in sets]
        else:
            views = [GuardView(mm.guards(cb, bb), mm.inter)]
        got_all = None
        for gv in views:
            got = set()
            ex, kind = gv.exists(key)
            if ex:
                got.add("E")
            if gv.type_is(key, "File"):
                got.add("F")
            if gv.type_is(key, "Directory"):
                got.add("D")
            if gv.vacant(key):
                got.add("V")
            if gv.parent_exists(key):
                got.add("P")
            if gv.empty_dir(key):
                got.add("M")
            # "not a directory" holds when vacant or file
            if "V" in got or "F" in got:
                got.add("notdir")
            got_all = got if got_all is None else (got_all & got)
        got_all = got_all or set()
        # a removal whose own outcome is checked (`remove(k).ok_or(FileNotFound)?`) establishes existence itself
        if "E" in required and "E" not in got_all and "remove" in site_desc:
            tr = get_tracer(facts, cb)
            for blk in cb.blocks:
                if blk.cleanup or blk.term.kind != "switch":
                    continue
                dt = tr.operand(blk.term.discr)
                if any(x[0] == "call" and x[3] == (cb.id, bb) for x in walk(dt)) and \
                        any(x[0] == "agg" and x[2] == "FileNotFound" for x in walk(dt)):
                    got_all.add("E")
        for r in required:
            n += 1
            names = {"E": "target exists", "F": "target is a file", "D": "target is a directory", "V": "target vacant",
                     "P": "parent exists", "M": "directory empty", "notdir": "target is not a directory"}
            ok = r in got_all
            rep.ob(rule_guard, b.id, "%s: %s guarded by '%s'" % (op, site_desc, names[r]), ok,
                   "holds on every path to the site" if ok else
                   "%s in %s is reachable without the guard '%s' for the operation's own path: the call is not refused "
                   "when that precondition fails" % (site_desc, op, names[r]), line)
        found.setdefault(op, set()).update(got_all)
        return got_all

    ops = mm.ops
    for op, b in sorted(ops.items()):
        if ops_filter and op not in ops_filter:
            continue
        cb0 = mm.code(b)
        muts = mm.mutation_sites(b)
        if op == "create_dir":
            ins = [m for m in muts if m[2] in ("HashMap::insert", "VacantEntry::insert", "Entry::or_insert", "Entry::or_insert_with")]
            if not ins:
                rep.fail(rule_guard, b.id, "create_dir: insert present", "no insertion found", b.span)
            for cb, bb, sh, key, line in ins:
                need(op, b, cb, bb, line, "insert", ["P", "V"], sh)
            # error kinds by occupant type
            kinds = {}
            for cb in mm.inter.code_bodies(b):
                for blk in cb.blocks:
                    if blk.cleanup:
                        continue
                    for st in blk.stmts:
                        if st.kind == "assign" and st.rv.kind == "agg" and st.rv.agg.get("adt") == "error::VfsErrorKind":
                            gv = GuardView(mm.guards(cb, blk.idx))
                            v = st.rv.agg["variant"]
                            if v in ("FileExists", "DirectoryExists"):
                                kinds[v] = (gv.type_is(mm.key_arg(b), "File" if v == "FileExists" else "Directory"), st.line)
            # ... whatever else is wrong with the call: an occupied path is answered with the occupant's kind before any other
            # refusal is considered (the root is occupied and has no parent to find)
            key_ = mm.key_arg(b)
            for ct, _, rbb in mm.inter.ret_cases(b):
                if mm.inter.case_polarity(ct) != "err":
                    continue
                tn = norm(ct)
                if any(x[0] == "agg" and x[1] == "error::VfsErrorKind" and x[2] in ("FileExists", "DirectoryExists") for x in walk(tn)):
                    continue
                cbr = mm.inter.code_body(b)
                okv = GuardView(mm.guards(cbr, rbb), mm.inter).vacant(key_)
                n += 1
                rep.ob(rule_kind, b.id, "create_dir: every other refusal is made for a vacant target only", okv, "" if okv else
                       "create_dir can fail with %s before it has looked at what occupies the path: on an occupied path (the root, "
                       "whose parent cannot be found) the caller gets that error instead of DirectoryExists / FileExists"
                       % fmt(tn)[:60], cbr.blocks[rbb].term.line)
            for v in ("FileExists", "DirectoryExists"):
                ok = v in kinds and kinds[v][0]
                n += 1
                rep.ob(rule_kind, b.id, "create_dir: %s built for a %s occupant" % (v, "file" if v == "FileExists" else "directory"), ok,
                       "under the occupant's type" if ok else "occupied create_dir does not report %s according to the occupant's type" % v,
                       kinds.get(v, (None, b.span))[1])
        elif op == "create_file":
            ins = [m for m in muts if m[2] == "HashMap::insert"]
            if not ins:
                rep.fail(rule_guard, b.id, "create_file: insert present", "no insertion found", b.span)
            for cb, bb, sh, key, line in ins:
                need(op, b, cb, bb, line, "insert", ["P", "notdir"], sh, per_path=True)
        elif op == "append_file":
            hs = mm.handle_sites(b, ("WritableFile",))
            if not hs:
                rep.fail(rule_guard, b.id, "append_file: writer hand-out present", "no writer construction found", b.span)
            for cb, bb, adt, line in hs:
                need(op, b, cb, bb, line, "writer", ["E", "F"], "writer hand-out")
            # opening for append leaves the stored entry as it is until the writer publishes (the only change a hand-out
            # operation may make is the documented access-time bump of open_file)
            touched = [(fld, line) for cb, bb, fld, line, base in mm.field_writes(b)] + [(sh, line) for cb, bb, sh, key, line in muts]
            # ... nor through another mutating operation of the backend (create_file replaces the entry: new time stamps, and
            # whatever was appended by somebody else in between is gone)
            for cb in mm.inter.code_bodies(b):
                for s_ in mm.inter.sites(cb):
                    if s_.trait and s_.trait.rsplit("::", 1)[-1] in ("FileSystem", "AsyncFileSystem") and \
                            s_.name in ("create_file", "create_dir", "remove_file", "remove_dir", "copy_file", "move_file", "move_dir",
                                        "set_creation_time", "set_modification_time", "set_access_time"):
                        touched.append(("call " + s_.name, s_.line))
            n += 1
            rep.ob(rule_guard, b.id, "append_file: the stored entry is not modified", not touched,
                   "" if not touched else "append_file writes %s of the stored entry: until the writer is dropped every other call sees "
                   "the file in that intermediate state (e.g. emptied), which no sequential order of the calls explains" % touched[0][0],
                   touched[0][1] if touched else b.span)
        elif op == "open_file":
            hs = mm.handle_sites(b, ("ReadableFile",))
            if not hs:
                rep.fail(rule_guard, b.id, "open_file: reader hand-out present", "no reader construction found", b.span)
            for cb, bb, adt, line in hs:
                need(op, b, cb, bb, line, "reader", ["E", "F"], "reader hand-out")
        elif op == "read_dir":
            for cb, bb, line in mm.ok_return_sites(b):
                need(op, b, cb, bb, line, "listing", ["E", "D"], "Ok(listing)")
        elif op == "remove_file":
            rms = [m for m in muts if "remove" in m[2]]
            if not rms:
                rep.fail(rule_guard, b.id, "remove_file: removal present", "no removal found", b.span)
            for cb, bb, sh, key, line in rms:
                need(op, b, cb, bb, line, "remove", ["E", "F"], sh)
        elif op == "remove_dir":
            rms = [m for m in muts if "remove" in m[2]]
            if not rms:
                rep.fail(rule_guard, b.id, "remove_dir: removal present", "no removal found", b.span)
            for cb, bb, sh, key, line in rms:
                need(op, b, cb, bb, line, "remove", ["E", "D", "M"], sh)
            # the classes of its refusals follow the same order: "not empty" is said about an existing directory — a missing
            # target is not-found whatever keys happen to start with its name
            cbr = mm.inter.code_body(b)
            for ct, _, rbb in mm.inter.ret_cases(b):
                if mm.inter.case_polarity(ct) != "err":
                    continue
                gs_ = mm.guards(cbr, rbb)
                scanned = any(g[0] == "bool" and g[2] is True and any(
                    x[0] == "call" and isinstance(x[1], str) and x[1] in ("HashMap::keys", "HashMap::iter", "BTreeMap::keys", "BTreeMap::iter", "BTreeMap::range")
                    for x in walk(g[1])) for g in gs_)
                if not scanned:
                    continue
                gv_ = GuardView(gs_, mm.inter)
                oke = gv_.exists(mm.key_arg(b))[0] and gv_.type_is(mm.key_arg(b), "Directory")
                n += 1
                rep.ob(rule_kind, b.id, "remove_dir: 'not empty' is answered for an existing directory only", oke, "" if oke else
                       "remove_dir looks for children before it has found the directory: a missing target with leftover keys below its "
                       "name is reported as 'not empty' instead of FileNotFound", cbr.blocks[rbb].term.line)
        elif op in ("set_creation_time", "set_modification_time", "set_access_time"):
            fw = mm.field_writes(b)
            if not fw:
                rep.fail(rule_guard, b.id, "%s: field write present" % op, "no field write found", b.span)
            for cb, bb, fld, line, base in fw:
                need(op, b, cb, bb, line, "write", ["E"], "write of .%s" % fld)
        elif op == "metadata":
            for cb, bb, line in mm.ok_return_sites(b):
                need(op, b, cb, bb, line, "metadata", ["E"], "Ok(metadata)")
        elif op in TWO_PATH_OPS:
            # optional same-filesystem fast paths (the path layer calls them after checking only !destination.exists()):
            # every entry they add lies at/below `dest`, so the backend itself must establish that dest's parent is an
            # existing directory, and the source's type
            dkey = ("arg", 2, b.name_of_local(3) or "_3", b.id)
            ins = [m for m in muts if "insert" in m[2]]
            for cb, bb, sh, key, line in ins:
                gv = GuardView(mm.guards(cb, bb), mm.inter)
                for nm, ok in (("destination's parent exists", gv.parent_exists(dkey)),
                               ("destination's parent is a directory", gv.parent_is_dir(dkey))):
                    n += 1
                    rep.ob(rule_guard, b.id, "%s: %s guarded by '%s'" % (op, sh, nm), ok,
                           "holds on every path to the site" if ok else
                           "the native %s adds entries at the destination without establishing that %s: the path layer only "
                           "checks !destination.exists() before this fast path, so entries end up below a file / a missing parent" % (op, nm), line)
                need(op, b, cb, bb, line, "insert", ["E", "D" if op == "move_dir" else "F"], sh)
                if atomic and norm(key) == norm(dkey):
                    # (C16 only) the path layer's !destination.exists() is a separate call: what it saw may be gone by now, so
                    # the entry at the destination is inserted only if the destination is vacant *in this critical section*
                    okv = gv.vacant(dkey)
                    n += 1
                    rep.ob(rule_guard, b.id, "%s: %s guarded by 'destination vacant'" % (op, sh), okv,
                           "holds on every path to the site" if okv else
                           "the native %s inserts at the destination without testing, under its own lock, that nothing is there: an entry "
                           "created between the path layer's exists() and this call is replaced (a directory turns into a file with its "
                           "children still stored below it) while both calls report success" % op, line)
        # missing target -> FileNotFound
        if op in ("append_file", "open_file", "read_dir", "remove_file", "metadata", "set_creation_time",
                  "set_modification_time", "set_access_time"):
            has = False
            for cb in mm.inter.code_bodies(b):
                tr = get_tracer(facts, cb)
                for blk in cb.calls():
                    t = blk.term
                    if short(t.callee() or "") in ("Option::ok_or", "Option::ok_or_else"):
                        a = [norm(tr.operand(x)) for x in t.args]
                        if a and a[0][0] == "call" and a[0][1] in ("HashMap::get", "HashMap::get_mut", "HashMap::remove") and \
                                len(a) > 1 and a[1][0] == "agg" and a[1][2] == "FileNotFound" and \
                                norm(a[0][2][1]) == norm(mm.key_arg(b)):
                            has = True
            # ... or in a private helper of the same file that receives the path (`self.update_file(path, |file| ..)`): its lookup of
            # that parameter
            if not has:
                for cb in mm.inter.code_bodies(b):
                    tr = get_tracer(facts, cb)
                    for s_ in mm.inter.sites(cb):
                        hb_ = mm.inter.local_callee(s_)
                        if hb_ is None or hb_.kind == "Closure" or hb_.vis == "pub" or hb_.file != b.file or \
                                (hb_.impl and hb_.impl.get("trait")) or hb_.id == b.id:
                            continue
                        js = [j for j, a_ in enumerate(s_.args) if norm(tr.operand(a_)) == norm(mm.key_arg(b))]
                        for hcb in mm.inter.code_bodies(hb_):
                            htr = get_tracer(facts, hcb)
                            for blk in hcb.calls():
                                t = blk.term
                                if short(t.callee() or "") in ("Option::ok_or", "Option::ok_or_else"):
                                    a = [norm(htr.operand(x)) for x in t.args]
                                    if a and a[0][0] == "call" and a[0][1] in ("HashMap::get", "HashMap::get_mut", "HashMap::remove") and \
                                            len(a) > 1 and a[1][0] == "agg" and a[1][2] == "FileNotFound" and len(a[0][2]) > 1 and \
                                            norm(a[0][2][1])[0] == "arg" and norm(a[0][2][1])[1] in js and norm(a[0][2][1])[3] == hb_.id:
                                        has = True
            # ... or spelled out: `match map.get(path) { None => Err(FileNotFound), .. }`
            if not has:
                cbm = mm.inter.code_body(b)
                for ct, _, rbb in mm.inter.ret_cases(b):
                    tnm = norm(ct)
                    kinds_m = [x[2] for x in walk(tnm) if x[0] == "agg" and x[1] == "error::VfsErrorKind"]
                    if mm.inter.case_polarity(ct) == "err" and kinds_m == ["FileNotFound"] and \
                            GuardView(mm.guards(cbm, rbb), mm.inter).vacant(mm.key_arg(b)):
                        has = True
            n += 1
            rep.ob(rule_kind, b.id, "%s: missing target reported as FileNotFound" % op, has,
                   "lookup(path).ok_or(FileNotFound)" if has else "no lookup of the operation's path that maps absence to FileNotFound", b.span)
    return found, n, mm


def failed_primitive_unchanged(facts, rep, rule, mm):
    n = 0
    for op in ("create_dir", "create_file", "append_file", "remove_file", "remove_dir"):
        b = mm.ops.get(op)
        if b is None:
            continue
        # a write handle publishes when it is dropped: building it is a deferred mutation, so it may only be built once
        # nothing can fail any more (an early `?` return would drop it and publish an empty file over whatever is there)
        for cb, bb, adt, line in mm.handle_sites(b, ("WritableFile",)):
            bad = mm.err_reachable_after(cb, bb)
            n += 1
            rep.ob(rule, b.id, "%s: no Err return after the write handle was built" % op, not bad,
                   "the handle is the last thing built" if not bad else
                   "an Err return is reachable after the write handle was constructed: the handle is dropped on that path and its "
                   "Drop publishes an (empty) file although the call failed", line)
        for cb, bb, sh, key, line in mm.mutation_sites(b):
            bad = mm.err_reachable_after(cb, bb)
            n += 1
            rep.ob(rule, b.id, "%s: no Err return after %s" % (op, sh), not bad,
                   "all fallible checks precede the mutation" if not bad else
                   "an Err return is reachable after the map was already modified: a failed call leaves a changed tree", line)
    return n


def run(facts, rep, tier, ctx):
    ws = World(facts, False)
    pr = PathRules(facts, ws)
    n = pr.table_p(rep, "R01.1")
    rep.floor("Table P obligations", n, 25)
    # a successful copy_dir / move_dir changes exactly the entries it names: every walked item lands at destination.join(its
    # path relative to the source), directories and files chosen by the item's own type (shared with C11 R11.3)
    pr.generic_routes(rep, "R01.1g")
    # a completed write session leaves exactly the written bytes in the entry it names (publication, shared with C04 R04.1)
    import os as _os
    from ..handlerules import Handles
    from ..panics import Discharger, load_records
    _D = Discharger(facts, load_records(_os.path.join(ctx["V"], "rules", "panic_records.json")))
    Handles(facts, False, _D).writer_rules(rep, "R01.6", "R01.6", "R01.6t")
    # create_dir_all is the one composite the adapters themselves rely on (overlay parent materialisation)
    pr.create_dir_all(rep, "R01.1c")
    from . import c13
    k = c13.sites_for(facts, rep, ctx["V"], "R01.1c", lambda r: r.name == "create_dir_all")
    rep.floor("create_dir_all slicing sites", k, 6)
    found, n2, mm = table_m(facts, rep, "R01.2", "R01.2k")
    rep.floor("Table M obligations", n2, 28)
    n3 = failed_primitive_unchanged(facts, rep, "R01.3", mm)
    rep.floor("MemoryFS mutation sites checked for failure atomicity", n3, 4)
    n4 = physrules.table_o_shape(facts, rep, "R01.4", ws)
    rep.floor("PhysicalFS operations checked against Table O", n4, 14)
    # R01.5 adapters
    try:
        from . import c07, c09
        c07.delegation(facts, rep, ws, rule="R01.5")
        c09.table_u(facts, rep, ws, rule="R01.5")
        # creating below a lower-layer directory must succeed whenever the union shows the parent (parent chain mirrored)
        c09.materialisation_rules(facts, rep, ws, rule="R01.5p")
        # "target is missing" is decided through the resolver (own deletion marker first) for listings as for everything else
        c09.listing_rules(facts, rep, ws, rule="R01.5l")
        # ... the resolver itself looks at the path's deletion marker on every call (no per-instance "nothing was removed yet" flag:
        # a second overlay over the same write layer would serve removed entries again)
        c09.resolver_rules(facts, rep, ws, rule="R01.5r")
        # a failed overlay removal must leave the union unchanged: marker only after the upper copy is gone
        from . import c10
        c10.marker_rules(facts, rep, ws, prefix="R01.5m", only=("R10.1", "R10.3", "R10.5"))
        # the altroot translator decides nothing about names: every valid component name (dotted ones included) reaches the inner
        # filesystem, so the adapter shows the same tree as the filesystem it wraps (shared with C07 R07.1-R07.3)
        c07.gate_rules(facts, c10._Prefixed(rep, "R01.5g"), ws, _D)
        # every path the overlay builds on a layer is relative to that layer (an absolute join leaves a layer that is a
        # sub-directory of a filesystem: markers and copies land outside it and the removals they record do not take effect)
        c09.relative_join_rules(facts, rep, ws, rule="R01.5j")
    except ImportError:
        rep.note("adapter rules (C07/C09) not available yet")
    # R01.7 every way of constructing an in-memory filesystem yields the abstract tree's starting point: an existing, empty root
    # directory (a derived Default builds an empty map: nothing can be created below a root that does not exist)
    from . import c03 as _c03
    _c03.root_rules(facts, rep, "R01.7")
    # R01.4e "a target that is missing from an existing directory is reported as not-found" on the physical backends rests on
    # the one normalisation of io NotFound in error.rs: io errors enter a VfsError only through it (shared with C12 R12.3a)
    from . import c12 as _c12
    from .c10 import _Prefixed as _Pfx
    _c12.run_error_rs(facts, _Pfx(rep, "R01.4e"))
    # R01.8 which entry a call names: the contracts quantify over all valid component names (dotted ones included), and every
    # operation reaches its target through join — a component other than "", "." and ".." that join drops or rewrites makes
    # `dir.join(name)` name another entry, so create_* on it answers for the wrong place (component classification of C06 R06.2/R06.3,
    # shared by both worlds through PathLike)
    from . import c06 as _c06
    from ..report import Report as _Rep
    _scr = _Rep("j")
    _c06.joiner_rules(facts, _scr, _D)
    _k8 = 0
    for o in _scr.obligations:
        if o["rule"] in ("R06.2", "R06.3"):
            _k8 += 1
            rep.ob("R01.8", o["fn"], o["key"].split("|")[2], o["ok"], o["detail"], o["loc"])
    rep.floor("join component-classification obligations (R01.8)", _k8, 4)
    # ... and the adapters' listings rebuild every listed name with filename(): the part after the last '/', whatever other
    # characters the name holds (a backslash is part of a name) — C06 R06.7
    from . import c05 as _c05f
    _c06.accessor_rules(facts, _c05f._P5(rep, "R01.8f"), _D)
    # the async port: its path type, memory/physical backends and adapters are separate copies of the same contracts
    wa = World(facts, True)
    rep.ob("R01.A", "async_vfs", "async world present", wa.present(), "", "")
    if wa.present():
        from .c10 import _Prefixed
        A = _Prefixed(rep, "A")
        pra = PathRules(facts, wa)
        k = pra.table_p(A, "R01.1")
        pra.generic_routes(A, "R01.1g")
        Handles(facts, True, _D).writer_rules(A, "R01.6", "R01.6", "R01.6t")
        pra.create_dir_all(A, "R01.1c")
        founda, k2, mma = table_m(facts, A, "R01.2", "R01.2k", self_ty=wa.memory, trait="AsyncFileSystem")
        k3 = failed_primitive_unchanged(facts, A, "R01.3", mma)
        k4 = physrules.table_o_shape(facts, A, "R01.4", wa)
        from . import c07, c09, c10
        k5 = c07.delegation(facts, A, wa, rule="R01.5") + c09.table_u(facts, A, wa, rule="R01.5") + \
            c09.materialisation_rules(facts, A, wa, rule="R01.5p") + c09.listing_rules(facts, A, wa, rule="R01.5l") + \
            c09.resolver_rules(facts, A, wa, rule="R01.5r") + \
            c10.marker_rules(facts, A, wa, prefix="R01.5m", only=("R10.1", "R10.3", "R10.5")) + c09.relative_join_rules(facts, A, wa, rule="R01.5j")
        c07.gate_rules(facts, c10._Prefixed(A, "R01.5g"), wa, _D)
        rep.floor("async-world contract obligations", k + k2 + k3 + k4 + k5, 150)
    rep.assume("Table O (what the OS enforces per std call) is frozen from POSIX/Linux semantics")
    rep.assume("a writer's flush is not a primitive of this property's domain (touching a path while a handle is open is excluded)")
