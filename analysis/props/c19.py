"""C19 — timestamps round-trip and are independent of content.

 R19.1 field footprints: each MemoryFS setter writes exactly one field of the looked-up entry, the one matching
       its name, with the time argument as origin; metadata copies created/modified/accessed into the same-named
       fields of the result.
 R19.2 content does not disturb times: the writer's flush takes created and accessed of the new entry from the
       entry found under the destination at flush time; no setter writes content or file_type.
 R19.3 PhysicalFS: set_modification_time -> filetime::set_file_mtime, set_access_time -> set_file_atime (not
       swapped, each alone), set_creation_time not overridden -> NotSupported default.
 R19.4 adapters pass through: AltrootFS by exact delegation (R07.3); OverlayFS::metadata returns the resolved
       entry's metadata unchanged, and the setters act on the entry the overlay serves (Table U last row);
       EmbeddedFS does not override the setters.
"""
import os
from ..terms import get_tracer, short, walk, fmt
from ..pathflow import World
from ..panics import Discharger, load_records, norm
from ..handlerules import Handles
from ..memrules import MemoryModel
from .. import physrules
from . import c04, c07, c09

EXPLANATION = ("field-footprint and callee-identity analysis over rustc MIR: which field each setter writes from which "
               "argument, where metadata's fields come from, what flush carries over, which filetime call each PhysicalFS "
               "setter makes, and that adapters pass the calls/results through. That the OS stores the exact value "
               "(precision, range) is a runtime quantity and is not decided.")

FIELD_OF = {"set_creation_time": "created", "set_modification_time": "modified", "set_access_time": "accessed"}


IDENTITY_CALLS = ("Clone::clone", "Into::into", "From::from", "Deref::deref", "Borrow::borrow", "ToOwned::to_owned")


def _identity_shape(t, leaf):
    """(is t exactly Some^k(leaf) up to clones/conversions, k)"""
    k = 0
    t = norm(t)
    for _ in range(8):
        if leaf(t):
            return True, k
        if t[0] == "agg" and t[2] == "Some" and len(t[3]) == 1:
            k += 1
            t = norm(t[3][0][1])
            continue
        if t[0] == "call" and t[1] in IDENTITY_CALLS and t[2]:
            t = norm(t[2][0])
            continue
        if t[0] in ("okval",):
            return False, k
        break
    return False, k


def path_setter_rules(facts, rep, w, D, rule):
    """the setters of the path type hand the caller's time to the backend as it is and refuse nothing themselves: which
    values can be stored is the backend's business (a front-end range check makes representable values unsettable)"""
    from ..pathrules import PathRules
    pr = PathRules(facts, w, D)
    n = 0
    for name in FIELD_OF:
        b = pr.methods.get(name)
        if b is None:
            rep.fail(rule, w.path_ty, "%s present" % name, "public method missing")
            continue
        own = []
        passed = []
        todo, seen = [b], {b.id}
        while todo:
            f = todo.pop()
            for cb in pr.inter.code_bodies(f):
                tr = get_tracer(facts, cb)
                for blk in cb.blocks:
                    if blk.cleanup:
                        continue
                    for st in blk.stmts:
                        if st.kind == "assign" and st.rv.kind == "agg" and st.rv.agg.get("adt") == "error::VfsErrorKind":
                            own.append((st.rv.agg.get("variant"), st.line))
                for s_ in pr.inter.sites(cb):
                    if s_.trait == w.trait and s_.name == name and len(s_.args) >= 3 and f.id == b.id:
                        passed.append(norm(tr.operand(s_.args[2])))
                    hb = pr.inter.local_callee(s_)
                    if hb is not None and hb.id not in seen and hb.vis != "pub" and not (hb.impl and hb.impl.get("trait")) and \
                            hb.file == b.file:
                        seen.add(hb.id)
                        todo.append(hb)
        n += 2
        okp = bool(passed) and all(pr.is_arg(t, 1) for t in passed)
        rep.ob(rule, b.id, "%s passes the time argument to the backend unchanged" % name, okp,
               "" if okp else "backend called with %s" % [fmt(t)[:40] for t in passed], b.span)
        rep.ob(rule, b.id, "%s builds no error of its own" % name, not own, "" if not own else
               "%s refuses some calls itself (%s): a value the backend could store is not settable through the path type"
               % (name, ", ".join(sorted({str(v) for v, _ in own}))), own[0][1] if own else b.span)
    # ... and answer Ok only when the backend did: whether a time stamp can be set is the backend's answer (NotSupported where it
    # cannot), so no success return of a setter bypasses the backend call ("the entry already carries that value" included) —
    # the setter rows of the path layer's Table P
    from ..report import Report as _Rp
    scr = _Rp("p")
    pr.table_p(scr, "P")
    for o in scr.obligations:
        d = o["key"].split("|")[2]
        if d.split(":")[0] in FIELD_OF:
            n += 1
            rep.ob(rule, o["fn"], d, o["ok"], o["detail"], o["loc"])
    return n


def run(facts, rep, tier, ctx):
    D = Discharger(facts, load_records(os.path.join(ctx["V"], "rules", "panic_records.json")))
    ws = World(facts, False)
    mm = MemoryModel(facts, ws.memory, "FileSystem")
    n = 0
    stored = {}
    for op, fld in FIELD_OF.items():
        b = mm.ops.get(op)
        if b is None:
            rep.fail("R19.1", ws.memory, "%s implemented" % op, "missing")
            continue
        fws = mm.field_writes(b)
        names = sorted({f for _, _, f, _, _ in fws})
        n += 1
        rep.ob("R19.1", b.id, "%s writes exactly the field `%s`" % (op, fld), names == [fld],
               "fields written: %s" % names if names == [fld] else
               "%s writes %s instead of only `%s`: another timestamp (or the content/type) is disturbed" % (op, names, fld), b.span)
        tr = get_tracer(facts, b)
        for cb, bb, f, line, base in fws:
            # value originates from the time argument (arg 2) and the entry is the one looked up under `path`
            val = None
            for st in cb.blocks[bb].stmts:
                if st.kind == "assign" and not st.lhs.is_local() and f in st.lhs.fields():
                    val = norm(get_tracer(facts, cb).rvalue(st.rv, frozenset()))
            okv = val is not None and any(x[0] == "arg" and x[1] == 2 for x in walk(val)) and not any(x[0] == "call" and "now" in str(x[1]) for x in walk(val))
            shape, somes = _identity_shape(val, lambda x: x[0] == "arg" and x[1] == 2)
            stored[fld] = (shape, somes)
            n += 1
            rep.ob("R19.1", b.id, "%s stores the argument itself (at most wrapped in Some)" % op, shape,
                   "Some^%d(time)" % somes if shape else "the stored value %s is computed from the argument (clamped / compared / "
                   "replaced for some values): metadata cannot report exactly the value set" % fmt(val)[:60], line)
            okk = any(x[0] == "call" and x[1] == "HashMap::get_mut" and len(x[2]) == 2 and x[2][1][0] == "arg" and x[2][1][1] == 1 for x in walk(base))
            n += 2
            rep.ob("R19.1", b.id, "%s stores the time argument" % op, okv, fmt(val)[:50] if val else "?", line)
            rep.ob("R19.1", b.id, "%s re-times the entry at its own path" % op, okk, "", line)
    # a setter is refused for a missing entry and for nothing else: all three apply to files and directories alike (the root
    # included), so the only error a setter returns is the FileNotFound of its own lookup
    for op in FIELD_OF:
        b = mm.ops.get(op)
        if b is None:
            continue
        extra = []
        for ct, _, rbb in mm.inter.ret_cases(b):
            if mm.inter.case_polarity(ct) != "err":
                continue
            tn = norm(ct)
            from ..terms import passthrough_of
            src_ = passthrough_of(tn)       # the call whose error is handed on
            lookup_miss = src_[0] == "call" and src_[1] in ("Option::ok_or", "Option::ok_or_else") and bool(src_[2]) and \
                any(y[0] == "call" and y[1] in ("HashMap::get_mut", "HashMap::get", "BTreeMap::get_mut") for y in walk(src_[2][0])) and \
                not any(x[0] == "agg" and x[1] == "error::VfsErrorKind" and x[2] != "FileNotFound" for x in walk(tn))
            if not lookup_miss:
                # spelled out: `match map.get_mut(path) { None => Err(FileNotFound.into()), Some(..) => .. }`
                from ..memrules import GuardView
                kinds_m = [x[2] for x in walk(tn) if x[0] == "agg" and x[1] == "error::VfsErrorKind"]
                lookup_miss = kinds_m == ["FileNotFound"] and \
                    GuardView(mm.guards(mm.inter.code_body(b), rbb), mm.inter).vacant(mm.key_arg(b))
            if not lookup_miss:
                extra.append(fmt(tn)[:70])
        n += 1
        rep.ob("R19.1", b.id, "%s refuses nothing but a missing entry" % op, not extra, "" if not extra else
               "%s can also fail with %s: for some existing entries (a directory, the root) the value cannot be set although the "
               "other time stamps can" % (op, "; ".join(extra)), b.span)
    rep.floor("setter obligations", n, 12)
    # ... and panics for no value: an assertion about how the three stamps relate makes some values unsettable (and poisons the
    # lock for everybody else) — shared with C13
    from . import c13 as _c13
    _c13.sites_for(facts, rep, ctx["V"], "R19.p", lambda r: r.name in FIELD_OF)
    # metadata copies same-named fields
    b = mm.ops.get("metadata")
    if b is not None:
        for ct, _, bb in mm.inter.ret_cases(b):
            if mm.inter.case_polarity(ct) != "ok":
                continue
            v = norm(ct[3][0][1])
            d = dict(v[3]) if v[0] == "agg" else {}
            for fld in ("created", "modified", "accessed"):
                t = d.get(fld)
                ok = t is not None and any(x[0] == "field" and x[2] == fld for x in walk(t)) and \
                    not any(x[0] == "field" and x[2] in ("created", "modified", "accessed") and x[2] != fld for x in walk(t))
                rep.ob("R19.1", b.id, "metadata.%s comes from the entry's %s" % (fld, fld), ok, fmt(t)[:50] if t else "?", b.span)
                # exact round trip: the reported value is the stored field itself, wrapped in Some so that together with
                # the setter exactly one Option layer is added — no filter / comparison / sentinel in between
                shape, somes = _identity_shape(t, lambda x, fld=fld: x[0] == "field" and x[2] == fld) if t is not None else (False, 0)
                okr = shape   # (how many Option layers each side adds is fixed by the field types; conversions are transparent)
                rep.ob("R19.1", b.id, "metadata.%s reports the stored value unfiltered" % fld, okr,
                       "Some^%d(entry.%s)" % (somes, fld) if okr else
                       "metadata.%s is %s: some stored values (a sentinel) are reported differently from what was set" % (fld, fmt(t)[:70] if t else "?"), b.span)
    # R19.2
    h = Handles(facts, False, D)
    from ..report import Report
    scratch = Report("x")
    h.writer_rules(scratch, "R04.1", "R14.5", "R19.2")
    k = 0
    for o in scratch.obligations:
        if o["rule"] == "R19.2":
            k += 1
            rep.ob("R19.2", o["fn"], o["key"].split("|")[2], o["ok"], o["detail"], o["loc"])
    rep.floor("flush carry-over obligations", k, 2)
    # (the async writer's publication is held to the same rule for every time field its entry type keeps — none today)
    if World(facts, True).present():
        ha = Handles(facts, True, D)
        scratch_a = Report("xa")
        ha.writer_rules(scratch_a, "R04.1", "R14.5", "R19.2")
        for o in scratch_a.obligations:
            if o["rule"] == "R19.2":
                rep.ob("A/R19.2", o["fn"], o["key"].split("|")[2], o["ok"], o["detail"], o["loc"])
    # R19.3
    physrules.table_o_shape(facts, rep, "R19.3", ws)
    # R19.4
    c07.delegation(facts, rep, ws, "R19.4a", D)
    c04.overlay_read_delegation(facts, rep, ws, "R19.4o")
    c09.table_u(facts, rep, ws, "R19.4o", only=("set_creation_time", "set_modification_time", "set_access_time"))
    path_setter_rules(facts, rep, ws, D, "R19.4p")
    # ... and metadata() of a path is the backend's answer now, not one remembered in the path value (a cache filled while the path
    # was walked reports the old time stamps after a successful setter)
    from ..pathrules import PathRules as _PR19
    _PR19(facts, ws, D).backend_passthrough(rep, "R19.4m", ("metadata",))
    # what metadata reports and what the setters reach are the same entry: the overlay's resolver hands out the layer path that has the
    # entry, and for the overlay's own root the write layer's path itself (C09 R09.3)
    c09.resolver_rules(facts, rep, ws, "R19.4r")
    # a backend that does not override a setter reports not-supported and changes nothing: the trait's provided method builds
    # NotSupported and nothing else (shared with C12 R12.3c / C18 R18.1)
    for b_ in facts.bodies:
        if b_.trait_item_of and b_.trait_item_of.rsplit("::", 1)[-1] in ("FileSystem", "AsyncFileSystem") and b_.name in FIELD_OF:
            kinds_, calls_ = D.inter.kinds_and_calls(b_)
            calls_ = [c_ for c_ in calls_ if c_ not in ("From::from", "Into::into", "Pin::new", "Box::pin", "Box::new")]
            okd_ = kinds_ == {"NotSupported"} and not [c for c in calls_ if not c.startswith(("Pin::", "Box::", "future::", "Future::", "ready"))]
            rep.ob("R19.4d", b_.id, "provided %s only answers NotSupported" % b_.name, okd_, "" if okd_ else
                   "the trait default of %s builds %s / calls %s: a backend without time stamps reports success (or another error) "
                   "although nothing can be stored" % (b_.name, sorted(kinds_), calls_[:3]), b_.span)
    # R19.4w who may re-time through an adapter: the only calls of a time setter inside the overlay / altroot are those of the
    # adapter's own setter of the same name (pure forwarding).  A setter called from a content operation ("a copy is as old as its
    # original", carried out on every append) replaces a time stamp the caller has set and metadata has reported
    from ..inter import Inter as _In
    from ..pathrules import sname as _sn
    in_ = _In(facts)
    for w4 in (ws, World(facts, True)):
        if not w4.present():
            continue
        k4 = 0
        for ty4 in (w4.overlay, w4.altroot):
            for b4 in facts.bodies:
                if b4.kind == "Closure" or not b4.impl or b4.impl["self_ty"] != ty4:
                    continue
                for cb4 in in_.code_bodies(b4):
                    for s4 in in_.sites(cb4):
                        n4 = _sn(s4.path)
                        if n4 in FIELD_OF and ((s4.self_ty or "").endswith("VfsPath") or (s4.trait or "").endswith("FileSystem")):
                            ok4 = b4.name == n4 and bool(b4.impl.get("trait"))
                            if not b4.impl.get("trait") and b4.vis != "pub":
                                # a private helper is judged as the operations that call it: forwarding shared by the three setters
                                callers4 = [c4 for c4 in facts.bodies if c4.kind != "Closure" and c4.impl and c4.impl["self_ty"] == ty4 and
                                            c4.id != b4.id and any((in_.local_callee(x4) is not None and in_.local_callee(x4).id == b4.id)
                                                                   for y4 in in_.code_bodies(c4) for x4 in in_.sites(y4))]
                                ok4 = bool(callers4) and all(c4.name in FIELD_OF and c4.impl.get("trait") for c4 in callers4)
                            k4 += 1
                            rep.ob(("A/" if w4.asyncw else "") + "R19.4w", b4.id, "%s called only from the adapter's own %s" % (n4, n4), ok4,
                                   "" if ok4 else "%s re-times an entry with %s: a time stamp that was set and reported is replaced by an "
                                   "operation that is not a setter" % (b4.name, n4), s4.line)
        rep.floor("setter call sites inside the adapters (%s)" % w4.tag, k4, 6)
    # R19.6 content reaches the file when it is written, not when the handle goes away: the physical backends hand out the std handle
    # itself (a BufWriter around it flushes at drop — after a set_modification_time made in between — and moves the time to "now")
    from . import c14 as _c14h, c05 as _c05p
    from .c10 import _Prefixed as _Pf19
    for w6 in (ws, World(facts, True)):
        if w6.present():
            _c14h.handed_out(facts, _c05p._P5(rep if not w6.asyncw else _Pf19(rep, "A"), "R19.6"), w6, D)
    # R19.5 appending keeps the entry (and with it its creation time) until the writer publishes: append_file neither
    # rewrites the stored entry nor goes through create_file
    from . import c01 as _c01
    for w5 in (ws, World(facts, True)):
        if not w5.present():
            continue
        scr5 = Report("a")
        _c01.table_m(facts, scr5, "M", "Mk", self_ty=w5.memory, trait=w5.trait.rsplit("::", 1)[1], ops_filter=("append_file",))
        for o in scr5.obligations:
            if "the stored entry is not modified" in o["key"]:
                rep.ob(("A/" if w5.asyncw else "") + "R19.5", o["fn"], o["key"].split("|")[2], o["ok"], o["detail"], o["loc"])
    emb = [b for b in facts.bodies if b.impl and b.impl["self_ty"].startswith("impls::embedded::EmbeddedFS") and b.name in FIELD_OF]
    rep.ob("R19.4", "impls::embedded::EmbeddedFS", "setters not overridden (NotSupported default)", not emb, "", "")
    # the async port: AsyncPhysicalFS makes the same single-field filetime calls, the adapters pass through; an in-memory
    # backend that does not override the setters answers NotSupported by the trait default (nothing to round-trip)
    wa = World(facts, True)
    rep.ob("R19.A", "async_vfs", "async world present", wa.present(), "", "")
    if wa.present():
        from .c10 import _Prefixed
        A = _Prefixed(rep, "A")
        k = physrules.table_o_shape(facts, A, "R19.3", wa)
        k += c07.delegation(facts, A, wa, "R19.4a", D)
        k += c04.overlay_read_delegation(facts, A, wa, "R19.4o")
        k += c09.table_u(facts, A, wa, "R19.4o", only=("set_creation_time", "set_modification_time", "set_access_time"))
        k += path_setter_rules(facts, A, wa, D, "R19.4p")
        k += _PR19(facts, wa, D).backend_passthrough(A, "R19.4m", ("metadata",))
        k += c09.resolver_rules(facts, A, wa, "R19.4r")
        mma = MemoryModel(facts, wa.memory, "AsyncFileSystem")
        over = sorted(op for op in FIELD_OF if op in mma.ops)
        if over:
            for op in over:
                fws = mma.field_writes(mma.ops[op])
                names = sorted({f for _, _, f, _, _ in fws})
                A.ob("R19.1", mma.ops[op].id, "%s writes exactly the field `%s`" % (op, FIELD_OF[op]), names == [FIELD_OF[op]],
                     "fields written: %s" % names, mma.ops[op].span)
        else:
            A.ob("R19.1", wa.memory, "setters not overridden (NotSupported default, nothing stored)", True, "", "")
        rep.floor("async-world timestamp obligations", k, 50)
    # R19.3r a setter of the physical backends that answers Ok has had the OS call's own result in hand: no Result on the way from
    # filetime to the caller is dropped, overwritten or left inside an outer wrapper (shared with C20 R20.1)
    from ..results import ResultFlow
    for w3 in (ws, wa):
        if not w3.present():
            continue
        pops = facts.impl_methods(w3.trait.rsplit("::", 1)[1], w3.physical)
        starts = [pops[o] for o in FIELD_OF if o in pops]
        seen3 = set()
        for rb in D.inter.reachable(starts, through_dyn=False).values():
            for cb3 in D.inter.code_bodies(rb):
                if cb3.id in seen3 or not cb3.file.startswith("src/"):
                    continue
                seen3.add(cb3.id)
                rf3 = ResultFlow(facts, cb3)
                bad3 = [("inner Result of `%s` never looked at" % nm, ln) for _, nm, ln in rf3.nested_discards()] + \
                       [("Result `%s` overwritten unexamined" % nm, ln) for _, nm, ln in rf3.overwritten_results()] + \
                       [("unused result of %s" % sh, ln) for _, sh, ln in rf3.unused_results()]
                rep.ob(("A/" if w3.asyncw else "") + "R19.3r", D.owner_id(cb3), "no Result is dropped on the way of a physical setter", not bad3,
                       "" if not bad3 else "%s: the setter reports success although the time stamp was not stored" % bad3[0][0],
                       bad3[0][1] if bad3 else cb3.span)
    # R19.7 only the documented stamp of open_file touches `accessed` on the read side: the read handle keeps no reference to the
    # filesystem's shared state, so nothing it does later (a first read) can replace a time that was set in between — C14 R14.7
    from ..handlerules import Handles as _H19
    for aw19 in (False, True):
        if World(facts, aw19).present():
            _H19(facts, aw19, D).handle_surface_rules(rep, ("A/" if aw19 else "") + "R19.7/R14.7")
    rep.assume("the OS stores the value passed to utimensat exactly (precision/range are runtime quantities)")
