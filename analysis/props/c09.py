"""C09 — the overlay shows the upper-shadows-lower union as an ordinary tree.

 R09.1 Table U: every upper-layer mutation of an operation is dominated by the operation's guards evaluated on
       the *union* (the overlay's own exists / metadata / read_dir / resolver): create_dir — union parent exists,
       union vacant, occupied reports FileExists/DirectoryExists by union type; create_file — union parent exists,
       union occupant not a directory; append_file — copy-up from the resolved layer when the upper layer lacks
       the file; remove_file — union exists, union type File; remove_dir — union exists, union listable
       (directory) and union empty; set_*_time — the served entry is the one re-timed.
 R09.2 parent materialisation (create_dir_all on the upper parent) only under union parent exists.
 R09.3 resolver: marker consulted first and reported as FileNotFound; layers visited in vector order from 0; the
       returned layer path is one whose exists() held.
 R09.4 merged listing: union exists guard; children of every layer that has the directory are merged into a set;
       markers of that directory are subtracted.
"""
from ..terms import get_tracer, fmt, strip, short, walk, passthrough_of
from ..pathflow import World, MUTATING
from ..overlayrules import Overlay, literal_pieces
from ..pathrules import sname, peel
from ..panics import norm

EXPLANATION = ("guard-dominance analysis over rustc MIR of the overlay implementation: each upper-layer mutation must be "
               "dominated (per path where needed) by the operation's preconditions evaluated on the union view, the "
               "resolver must consult the deletion marker first and visit layers in order, the listing must merge all "
               "layers into a set and subtract markers. Decides the contract clauses relative to the union; value-level "
               "union semantics (type conflicts across layers, byte contents) are not decided.")


def table_u(facts, rep, w, rule="R09.1", only=None):
    ov = Overlay(facts, w)
    n = 0

    def want(op):
        return only is None or op in only

    def upper_sites(b, names):
        return [(cb, s, tr, recv) for cb, s, tr, recv in ov.path_sites(b, names) if ov.is_upper_plain(recv)]

    # ---- create_dir
    b = ov.ops.get("create_dir")
    if want("create_dir"):
        if b is None:
            rep.fail(rule, w.overlay, "create_dir implemented", "missing")
        else:
            ss = upper_sites(b, ("create_dir",))
            if not ss:
                rep.fail(rule, b.id, "create_dir: upper create present", "no create_dir on the upper layer path found", b.span)
            for cb, s, tr, recv in ss:
                gs = ov.guards(cb, s.bb)
                pe = ov.u_exists(gs, ov.is_parent_key, True)
                va = ov.u_exists(gs, ov.is_key, False)
                n += 2
                rep.ob(rule, b.id, "create_dir: union parent exists", pe, "" if pe else
                       "the upper-layer create_dir is not dominated by a successful union exists(parent)", s.line)
                rep.ob(rule, b.id, "create_dir: union vacant", va, "" if va else
                       "the upper-layer create_dir is not dominated by a failed union exists(path): creating over an entry "
                       "that exists only in a lower layer succeeds instead of failing as already-existing", s.line)
            kinds = {}
            for cb in ov.inter.code_bodies(b):
                for blk in cb.blocks:
                    if blk.cleanup:
                        continue
                    for st in blk.stmts:
                        if st.kind == "assign" and st.rv.kind == "agg" and st.rv.agg.get("adt") == "error::VfsErrorKind":
                            v = st.rv.agg["variant"]
                            if v in ("FileExists", "DirectoryExists"):
                                gs = ov.guards(cb, blk.idx)
                                kinds[v] = (ov.u_type(gs, ov.is_key, "File" if v == "FileExists" else "Directory") and
                                            ov.u_exists(gs, ov.is_key, True), st.line)
            # an occupied path is answered with the occupant's kind before anything else is tried: every other failure of
            # create_dir (and the parent materialisation it does on the way) belongs to a path the union shows as vacant —
            # the overlay's root is occupied and has no parent to find
            cbr = ov.inter.code_body(b)
            for ct, _, rbb in ov.inter.ret_cases(b):
                if ov.inter.case_polarity(ct) != "err":
                    continue
                tn = norm(ct)
                if any(x[0] == "agg" and x[1] == "error::VfsErrorKind" and x[2] in ("FileExists", "DirectoryExists") for x in walk(tn)):
                    continue
                src_ = passthrough_of(tn)
                while src_[0] == "await":
                    src_ = src_[1]
                # the failing step itself may be the union lookup that decides occupancy
                if src_[0] == "call" and sname(src_[1]) in ("exists", "metadata") and src_[2] and norm(src_[2][0])[0] == "arg":
                    continue
                okv = ov.u_exists(ov.guards(cbr, rbb), ov.is_key, False)
                n += 1
                rep.ob(rule, b.id, "create_dir: every other refusal is made for a vacant path only", okv, "" if okv else
                       "create_dir can fail with %s before the union has been asked what occupies the path: on an occupied path (the "
                       "root) the caller gets that error instead of DirectoryExists / FileExists, and a refused call has already "
                       "materialised parents in the write layer" % fmt(tn)[:60], cbr.blocks[rbb].term.line)
            for v in ("FileExists", "DirectoryExists"):
                ok = v in kinds and kinds[v][0]
                n += 1
                rep.ob(rule, b.id, "create_dir: %s for a union %s occupant" % (v, "file" if v == "FileExists" else "directory"), ok,
                       "" if ok else "occupied create_dir does not report %s by the union occupant's type" % v,
                       kinds.get(v, (0, b.span))[1])
    # ---- create_file
    b = ov.ops.get("create_file")
    if want("create_file"):
        if b is None:
            rep.fail(rule, w.overlay, "create_file implemented", "missing")
        else:
            ss = upper_sites(b, ("create_file",))
            if not ss:
                rep.fail(rule, b.id, "create_file: upper create present", "no create_file on the upper layer path found", b.span)
            for cb, s, tr, recv in ss:
                gs = ov.guards(cb, s.bb)
                pe = ov.u_exists(gs, ov.is_parent_key, True)
                n += 1
                rep.ob(rule, b.id, "create_file: union parent exists", pe, "" if pe else
                       "the upper-layer create_file is not dominated by a successful union exists(parent)", s.line)
                sets = ov.path_guard_sets(cb, s.bb)
                ok = sets is not None and all(ov.u_exists(g, ov.is_key, False) or ov.u_type(g, ov.is_key, "File") for g in sets)
                n += 1
                rep.ob(rule, b.id, "create_file: union occupant is not a directory", ok, "" if ok else
                       "some path reaches the upper-layer create_file without the union entry being absent or a file: a "
                       "directory that exists only in a lower layer is shadowed by a file", s.line)
    # ---- append_file
    b = ov.ops.get("append_file")
    if want("append_file"):
        if b is None:
            rep.fail(rule, w.overlay, "append_file implemented", "missing")
        else:
            ss = upper_sites(b, ("append_file",))
            if not ss:
                rep.fail(rule, b.id, "append_file: upper append present", "no append_file on the upper layer path found", b.span)
            for cb, s, tr, recv in ss:
                sets = ov.path_guard_sets(cb, s.bb)

                def upper_has(gs):
                    for g in gs:
                        if g[0] == "bool" and g[2] is True:
                            t = peel(g[1])
                            if t[0] == "call" and sname(t[1]) == "exists" and t[2] and \
                                    ov.is_upper_plain(_denorm_lookup(tr, cb, t[2][0])):
                                return True
                    return False

                def copied_up(gs):
                    for g in gs:
                        if g[0] == "variant" and g[2] == "ok":
                            t = peel(g[1])
                            if t[0] == "call" and sname(t[1]) == "copy_file" and len(t[2]) == 2:
                                return True
                    return False
                ok = sets is not None and all(upper_has(g) or copied_up(g) for g in sets)
                # a copy-up that was attempted and failed ends the call: no path continues to the append past its Err edge
                # (the upper file may exist — truncated — exactly because the copy failed half way)
                failed_cu = sets is not None and any(
                    g[0] == "variant" and g[2] == "err" and peel(g[1])[0] == "call" and sname(peel(g[1])[1]) == "copy_file"
                    for gs_ in sets for g in gs_)
                n += 1
                rep.ob(rule, b.id, "append_file: a failed copy-up is never appended to", not failed_cu, "" if not failed_cu else
                       "some path reaches the upper-layer append_file after the copy-up returned Err: the session continues on a "
                       "partial copy of the lower layer's bytes", s.line)
                n += 1
                rep.ob(rule, b.id, "append_file: copy-up when the upper layer lacks the file", ok, "" if ok else
                       "some path reaches the upper-layer append_file with neither the upper copy existing nor a "
                       "successful copy-up: appending does not continue the lower layer's bytes", s.line)
            # nothing is materialised in the upper layer before the target is known to exist: the path layer does not
            # validate the parent of an append, and the union parent may be a *file* (append to "/f/x" with a lower-layer
            # file "/f" would otherwise shadow that file with a directory and then fail)
            own = lambda c: not (c.impl and c.impl["self_ty"] == w.overlay)
            for cb in ov.inter.code_bodies(b):
                trb = get_tracer(facts, cb)
                for s2 in ov.inter.sites(cb):
                    hb = ov.inter.local_callee(s2)
                    mat = False
                    if hb is not None and hb.impl and hb.impl["self_ty"] == w.overlay and hb.impl["trait"] is None:
                        for rb in ov.inter.reachable([hb], through_dyn=False, stop=own).values():
                            trr = get_tracer(facts, rb)
                            for s3 in ov.inter.sites(rb):
                                if sname(s3.path) in ("create_dir_all", "create_dir") and s3.self_ty and s3.self_ty.endswith("VfsPath") and \
                                        s3.args and ov.is_upper_plain(trr.operand(s3.args[0])):
                                    mat = True
                    elif sname(s2.path) in ("create_dir_all", "create_dir") and s2.self_ty and s2.self_ty.endswith("VfsPath") and \
                            s2.args and ov.is_upper_plain(trb.operand(s2.args[0])):
                        mat = True
                    if not mat:
                        continue
                    gs = ov.guards(cb, s2.bb)
                    okm = ov.u_exists(gs, ov.is_key, True) or ov.u_type(gs, ov.is_parent_key, "Directory")
                    n += 1
                    rep.ob(rule, b.id, "append_file: parents materialised only after the target was resolved", okm, "" if okm else
                           "the upper-layer parent chain is created before the file to append to has been found in the union (and "
                           "without checking that the union parent is a directory): a failed append below a lower-layer *file* "
                           "leaves a directory shadowing that file", s2.line)
            # the copy-up is a complete copy made before the handle is handed out: copy_file(resolved -> upper), then
            # append_file on the upper path.  Creating / writing the upper file by hand inside append_file (and handing out
            # that creation handle, or copying through a String) exposes an empty or partial file while the handle is open,
            # or fails on bytes that are not UTF-8
            for cb, s, tr, recv in ov.path_sites(b, ("create_file", "remove_file", "read_to_string", "open_file")):
                okh = not (ov.is_upper_plain(recv) or ov.is_resolved(recv))
                n += 1
                rep.ob(rule, b.id, "append_file: the copy-up is copy_file, nothing hand-made", okh, "" if okh else
                       "append_file calls %s on a layer path itself instead of copying the resolved file up with copy_file and then "
                       "appending" % sname(s.path), s.line)
            # the copy-up goes resolved -> upper
            for cb, s, tr, recv in ov.path_sites(b, ("copy_file",)):
                dst = tr.operand(s.args[1])
                okc = ov.is_resolved(recv) and ov.is_upper_plain(dst)
                n += 1
                rep.ob(rule, b.id, "append_file: copy-up direction (resolved layer -> upper)", okc,
                       "%s -> %s" % (sorted(ov.origin_class(recv)), sorted(ov.origin_class(dst))), s.line)
    # ---- remove_file / remove_dir
    for op, typ in (("remove_file", "File"), ("remove_dir", "Directory")):
        b = ov.ops.get(op)
        if not want(op):
            continue
        if b is None:
            rep.fail(rule, w.overlay, "%s implemented" % op, "missing")
            continue
        # (sites in private helpers of the overlay are the operation's own, read in its name space with the guards of the call chain)
        marks = [x for x in ov.deep_path_sites_x(b, ("create_file",)) if ov.is_marker(x[3])]
        ups = [x for x in ov.deep_path_sites_x(b, (op,)) if ov.is_upper_plain(x[3])]
        if not marks:
            rep.fail(rule, b.id, "%s: marker creation present" % op, "no marker creation found", b.span)
        for cb, s, tr, recv, gs, _anchor, _sf in marks + ups:
            what = "marker creation" if any(x[1] is s for x in marks) else "upper removal"
            ex = ov.u_exists(gs, ov.is_key, True)
            n += 1
            rep.ob(rule, b.id, "%s: union exists before %s" % (op, what), ex, "" if ex else
                   "%s is not dominated by a successful union lookup of the path" % what, s.line)
            if op == "remove_file":
                ty = ov.u_type(gs, ov.is_key, "File")
                n += 1
                rep.ob(rule, b.id, "remove_file: union target is a file before %s" % what, ty, "" if ty else
                       "remove_file hides/removes the entry without checking that the union entry is a file: on a "
                       "directory that exists only in a lower layer it returns Ok and hides the directory while its "
                       "children stay visible", s.line)
            else:
                li = ov.u_listable(gs, ov.is_key) or ov.u_type(gs, ov.is_key, "Directory")
                em = ov.u_empty(gs, ov.is_key)
                n += 2
                rep.ob(rule, b.id, "remove_dir: union target is a directory before %s" % what, li, "" if li else
                       "remove_dir does not establish that the union entry is a directory", s.line)
                rep.ob(rule, b.id, "remove_dir: union directory empty before %s" % what, em, "" if em else
                       "remove_dir hides the directory without checking the merged listing: children in lower layers "
                       "stay visible under a hidden parent", s.line)
        # ... nothing at all is done before the union was asked: every other mutating call of the operation (preparing the marker's
        # directory "so that the removal can be recorded") comes after the successful lookup too — a removal of a missing entry
        # answers not-found, not whatever the preparation ran into (a read-only write layer's NotSupported, a file in the way)
        seen_sites = {id(x[1]) for x in marks + ups}
        for cb, s, tr, recv, gs, _anchor, _sf in ov.deep_path_sites_x(b, tuple(MUTATING) + ("create_dir_all", "remove_dir_all", "copy_file", "move_file",
                                                                                             "copy_dir", "move_dir")):
            if id(s) in seen_sites:
                continue
            ex = ov.u_exists(gs, ov.is_key, True)
            n += 1
            rep.ob(rule, b.id, "%s: union exists before %s" % (op, sname(s.path)), ex, "" if ex else
                   "%s runs before the union lookup of the path: removing a missing entry can fail with that call's error instead of "
                   "not-found (and leaves its effect behind)" % sname(s.path), s.line)
        # the marker is written only once the write layer no longer has the path: on every path to it the write layer was either
        # found not to have the entry (exists == false) or its copy was removed successfully.  A removal that is skipped for
        # another reason ("the upper entry is not a file") leaves the upper entry — for a directory, with everything below it —
        # in place under a marker that hides it: the children stay reachable under a parent that does not exist
        for cb, s, tr, recv, gs_dom, _anchor, sets_fn in marks:
            sets = sets_fn()
            gone = sets is not None
            for gs in sets or ():
                absent = any(g[0] == "bool" and g[2] is False and peel(g[1])[0] == "call" and sname(peel(g[1])[1]) == "exists" and
                             peel(g[1])[2] and ov.is_upper_plain(peel(g[1])[2][0]) for g in gs)
                removed = any(g[0] == "variant" and g[2] == "ok" and peel(g[1])[0] == "call" and sname(peel(g[1])[1]) in (op, "remove_dir_all") and
                              peel(g[1])[2] and ov.is_upper_plain(peel(g[1])[2][0]) for g in gs)
                # (once the union entry is known to be of the operation's type, "the write layer has no entry of that type here" is
                # the same as "it has no entry here": the topmost entry decides the union's type)
                typed = ov.u_type(gs_dom, ov.is_key, typ)
                pred_ = "is_file" if typ == "File" else "is_dir"
                absent_t = typed and any(g[0] == "bool" and g[2] is False and peel(g[1])[0] == "call" and sname(peel(g[1])[1]) == pred_ and
                                         peel(g[1])[2] and ov.is_upper_plain(peel(g[1])[2][0]) for g in gs)
                if not (absent or removed or absent_t):
                    gone = False
            n += 1
            rep.ob(rule, b.id, "%s: marker only once the write layer no longer has the path" % op, gone, "" if gone else
                   "the marker can be written on a path where the write layer's copy was neither found absent nor removed (its removal "
                   "is skipped under another condition): the entry stays in the write layer under a marker that hides it", s.line)
    # ---- time setters
    for op in ("set_creation_time", "set_modification_time", "set_access_time"):
        b = ov.ops.get(op)
        if not want(op):
            continue
        if b is None:
            rep.fail(rule, w.overlay, "%s implemented" % op, "missing")
            continue
        ss = ov.path_sites(b, (op,))
        if not ss:
            rep.fail(rule, b.id, "%s: delegation present" % op, "no %s call found" % op, b.span)
        # the setter decides nothing itself: whether the entry is there and whether the time can be set is the write layer's answer
        # (FileNotFound, NotSupported) — no error kind is built in the setter or the private helpers it calls
        kinds_s, _calls_s = ov.inter.kinds_and_calls(b)
        n += 1
        rep.ob(rule, b.id, "%s: builds no error of its own" % op, not kinds_s, "" if not kinds_s else
               "the overlay's %s answers %s itself: the class the write layer reports for this path (not-found, not-supported) is replaced"
               % (op, sorted(kinds_s)), b.span)
        for cb, s, tr, recv in ss:
            sets = ov.path_guard_sets(cb, s.bb)

            def served(gs):
                for g in gs:
                    if g[0] == "variant" and g[2] == "ok" and peel(g[1])[0] == "call" and sname(peel(g[1])[1]) == "copy_file":
                        return True
                    if g[0] == "bool" and g[2] is True and peel(g[1])[0] == "call" and sname(peel(g[1])[1]) == "exists":
                        return True
                return False
            ok = ov.is_upper_plain(recv) and sets is not None and all(served(g) for g in sets)
            n += 1
            rep.ob(rule, b.id, "%s: the served entry is the one re-timed" % op, ok, "" if ok else
                   "%s goes to the upper path without copy-up or an upper-exists guard: for a file served from a lower "
                   "layer the call fails with not-found although the overlay shows the file" % op, s.line)
        # the setter's answer is the answer of that call: no Ok that was decided otherwise ("only in a lower layer: nothing to do")
        bad_ok = []
        for ct, cgs, rbb in ov.inter.ret_cases(b):
            if ov.inter.case_polarity(ct) == "err":
                continue
            t_ = passthrough_of(norm(ct))
            while t_[0] == "await":
                t_ = t_[1]
            if t_[0] == "call" and isinstance(t_[1], str) and sname(t_[1]) == op:
                continue
            # `layer.set_x(time)?; Ok(())`: the unit answer is given only where the layer's call answered Ok
            unit_after = False
            if norm(ct) == ("agg", "std::result::Result", "Ok", (("0", ("tuple", ())),)):
                for g in cgs or ():
                    if g[0] == "variant" and g[2] == "ok":
                        x_ = norm(g[1])
                        while x_[0] == "await":
                            x_ = x_[1]
                        if x_[0] == "call" and isinstance(x_[1], str) and sname(x_[1]) == op:
                            unit_after = True
            if not unit_after:
                bad_ok.append(fmt(norm(ct))[:70])
        n += 1
        rep.ob(rule, b.id, "%s: answers with the write layer's %s result" % (op, op), not bad_ok, "" if not bad_ok else
               "%s can return %s: success is reported although no layer stored the value" % (op, bad_ok[0]), b.span)
        # a setter that materialises an upper copy (copy-up) replaces the served entry by a fresh one: the other
        # timestamps must be carried over from the entry served before, else they change with the call
        own = lambda c: not (c.impl and c.impl["self_ty"] == w.overlay)
        reach = ov.inter.reachable([b], through_dyn=False, stop=own)
        copyups, transfers = [], set()
        for rb in reach.values():
            trr = get_tracer(facts, rb)
            for s2 in ov.inter.sites(rb):
                nm = sname(s2.path)
                if not (s2.self_ty and s2.self_ty.endswith("VfsPath") and s2.args):
                    continue
                if nm in ("copy_file", "move_file") and len(s2.args) > 1 and ov.is_upper_plain(trr.operand(s2.args[1])):
                    copyups.append(s2)
                if nm in ("create_dir", "create_file", "create_dir_all") and ov.is_upper_plain(trr.operand(s2.args[0])):
                    copyups.append(s2)
                if nm in ("set_creation_time", "set_modification_time", "set_access_time") and len(s2.args) > 1:
                    tv = norm(trr.operand(s2.args[1]))
                    if any(x[0] == "call" and sname(x[1]) == "metadata" for x in walk(tv)):
                        transfers.add(nm)
        others = {"set_modification_time", "set_access_time"} - {op}
        okc = not copyups or others <= transfers
        n += 1
        rep.ob(rule, b.id, "%s: no copy-up, or the copy keeps the served entry's other timestamps" % op, okc,
               "no entry is materialised for the setter" if not copyups else "timestamps transferred: %s" % sorted(transfers) if okc else
               "%s materialises a fresh upper-layer entry (%s at %s) and re-times only that: from then on the overlay serves the "
               "copy, whose other timestamps are those of the copy-up, not of the entry shown before the call" %
               (op, copyups[0].short, copyups[0].line), copyups[0].line if copyups else b.span)
    return n


def _denorm_lookup(tr, cb, nt):
    """find the un-normalised term of a normalised sub-term by re-tracing call sites (best effort): the normalised
    term keeps call sites for in-crate calls, so classification can run on it directly"""
    return nt


def resolver_rules(facts, rep, w, rule="R09.3"):
    ov = Overlay(facts, w)
    n = 0
    res = [b for b in ov.helpers.values() if ov._is_resolver(b)]
    rep.ob(rule, w.overlay, "resolver present", len(res) >= 1, "%d helper(s) returning a path of any layer" % len(res), "")
    # a resolver may keep its layer loop in a private helper of its own (`first_layer_with(path) -> VfsResult<Option<VfsPath>>`): such a
    # helper — itself "returning a path of any layer", but called by resolvers only — is part of the resolver that calls it: its lookups
    # are judged there, under the guards of the call (the marker test in front of it)
    res_ids = {b.id for b in res}
    callers_of = {}
    for hb_ in list(ov.ops.values()) + list(ov.helpers.values()):
        for cb_ in ov.inter.code_bodies(hb_):
            for s_ in ov.inter.sites(cb_):
                c_ = ov.inter.local_callee(s_)
                if c_ is not None and c_.id in res_ids and c_.id != hb_.id:
                    callers_of.setdefault(c_.id, set()).add(hb_.id)
    inner = {b.id for b in res if callers_of.get(b.id) and callers_of[b.id] <= res_ids}
    for b in res:
        if b.id in inner:
            # (what the helper hands out is a layer path whose own exists() held — the marker in front of it is the caller's business)
            cbi = ov.inter.code_body(b)
            for ct, _, bb in ov.inter.ret_cases(b):
                if ov.inter.case_polarity(ct) == "err":
                    continue
                v = ct[3][0][1] if ct[0] == "agg" and ct[3] else ct
                if v[0] == "agg" and v[2] == "Some" and v[3]:
                    v = v[3][0][1]
                if "anylayer" in ov.origin_class(v):
                    gs = ov.guards(cbi, bb)
                    ok = any(g[0] == "bool" and g[2] is True and peel(g[1])[0] == "call" and sname(peel(g[1])[1]) == "exists" and
                             norm(peel(g[1])[2][0]) == norm(v) for g in gs)
                    n += 1
                    rep.ob(rule, b.id, "resolver: first layer that has the path is returned", ok, "" if ok else
                           "a layer path is returned without its exists() having held", cbi.blocks[bb].term.line)
            continue
        inner_lookups = []      # (site, guards in b's name space) of layer lookups made inside inner helpers this resolver calls
        for cbx, sx, trx, subx, outerx, _ax, _sfx in ov.deep_sites_x(b):
            hx = facts.body(cbx.root) if cbx.kind == "Closure" and cbx.root else cbx
            if hx is not None and hx.id in inner and sname(sx.path) == "exists" and sx.args and \
                    "anylayer" in ov.origin_class(trx.operand(sx.args[0])):
                gsx = [(g[0], subx(g[1])) + tuple(g[2:]) for g in ov.guards(cbx, sx.bb)] + list(outerx)
                inner_lookups.append((cbx, sx, trx, gsx))
        for cb in ov.inter.code_bodies(b):
            tr = get_tracer(facts, cb)
            # layer lookups: exists() on a path derived from an element of the layer vector
            lookups = []
            for s in ov.inter.sites(cb):
                if sname(s.path) == "exists" and s.args:
                    recv = tr.operand(s.args[0])
                    if "anylayer" in ov.origin_class(recv):
                        lookups.append(s)
            if cb is ov.inter.code_body(b):
                n += 1
                rep.ob(rule, b.id, "resolver: looks layers up", len(lookups) + len(inner_lookups) >= 1,
                       "%d layer lookups" % (len(lookups) + len(inner_lookups)), b.span)
                # ... every one of them: some lookup runs on the elements of an iteration over the layer vector, not only on layers
                # picked by position (the first and the last: layers in between would be listed by read_dir, which merges all
                # layers, but not found by exists / metadata / open_file)
                each = any(any(o[0] == "elem" for o in ov.pf.fs_origin(tr.operand(s_.args[0]))) for s_ in lookups) or \
                    any(any(o[0] == "elem" for o in ov.pf.fs_origin(trx.operand(sx.args[0]))) for cbx, sx, trx, gsx in inner_lookups)
                n += 1
                rep.ob(rule, b.id, "resolver: every layer is consulted", each, "" if each else
                       "the resolver looks at layers picked by index only: a layer that is neither of them is never consulted, so "
                       "entries it alone holds are listed by their parent but do not exist", b.span)
            todo_l = [(s, ov.guards(cb, s.bb), tr) for s in lookups]
            if cb is ov.inter.code_body(b):
                todo_l += [(sx, gsx, trx) for cbx, sx, trx, gsx in inner_lookups]
            for s, gs, tr_l in todo_l:
                mk = False
                for g in gs:
                    if g[0] == "bool" and g[2] is False:
                        t = peel(g[1])
                        if t[0] == "call" and sname(t[1]) == "exists" and t[2] and ov.is_marker(t[2][0]) and ov.mentions_path_arg(t[2][0]):
                            mk = True
                n += 1
                rep.ob(rule, b.id, "resolver: marker consulted before the layer lookup", mk, "" if mk else
                       "a layer is looked up without the deletion marker of the path having been tested first", s.line)
                # iteration order: plain forward iteration over the layer vector
                recv = norm(tr_l.operand(s.args[0]))
                rev = any(x[0] == "call" and isinstance(x[1], str) and x[1] in ("Iterator::rev", "Iterator::skip", "Iterator::last",
                                                                              "Vec::pop", "slice::last", "Iterator::max_by_key")
                          for x in walk(recv))
                n += 1
                rep.ob(rule, b.id, "resolver: layers visited in vector order from index 0", not rev,
                       "forward iteration" if not rev else "layers are not visited in order starting at the upper layer", s.line)
            # marker edge builds FileNotFound
            for blk in cb.blocks:
                if blk.cleanup:
                    continue
                for st in blk.stmts:
                    if st.kind == "assign" and st.rv.kind == "agg" and st.rv.agg.get("adt") == "error::VfsErrorKind":
                        gs = ov.guards(cb, blk.idx)
                        on_marker = any(g[0] == "bool" and g[2] is True and peel(g[1])[0] == "call" and
                                        sname(peel(g[1])[1]) == "exists" and peel(g[1])[2] and ov.is_marker(peel(g[1])[2][0]) for g in gs)
                        if on_marker:
                            n += 1
                            rep.ob(rule, b.id, "resolver: hidden path reported as FileNotFound", st.rv.agg["variant"] == "FileNotFound",
                                   st.rv.agg["variant"], st.line)
                        else:
                            # every other refusal of the resolver says "no layer has it": it is made where a layer lookup came back
                            # false — not because of how the path is spelled (a component that looks like the bookkeeping directory
                            # deeper in the tree is an ordinary name)
                            missed = any(g[0] == "bool" and g[2] is False and peel(g[1])[0] == "call" and sname(peel(g[1])[1]) == "exists" and
                                         peel(g[1])[2] and ov.origin_class(peel(g[1])[2][0]) & {"upper", "anylayer"} for g in gs)
                            # ... and "no layer has it" is known once every layer was asked: a refusal built while the iteration
                            # over the layers still has an element in hand ends the search at a layer that merely lacks the path
                            # (or holds something else nearby) — layers below it that the merged listing shows are never consulted
                            in_iter = any(g[0] == "variant" and g[3] == "Some" and peel(g[1])[0] == "call" and
                                          isinstance(peel(g[1])[1], str) and short(peel(g[1])[1]) in ("Iterator::next", "DoubleEndedIterator::next_back")
                                          for g in gs)
                            n += 1
                            rep.ob(rule, b.id, "resolver: not-found only after every layer was asked", not in_iter, "" if not in_iter else
                                   "the resolver answers %s from inside its loop over the layers: the lookup ends at the first layer that "
                                   "meets the condition, and entries that lower layers hold (and read_dir lists) do not exist"
                                   % st.rv.agg["variant"], st.line)
                            n += 1
                            rep.ob(rule, b.id, "resolver: not-found only where the marker or the layers say so", missed, "" if missed else
                                   "the resolver answers %s on a path where neither the deletion marker nor a failed layer lookup is known: "
                                   "entries are hidden because of their name" % st.rv.agg["variant"], st.line)
            # every Ok return of a layer path is guarded by that path's exists()
            for ct, gs0, bb in ov.inter.ret_cases(b):
                if ov.inter.case_polarity(ct) == "err" or cb is not ov.inter.code_body(b):
                    continue
                # (a tail call `return self.write_path(path)` hands out what the helper returns: judged like `Ok(helper(..)?)`)
                v = ct[3][0][1] if ct[0] == "agg" and ct[3] else ct
                gs = ov.guards(cb, bb)
                root_case = any(g[0] == "bool" and g[2] is True and g[1][0] == "call" and g[1][1] in ("str::is_empty", "String::is_empty") and
                                g[1][2] and norm(g[1][2][0])[0] == "arg" and norm(g[1][2][0])[1] == 1 for g in gs)
                from_inner = any(x[0] == "call" and isinstance(x[1], str) and ov.inter.body_of_call(x) is not None and
                                 ov.inter.body_of_call(x).id in inner for x in walk(norm(v)))
                if from_inner:
                    n += 1
                    rep.ob(rule, b.id, "resolver: first layer that has the path is returned", True,
                           "handed on from the resolver's own layer-loop helper (judged there)", cb.blocks[bb].term.line)
                elif "anylayer" in ov.origin_class(v) or (ov.origin_class(v) == {"upper"} and not root_case):
                    # (a path of the write layer handed out without a look — "a single-layer overlay has nothing to resolve" —
                    # makes remove_file of a missing entry succeed and leave a marker)
                    ok = any(g[0] == "bool" and g[2] is True and peel(g[1])[0] == "call" and sname(peel(g[1])[1]) == "exists" and
                             norm(peel(g[1])[2][0]) == norm(v) for g in gs)
                    n += 1
                    rep.ob(rule, b.id, "resolver: first layer that has the path is returned", ok, "" if ok else
                           "a layer path is returned without its exists() having held", cb.blocks[bb].term.line)
                elif root_case:
                    # the overlay's root is the write layer's own path — not the root of the filesystem that hosts it (`.root()`),
                    # whose metadata and time stamps are another directory's
                    x = norm(v)
                    while x[0] == "call" and isinstance(x[1], str) and short(x[1]) in ("Clone::clone", "ToOwned::to_owned", "Deref::deref") and x[2]:
                        x = norm(x[2][0])
                    own = (x[0] == "call" and isinstance(x[1], str) and short(x[1]) == "Index::index") or x[0] == "index" or \
                        (x[0] == "call" and ov.inter.body_of_call(x) is not None and ov.is_private_helper(ov.inter.body_of_call(x)))
                    okr = ov.origin_class(v) == {"upper"} and own
                    n += 1
                    rep.ob(rule, b.id, "resolver: the root resolves to the write layer's own path", okr, "" if okr else
                           "for the overlay's root the resolver returns %s instead of the write layer path itself: with a write layer that is "
                           "a sub-directory of a filesystem the root's metadata (and what the setters reach) are different directories" % fmt(x)[:50],
                           cb.blocks[bb].term.line)
    return n


def shadowing_rules(facts, rep, w, rule="R09.12"):
    """A non-directory in a layer hides what the layers below hold at that path *and beneath it*: the union is a tree, so an entry
    whose parent the overlay shows as a file cannot exist.  The merged listing already type-tests the entries of the layers below
    the first one (R09.4 'a shadowed non-directory entry can be skipped'); the resolver — which answers exists / metadata /
    open_file for every path — has to look at the ancestors of a path in a layer as well: inside it, some test of the layer
    path's parent (`parent()`, or a type test / metadata of a path other than the looked-up one, or a recursive resolution of the
    shortened path) must be made.  A resolver that only ever asks `layer.join(path).exists()` serves `/d/x` from a lower layer
    although an upper layer's `/d` is a file (F36)."""
    ov = Overlay(facts, w)
    n = 0
    res = [b for b in ov.helpers.values() if ov._is_resolver(b)]
    # one obligation per overlay type (a resolver split into several private helpers is still one resolver), filed under the type
    # and not under a private function's name: the known-finding key must survive renames and extractions
    looks, ancestors, span = 0, 0, ""
    for b in res:
        for cbx, sx, trx, subx, outerx, _ax, _sfx in ov.deep_sites_x(b):
            nm = sname(sx.path)
            if nm == "exists" and sx.args and "anylayer" in ov.origin_class(trx.operand(sx.args[0])):
                looks += 1
                span = span or b.span
            if nm == "parent" and sx.args and ov.origin_class(trx.operand(sx.args[0])) & {"anylayer", "upper"}:
                ancestors += 1
            if nm in ("is_file", "is_dir", "metadata") and sx.args and ov.origin_class(trx.operand(sx.args[0])) & {"anylayer"}:
                ancestors += 1
            c_ = ov.inter.local_callee(sx)
            if c_ is not None and c_.id == b.id:
                ancestors += 1      # recursion on a (shortened) path
    if looks:
        n += 1
        rep.ob(rule, w.overlay, "resolver: a layer's non-directory ancestor hides the path", ancestors >= 1, "" if ancestors else
               "the resolver asks every layer for the path itself and never looks at the path's ancestors in that layer: a file in an "
               "upper layer does not hide the directory a lower layer has at the same path — `/d` is a file and `/d/x` exists, and a "
               "directory re-created over the removed file lists the lower layer's old entries", span)
    return n


def listing_rules(facts, rep, w, rule="R09.4"):
    ov = Overlay(facts, w)
    n = 0
    b = ov.ops.get("read_dir")
    if b is None:
        rep.fail(rule, w.overlay, "read_dir implemented", "missing")
        return 0
    inserts, removes, layer_reads = [], [], []
    for cb, s, tr in ov.sites(b):
        sh = s.short
        if sh in ("HashSet::insert", "BTreeSet::insert"):
            inserts.append((cb, s, tr))
        if sh in ("HashSet::remove", "BTreeSet::remove"):
            removes.append((cb, s, tr))
        if sh in ("Vec::push", "Vec::extend", "Vec::insert"):
            rep.fail(rule, b.id, "listing accumulated in a set", "names are pushed into a Vec: a name present in several layers is listed twice", s.line)
        if sname(s.path) == "read_dir" and s.self_ty and s.self_ty.endswith("VfsPath") and s.args:
            recv = tr.operand(s.args[0])
            layer_reads.append((cb, s, tr, recv))
    n += 1
    rep.ob(rule, b.id, "listing accumulated in a set", len(inserts) >= 1, "%d set insert site(s)" % len(inserts), b.span)
    # the marker subtraction is the last thing that happens to the listing: a name added to a set after it (entries of the write layer
    # "that are live anyway", merged in afterwards) is never compared with the markers, so a removed entry the write layer still — or
    # again — holds is listed
    late_adds = []
    for cb, s, tr in ov.sites(b):
        if s.short in ("HashSet::insert", "BTreeSet::insert") or \
                (s.short in ("Extend::extend", "HashSet::extend", "BTreeSet::extend") and "Set<" in (s.self_ty or "")):
            for cb2, s2, tr2 in removes:
                if cb2 is cb and tr.cfg.strictly_reaches(s2.bb, s.bb) and not tr.cfg.reaches(s.bb, s2.bb):
                    late_adds.append(s.line)
    n += 1
    rep.ob(rule, b.id, "nothing is added to the listing after the marker subtraction", not late_adds, "" if not late_adds else
           "names are added to the result after the deletion markers were subtracted: they are listed whether or not a marker hides them",
           late_adds[0] if late_adds else b.span)
    for cb, s, tr in inserts:
        v = norm(tr.operand(s.args[1]))
        okf = v[0] == "call" and sname(v[1]) == "filename"
        n += 1
        rep.ob(rule, b.id, "listing inserts bare names (filename of layer children)", okf, fmt(v)[:60], s.line)
    any_layer = [x for x in layer_reads if "anylayer" in ov.origin_class(x[3])]
    n += 1
    rep.ob(rule, b.id, "children of every layer are read", len(any_layer) >= 1,
           "%d read_dir on layer paths" % len(any_layer), b.span)
    for cb, s, tr, recv in any_layer:
        gs = ov.guards(cb, s.bb)
        guarded = any(g[0] == "bool" and g[2] is True and peel(g[1])[0] == "call" and sname(peel(g[1])[1]) == "exists" and
                      norm(peel(g[1])[2][0]) == norm(recv) for g in gs)
        n += 1
        rep.ob(rule, b.id, "only layers that have the directory are listed", guarded, "", s.line)
        # inside a loop over all layers with no early exit other than errors: the loop variable iterates self.layers
        recvn = norm(recv)
        full = not any(x[0] == "call" and isinstance(x[1], str) and x[1] in ("Iterator::take", "Iterator::skip", "Iterator::rev", "slice::first")
                       for x in walk(recvn))
        n += 1
        rep.ob(rule, b.id, "all layers are visited", full, "", s.line)
    # ... and the loop is left only when the layers are exhausted or with an error: a `break` under some condition (first
    # layer found, a shadowed file met) cuts the layers below out of the union
    for cb, s, tr, recv in any_layer:
        cfg = tr.cfg
        heads = []
        for blk in cb.calls():
            if short(blk.term.callee() or "") == "Iterator::next" and blk.idx != s.bb and cfg.dominates(blk.idx, s.bb) and \
                    cfg.reaches(s.bb, blk.idx) and blk.term.args:
                it = norm(tr.operand(blk.term.args[0]))
                if any(x[0] == "field" and x[2] == "layers" for x in walk(it)) or \
                        any(x[0] == "call" and isinstance(x[1], str) and sname(x[1]) in ("layers", "read_layers") for x in walk(it)):
                    heads.append(blk.idx)
        for h in heads[:1]:
            bad = []
            cases = ov.inter.ret_cases(cb)
            for (es, ed, label) in cfg.loop_exit_edges(h):
                t = cb.blocks[es].term
                why = None
                if t.kind == "switch":
                    d = tr.operand(t.discr)
                    dn = d[1] if d[0] == "discr" else d
                    while dn[0] in ("okval", "errval"):
                        dn = dn[1]
                    if dn[0] == "call" and short(dn[1]) == "Iterator::next" and len(dn) > 3 and dn[3] == (cb.id, h):
                        continue        # exhaustion
                # an exit that can only end in an Err return is the error path of a `?`
                after = cfg.reachable_from(ed)
                if not any(x in after for x in cfg.return_blocks()):
                    continue        # `otherwise -> unreachable` of an exhaustive match
                pols = {ov.inter.case_polarity(ct) for ct, _, bb in cases if bb in after}
                if pols and pols <= {"err"}:
                    continue
                bad.append((es, ed))
            n += 1
            rep.ob(rule, b.id, "the layer loop ends only by exhaustion or with an error", not bad, "" if not bad else
                   "the loop over the layers is left early on a non-error path (bb%s): layers below that point are not merged into the "
                   "listing, so entries that exist are not listed (and remove_dir's emptiness test does not see them)" %
                   ", bb".join(str(x[0]) for x in bad), cb.blocks[bad[0][0]].term.line if bad else s.line)
    # a layer below the serving one may hold a *file* of that name (shadowed by the directory above it): there must be a
    # type test of the layer's entry that lets the merge skip it
    if any_layer:
        recvs = {norm(x[3]) for x in any_layer}
        tests = [s for cb, s, tr in ov.sites(b) if sname(s.path) in ("is_dir", "is_file", "metadata") and s.self_ty and
                 s.self_ty.endswith("VfsPath") and s.args and norm(tr.operand(s.args[0])) in recvs]
        n += 1
        rep.ob(rule, b.id, "a shadowed non-directory entry of a lower layer can be skipped", len(tests) >= 1,
               "%d type test(s) of the layer entry" % len(tests) if tests else
               "every layer that has an entry of that name is listed unconditionally: a directory (re-)created over a lower-layer "
               "file of the same name cannot be listed ('Not a directory' from the lower layer)", b.span)
        # ... for every layer below the first one that was listed: the condition that sends a layer's entry to the type test is a
        # flag that is raised when a layer is listed (false before the loop, set on the way to / from the listing call), not
        # something computed from what has been collected so far — an *empty* directory above a lower-layer file of the same name
        # has contributed nothing, and the file would be asked for its listing ('Not a directory')
        for cb, s_t, tr in [(cb, s, tr) for cb, s, tr in ov.sites(b) if s in tests]:
            cfg = tr.cfg

            def root_of(l, depth=4):
                while depth > 0:
                    depth -= 1
                    ds = tr.defs.get(l, [])
                    if len(ds) == 1 and ds[0][0] == "assign":
                        rv = cb.blocks[ds[0][1]].stmts[ds[0][2]].rv
                        if rv.kind == "use" and rv.ops[0].place is not None and rv.ops[0].place.is_local():
                            l = rv.ops[0].place.local
                            continue
                    break
                return l
            for (es, ed, label) in cfg.dominating_edges(s_t.bb):
                t_ = cb.blocks[es].term
                if label is None or t_.kind != "switch" or t_.discr.place is None or not t_.discr.place.is_local():
                    continue
                L = root_of(t_.discr.place.local)
                if cb.local_ty(L) != "bool":
                    continue
                ds = tr.defs.get(L, [])
                if any(k_ == "call" for k_, _, _ in ds):
                    continue        # the result of a call (exists / a predicate), not a flag
                def is_try_payload(rv):
                    return rv.kind == "use" and rv.ops[0].place is not None and any(isinstance(p_, dict) and "downcast" in p_ for p_ in rv.ops[0].place.proj)
                if any(k_ == "assign" and is_try_payload(cb.blocks[bb_].stmts[ix_].rv) for k_, bb_, ix_ in ds):
                    continue        # the payload of `predicate()?`
                if not cfg.reaches(s_t.bb, es):
                    continue        # a test made once, outside the loop
                # what the condition is made of: constants and plain locals (a flag, a counter of listed layers) — or calls
                computed = False
                consts = []         # (is this a def that raises / counts, block)
                seen_l, todo_l = set(), [L]
                while todo_l:
                    l_ = todo_l.pop()
                    if l_ in seen_l or len(seen_l) > 12:
                        continue
                    seen_l.add(l_)
                    for k_, bb_, ix_ in tr.defs.get(l_, []):
                        if k_ != "assign":
                            computed = True
                            continue
                        rv = cb.blocks[bb_].stmts[ix_].rv
                        if rv.kind in ("use", "bin", "un", "cast"):
                            allc = True
                            for o_ in rv.ops:
                                if o_.kind == "const":
                                    continue
                                allc = False
                                if o_.place is not None:
                                    todo_l.append(o_.place.local)
                            c_ = rv.ops[0].const_int() if (rv.kind == "use" and allc) else None
                            # a def that can make the condition true: `flag = true`, or arithmetic on a counter (`n += 1`)
                            consts.append((1 if (c_ == 1 or (rv.kind == "bin" and rv.op in ("Add", "AddWithOverflow", "AddUnchecked"))) else 0, bb_))
                        else:
                            computed = True
                raised = any(c_ == 1 and any(cfg.dominates(bb_, x[1].bb) or cfg.dominates(x[1].bb, bb_) for x in any_layer if x[0] is cb)
                             for c_, bb_ in consts)
                okf = not computed and raised
                n += 1
                rep.ob(rule, b.id, "layers below the first listed one are type-tested (flag raised when a layer is listed)", okf, "" if okf else
                       "the condition that sends a lower layer's entry to the type test is %s: a layer above that served the directory "
                       "without contributing anything the condition sees (an empty directory) leaves a same-named file of a lower layer "
                       "to be listed — 'Not a directory'" % ("computed from other state" if computed else "a flag that is not raised where a layer is listed"),
                       t_.line)
    # union exists guard before listing
    if inserts:
        cb, s, tr = inserts[0]
        gs = ov.guards(cb, s.bb)
        def via_resolver(t):
            # the looked-up path comes out of the overlay's resolver (which consults the deletion marker first), not from a
            # bare per-layer join
            for x in walk(t):
                if x[0] == "call" and isinstance(x[1], str):
                    hb = ov.inter.body_of_call(x)
                    if hb is not None and hb.impl and hb.impl["self_ty"] == w.overlay and ov._is_resolver(hb):
                        return True
            return False
        ex = ov.u_exists(gs, ov.is_key, True) or any(
            g[0] == "bool" and g[2] is True and peel(g[1])[0] == "call" and sname(peel(g[1])[1]) == "exists" and
            ov.is_resolved(peel(g[1])[2][0]) and via_resolver(peel(g[1])[2][0]) for g in gs)
        n += 1
        rep.ob(rule, b.id, "union exists before listing", ex, "" if ex else
               "listing does not start with a union lookup of the directory through the resolver: the directory's own deletion marker "
               "is not consulted, so a removed lower-layer directory still lists (as empty) instead of being not-found", s.line)
    # marker subtraction
    n += 1
    rep.ob(rule, b.id, "markers subtracted from the listing", len(removes) >= 1, "%d set remove site(s)" % len(removes), b.span)
    for cb, s, tr in removes:
        v = norm(tr.operand(s.args[1]))
        gs = ov.guards(cb, s.bb)
        suffix = None
        for g in gs:
            if g[0] == "bool" and g[2] is True and g[1][0] == "call" and g[1][1] == "str::ends_with" and g[1][2][1][0] == "str":
                suffix = g[1][2][1][1]
        okv = False
        if suffix and v[0] == "call" and v[1] == "Index::index" and v[2][1][0] == "agg" and v[2][1][1].endswith("RangeTo"):
            from ..panics import unchecked_arith
            e = dict(v[2][1][3]).get("end")
            ar = unchecked_arith(e) if e else None
            if ar and ar[0] == "Sub" and ar[2] == ("int", len(suffix.encode())):
                okv = True
        n += 1
        rep.ob(rule, b.id, "subtracted name = marker name minus its suffix", okv,
               "suffix %r stripped by length" % suffix if okv else
               "the name removed from the listing is not the marker's file name with exactly the marker suffix cut off: %s" % fmt(v)[:80], s.line)
        # the marker directory read is the marker namespace of the listed directory
        src = None
        for x in walk(v):
            if x[0] == "call" and sname(x[1]) == "read_dir" and x[2]:
                src = x[2][0]
        okm = src is not None and ov.is_marker(src) and ov.mentions_path_arg(src)
        n += 1
        rep.ob(rule, b.id, "markers read from the marker directory of the listed directory", okm, fmt(src)[:60] if src else "?", s.line)
    return n


def relative_join_rules(facts, rep, w, rule="R09.6"):
    """every path the overlay builds on a layer is joined *relative* to that layer (the key without its leading '/', or a
    literal that does not start with '/'): an absolute argument restarts at the root of the layer's filesystem, which is
    the same place only while every layer is a filesystem root"""
    from ..facts import decode_fmt_template
    ov = Overlay(facts, w)
    n = 0

    def relative(a, alts_have_stripped):
        a = norm(a)
        while a[0] == "call" and a[1] in ("AsRef::as_ref", "Deref::deref", "String::as_str", "Borrow::borrow", "Into::into", "From::from",
                                          "hint::must_use", "ToString::to_string", "ToOwned::to_owned") and a[2]:
            a = norm(a[2][0])
        if a[0] == "str":
            return not a[1].startswith("/")
        if a[0] == "call" and a[1] == "Index::index" and len(a[2]) == 2 and a[2][1][0] == "agg":
            rng = a[2][1]
            if rng[1].endswith("RangeFrom"):
                return dict(rng[3]).get("start") == ("int", 1)
            if rng[1].endswith(("RangeTo", "Range")):
                # a prefix of something: relative iff its base is
                return relative(a[2][0], alts_have_stripped) or (rng[1].endswith("Range") and dict(rng[3]).get("start") == ("int", 1))
        if a[0] == "call" and a[1] == "fmt::format" and a[2]:
            x = a[2][0]
            if x[0] == "call" and len(x[2]) >= 1 and x[2][0][0] == "bytes":
                tpl = decode_fmt_template(x[2][0][1])
                return bool(tpl) and tpl[0][0] == "lit" and bool(tpl[0][1]) and not tpl[0][1].startswith("/")
        if a[0] == "arg" and alts_have_stripped:
            return True   # `if !path.is_empty() { &path[1..] } else { path }`: the other alternative is the empty path
        return False

    # every join is judged in the name space of the operations that reach it: a private helper that takes the already stripped
    # string as a parameter (`first_layer_with(&path[1..])`) is judged with the argument it is actually given
    judged = {}     # (function id, block) -> [ok, text, site, owner]
    reached = set()

    def judge(owner, cb, s, tr, sub):
        if sname(s.path) != "join" or not (s.self_ty and s.self_ty.endswith("VfsPath")) or len(s.args) < 2:
            return
        recv = sub(tr.operand(s.args[0]))
        cls = ov.origin_class(recv)
        if not (cls & {"upper", "anylayer"}):
            return
        a = norm(sub(tr.operand(s.args[1])))
        alts_ = a[1] if a[0] == "phi" else (a,)
        has_stripped = any(relative(x, False) for x in alts_)
        ok = all(relative(x, has_stripped) for x in alts_)
        key = (cb.id, s.bb)
        if key in judged:
            judged[key][0] = judged[key][0] and ok
            if not ok:
                judged[key][1] = fmt(a)[:70]
        else:
            judged[key] = [ok, fmt(a)[:70], s, owner]

    for op in ov.ops.values():
        for cb, s, tr, sub, outer in ov.deep_sites(op):
            root = facts.body(cb.root) if cb.kind == "Closure" and cb.root else cb
            reached.add(root.id if root is not None else cb.id)
            judge(root if root is not None else op, cb, s, tr, sub)
    for h in ov.helpers.values():
        if h.id not in reached:
            for cb, s, tr in ov.sites(h):
                judge(h, cb, s, tr, lambda t: t)
    for (cid, bb), (ok, txt, s, owner) in judged.items():
        n += 1
        rep.ob(rule, owner.id, "layer paths are joined relative to the layer", ok, txt if ok else
               "a layer path is joined with %s, which can start with '/': the join restarts at the root of the layer's "
               "filesystem, so for a layer that is a sub-directory the overlay reads/writes the wrong place" % txt, s.line)
    return n


def materialisation_rules(facts, rep, w, rule="R09.2"):
    ov = Overlay(facts, w)
    n = 0
    # a non-recursive create_dir on the upper layer for anything but the operation's own path cannot mirror a
    # lower-layer directory chain deeper than one level
    for b in list(ov.helpers.values()) + list(ov.ops.values()):
        for cb, s, tr, recv in ov.path_sites(b, ("create_dir",)):
            if not ov.is_upper_plain(recv):
                continue
            key_own = any(x[0] == "arg" and x[1] == 1 for x in walk(norm(recv))) and not any(
                x[0] == "call" and x[1] == "str::rfind" for x in walk(norm(recv)))
            if b.name == "create_dir" and key_own:
                continue
            n += 1
            rep.fail(rule, b.id, "parent chain materialised recursively",
                     "the upper-layer parent is created with create_dir (one level) instead of create_dir_all: operations "
                     "below a lower-layer directory two or more levels deep fail", s.line)
    for b in list(ov.helpers.values()) + list(ov.ops.values()):
        for cb, s, tr, recv in ov.path_sites(b, ("create_dir_all",)):
            if ov.is_marker(recv):
                continue
            gs = ov.guards(cb, s.bb)
            ok = ov.is_upper_plain(recv) and ov.u_exists(gs, lambda k: True, True)
            n += 1
            rep.ob(rule, b.id, "parent chain materialised only for directories the union shows", ok, "" if ok else
                   "create_dir_all on the upper layer is not dominated by a successful union exists of that directory", s.line)
            # ... and always for those: the only conditions in front of it are the union lookup and the split of the path.  A
            # remembered "already copied up" (cache, flag, counter) makes the step skippable while another caller is still
            # in the middle of it (C17) or after the directory was removed again (C09)
            # a failure to materialise the parent is the call's failure, with the write layer's own error (a read-only write
            # layer answers NotSupported; turning that into "parent does not exist" changes the class the caller sees)
            propagated = False
            for blk2 in cb.blocks:
                t2 = blk2.term
                if t2.kind == "call" and short(t2.callee() or "") == "Try::branch" and t2.args:
                    x2 = tr.operand(t2.args[0])
                    if any(y[0] == "call" and len(y) > 3 and y[3] == (cb.id, s.bb) for y in walk(x2)):
                        propagated = True
            # ... or by hand: `if let Err(e) = X { return Err(e) }` / `match X { Err(e) => return Err(e), .. }` / X as the tail
            for ct2, _, _ in ov.inter.ret_cases(cb):
                t2 = norm(ct2)
                if t2[0] == "agg" and t2[2] == "Err" and len(t2[3]) == 1:
                    pl = t2[3][0][1]
                    while pl[0] == "call" and pl[1] in ("From::from", "Into::into") and pl[2]:
                        pl = pl[2][0]
                    if pl[0] == "errval":
                        src = pl[1]
                        while src[0] == "await":
                            src = src[1]
                        if src[0] == "call" and len(src) > 3 and src[3] == (cb.id, s.bb):
                            propagated = True
                pt = passthrough_of(t2)
                while pt[0] == "await":
                    pt = pt[1]
                if pt[0] == "call" and len(pt) > 3 and pt[3] == (cb.id, s.bb):
                    propagated = True
            n += 1
            rep.ob(rule, b.id, "a failed materialisation is propagated with `?`", propagated, "" if propagated else
                   "the result of create_dir_all on the upper layer is tested or discarded instead of propagated: the write layer's "
                   "error (e.g. NotSupported of a read-only layer) is replaced by whatever the caller builds next", s.line)
            extra = []
            for g in cb and tr.guards_at(s.bb):
                root_calls = [x for x in walk(g[1]) if x[0] == "call" and isinstance(x[1], str)]
                if not root_calls:
                    continue
                top = root_calls[0]
                nm = sname(top[1])
                if nm in ("exists", "rfind", "find", "is_empty", "branch", "from_residual", "len", "starts_with", "ends_with", "is_dir",
                          "metadata", "eq", "ne", "into_future", "poll", "get_context", "new_unchecked") or short(top[1]) in ("Try::branch",):
                    continue
                hb = ov.inter.body_of_call(top)
                if hb is not None and hb.impl and hb.impl["self_ty"] == w.overlay:
                    continue   # the overlay's own helpers / trait methods (union lookups)
                extra.append(short(top[1]))
            # ... and it is the whole step: the helper that mirrors the parent chain makes no other mutating call on the write layer.
            # Anything more (carrying a time stamp over with set_modification_time, an optional operation whose provided body
            # answers NotSupported; touching a marker) can fail where create_dir_all — which tolerates a concurrent creator —
            # does not, and then a create below a lower-layer directory fails on some stacks although the union shows the parent
            if b.id in {h_.id for h_ in ov.helpers.values()}:
                more = [(sname(s3.path), s3.line) for cb3, s3, tr3 in ov.sites(b)
                        if s3 is not s and sname(s3.path) in MUTATING and (s3.self_ty or "").endswith("VfsPath")]
                n += 1
                rep.ob(rule, b.id, "materialisation is create_dir_all and nothing else", not more, "" if not more else
                       "the helper that mirrors the parent chain also calls %s on a layer path: a step that can fail (NotSupported of an "
                       "optional operation, a refusal) where the tolerant create_dir_all succeeded" % more[0][0], more[0][1] if more else s.line)
            n += 1
            rep.ob(rule, b.id, "materialisation depends only on the union lookup", not extra,
                   "" if not extra else "create_dir_all on the upper layer is additionally conditional on %s: the copy-up can be skipped "
                   "although the directory is not (yet, or any more) in the upper layer" % sorted(set(extra))[:3], s.line)
    return n


def run(facts, rep, tier, ctx):
    ws = World(facts, False)
    n = table_u(facts, rep, ws, "R09.1")
    rep.floor("Table U obligations", n, 20)
    n = materialisation_rules(facts, rep, ws)
    rep.floor("parent materialisation sites", n, 1)
    n = resolver_rules(facts, rep, ws)
    rep.floor("resolver obligations", n, 5)
    n = listing_rules(facts, rep, ws)
    rep.floor("listing obligations", n, 8)
    n = relative_join_rules(facts, rep, ws)
    rep.floor("layer join sites", n, 6)
    # removal/re-creation relative to the union rests on the marker protocol (shared with C10)
    from . import c10
    n = c10.marker_rules(facts, rep, ws, prefix="R09.5")
    rep.floor("marker protocol obligations (shared with C10)", n, 20)
    # R09.10 the union's answers are the layers' answers: no Err edge inside an overlay operation ends in a success return (a layer that
    # fails to answer is an error, not "absent" — `exists` answering Ok(false) lets create_dir shadow a lower-layer file), and what
    # metadata / open_file report goes through the marker-aware resolver whatever the write layer holds (C20 R20.1/R20.4, C04 R04.4o)
    from . import c20 as _c20e, c04 as _c04o
    from ..report import Report as _Rp9
    for w10 in (ws, World(facts, True)):
        if not w10.present():
            continue
        scr10 = _Rp9("e")
        _c20e.run_world(facts, scr10, w10, {"results": 0, "err_edges": 0, "kind_arms": 0})
        for o in scr10.obligations:
            if o["rule"] in ("R20.1", "R20.4") and (o["fn"].startswith("<" + w10.overlay) or o["fn"].startswith(w10.overlay + "::")):
                rep.ob(("A/" if w10.asyncw else "") + "R09.10", o["fn"], o["key"].split("|")[2], o["ok"], o["detail"], o["loc"])
        _c04o.overlay_read_delegation(facts, rep if not w10.asyncw else c10._Prefixed(rep, "A"), w10, "R09.10o")
    # R09.12 file-over-directory shadowing (F36)
    for w12 in (ws, World(facts, True)):
        if w12.present():
            shadowing_rules(facts, rep if not w12.asyncw else c10._Prefixed(rep, "A"), w12, "R09.12")
    # R09.11 the overlay's content operations do nothing optional on the way: a time setter called from append_file's copy-up ("carry the
    # time stamps over") answers NotSupported on write layers that keep the trait default and fails the append (C19 R19.4w)
    from . import c19 as _c19s
    scr19 = _Rp9("s")
    _c19s.run(facts, scr19, "quick", ctx)
    for o in scr19.obligations:
        if o["rule"] in ("R19.4w", "A/R19.4w") and "overlay" in o["fn"]:
            rep.ob(o["rule"].replace("R19.4w", "R09.11/R19.4w"), o["fn"], o["key"].split("|")[2], o["ok"], o["detail"], o["loc"])
    # (the copy-up of append_file is the path type's copy_file: its generic route copies the whole stream — io::copy to EOF, not a
    # hand-written loop that stops at the first short read)
    from ..pathrules import PathRules as _PR9g
    for w9g in (ws, World(facts, True)):
        if w9g.present():
            scr9g = _Rp9("g")
            _PR9g(facts, w9g).generic_routes(scr9g, "G")
            for o in scr9g.obligations:
                if o["key"].split("|")[2].split(":")[0] == "copy_file":
                    rep.ob(("A/" if w9g.asyncw else "") + "R09.7g", o["fn"], o["key"].split("|")[2], o["ok"], o["detail"], o["loc"])
    # the union is over the layers the caller gave, resolved at each call: a constructor that filters or re-orders them (keeps only
    # the layers that exist at construction time) drops what such a layer holds later from the union (shared with C08 R08.8)
    from . import c08 as _c08
    n = _c08.constructor_rules(facts, rep, ws, "R09.9")
    rep.floor("overlay constructors judged (R09.9)", n, 1)
    # the async overlay is a separate copy of the same code
    wa = World(facts, True)
    rep.ob("R09.A", "async_vfs", "async world present", wa.present(), "", "")
    if wa.present():
        _c08.constructor_rules(facts, rep, wa, "A/R09.9")
        A = c10._Prefixed(rep, "A")
        k = table_u(facts, A, wa, "R09.1") + materialisation_rules(facts, A, wa) + resolver_rules(facts, A, wa) + \
            listing_rules(facts, A, wa) + c10.marker_rules(facts, A, wa, prefix="R09.5") + relative_join_rules(facts, A, wa)
        rep.floor("async overlay obligations", k, 55)
    # R09.7 two compositions of the path type that the union's consistency rests on: remove_dir_all dispatches each child by its
    # own type (remove_file on a directory that only a lower layer holds hides it with one marker and leaves its content to
    # come back), and copy_file — the overlay's copy-up — creates its destination only once it holds the source (a failed
    # copy-up of something that is not a file must not leave an empty file in the write layer that shadows it)
    from ..pathrules import PathRules
    from ..report import Report
    for w7 in (ws, wa):
        if not w7.present():
            continue
        scr7 = Report("p")
        PathRules(facts, w7).table_p(scr7, "P")
        for o in scr7.obligations:
            d = o["key"].split("|")[2]
            if d.startswith("remove_dir_all") or d.startswith("copy_file: destination created only after"):
                rep.ob(("A/" if w7.asyncw else "") + "R09.7", o["fn"], d, o["ok"], o["detail"], o["loc"])
    # R09.8 create_dir_all over a union: a file that only a lower layer holds is in the way like any other file — the composite
    # asks create_dir for every prefix and tolerates exactly DirectoryExists (an exists() shortcut accepts the file)
    for w7 in (ws, wa):
        if w7.present():
            PathRules(facts, w7).create_dir_all(rep if not w7.asyncw else c10._Prefixed(rep, "A"), "R09.8")
    rep.assume("layers behave as ordinary trees themselves (C01 applied to each layer)")
