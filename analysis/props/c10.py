"""C10 — overlay deletions persist, re-creation starts fresh, bookkeeping is hidden.

The whiteout-marker protocol as pairing / must-pass-through / who-may-call rules:
 R10.1 mark on delete: in remove_file/remove_dir every Ok return is dominated by a successful creation of the
       marker *of that path*; the marker is created after the upper copy was removed (no upper removal is
       reachable after the marker creation); failures propagate.
 R10.2 consult first: the resolver and exists test the marker before any layer lookup (C09 R09.3 + exists).
 R10.3 unmark on re-create: in create_dir/create_file every Ok return either saw no marker or removed exactly
       the marker of that path, and the marker is removed only after the upper create succeeded.
 R10.4 subtract on list: C09 R09.4.
 R10.5 who may touch markers: the only mutating calls on marker-namespace paths in the whole overlay are the
       three of the protocol (create_dir_all of the marker's parent + create_file of the marker in remove_*,
       remove_file of the path's own marker in create_*); nothing deletes a marker subtree.
 R10.6 bookkeeping hidden: the root listing subtracts the reserved directory, and the resolver/exists refuse
       paths inside the reserved namespace.
 R10.7 a directory marker is written only under union emptiness (Table U).
"""
from ..terms import get_tracer, fmt, strip, short, walk
from ..pathflow import World, MUTATING
from ..overlayrules import Overlay, literal_pieces
from ..pathrules import sname, peel
from ..panics import norm
from . import c09

EXPLANATION = ("pairing / must-pass-through / who-may-call analysis over rustc MIR of the overlay's marker protocol: "
               "marker written on every successful removal (after the upper copy is gone), consulted before every "
               "lookup, removed (only it, only after the create) on re-creation, never touched otherwise; reserved "
               "namespace hidden from observers. Decides persistence of deletions across unrelated operations as a "
               "who-may-call rule; listing contents are value-level and not decided.")

PATH_MUTATORS = {"create_dir", "create_dir_all", "create_file", "append_file", "remove_file", "remove_dir",
                 "remove_dir_all", "copy_file", "move_file", "copy_dir", "move_dir", "set_creation_time",
                 "set_modification_time", "set_access_time"}


def marker_rules(facts, rep, w, prefix=None, only=None):
    from .c05 import fmt_pieces
    ov = Overlay(facts, w)
    n = 0
    if prefix:
        rep = _Prefixed(rep, prefix, only)
    # ---- R10.1
    for op in ("remove_file", "remove_dir"):
        b = ov.ops.get(op)
        if b is None:
            rep.fail("R10.1", w.overlay, "%s implemented" % op, "missing")
            continue
        # (steps that sit in private helpers of the overlay are read as the operation's own, in its name space)
        marks = [x for x in ov.deep_path_sites_x(b, ("create_file",)) if ov.is_marker(x[3]) and ov.mentions_path_arg(x[3])]
        n += 1
        rep.ob("R10.1", b.id, "%s: marker of the removed path is created" % op, len(marks) >= 1,
               "%d site(s)" % len(marks) if marks else "no creation of the marker for the operation's own path", b.span)
        for gs, line_, _sets in ov.ok_returns(b):
            # (a returned call result — tail call — may be Ok: it counts as a success return)
            okm = any(g[0] == "variant" and g[2] == "ok" and peel(g[1])[0] == "call" and sname(peel(g[1])[1]) == "create_file"
                      and peel(g[1])[2] and ov.is_marker(peel(g[1])[2][0]) and ov.mentions_path_arg(peel(g[1])[2][0]) for g in gs)
            n += 1
            rep.ob("R10.1", b.id, "%s: Ok only after the marker was created successfully" % op, okm, "" if okm else
                   "an Ok return is not dominated by a successful creation of the path's marker: the deletion of a "
                   "lower-layer entry does not persist", line_)
        # ordering: no upper removal after marker creation
        uppers = [x for x in ov.deep_path_sites_x(b, (op,)) if ov.is_upper_plain(x[3])]
        for cb, s, tr, recv, gs_, anchor, _sf in marks:
            acb, abb = anchor
            after = get_tracer(facts, acb).cfg.reachable_from(abb)
            bad = None
            for cb2, s2, tr2, recv2, gs2, anchor2, _sf2 in uppers:
                if anchor2[0] is acb and anchor2[1] in after and anchor2[1] != abb:
                    bad = s2
                elif anchor2 == anchor and cb2 is cb and s2.bb != s.bb and s2.bb in tr.cfg.reachable_from(s.bb):
                    bad = s2        # both inside the same helper call
            n += 1
            rep.ob("R10.1", b.id, "%s: marker written after the upper copy was removed" % op, bad is None, "" if bad is None else
                   "the upper-layer removal at %s can run after the marker was already written: if it fails, the call "
                   "returns an error but the entry (and for directories its whole subtree) is already hidden" % bad.line, s.line)
    # ---- R10.3
    for op in ("create_dir", "create_file"):
        b = ov.ops.get(op)
        if b is None:
            rep.fail("R10.3", w.overlay, "%s implemented" % op, "missing")
            continue
        cb0 = ov.inter.code_body(b)
        # (sites in private helpers of the overlay count as the op's own, read in the op's name space)
        unmarks = [(cb, s, tr, recv, gs_) for cb, s, tr, recv, gs_ in ov.deep_path_sites(b, ("remove_file", "remove_dir", "remove_dir_all"))
                   if ov.is_marker(recv)]
        n += 1
        rep.ob("R10.3", b.id, "%s: marker removal present" % op, len(unmarks) >= 1, "%d site(s)" % len(unmarks), b.span)
        for cb, s, tr, recv, gs_ in unmarks:
            exact = sname(s.path) == "remove_file" and ov.mentions_path_arg(recv) and \
                not any(x[0] == "call" and sname(x[1]) == "parent" for x in walk(norm(recv)))
            n += 1
            rep.ob("R10.3", b.id, "%s: removes exactly the marker of the re-created path" % op, exact, "" if exact else
                   "re-creation removes %s of %s instead of the single marker file of the path: markers of children "
                   "deleted earlier disappear and the children reappear" % (sname(s.path), fmt(norm(recv))[:60]), s.line)
            gs = gs_
            after_create = any(g[0] == "variant" and g[2] == "ok" and peel(g[1])[0] == "call" and sname(peel(g[1])[1]) == op and
                               peel(g[1])[2] and ov.is_upper_plain(peel(g[1])[2][0]) for g in gs)
            n += 1
            rep.ob("R10.3", b.id, "%s: marker removed only after the upper create succeeded" % op, after_create, "" if after_create else
                   "the marker is removed before (or regardless of) the upper-layer create: if the create fails the "
                   "deleted lower-layer entry reappears although nothing was re-created", s.line)
        sets_ok = True
        for ct, gs0, bb in ov.inter.ret_cases(b):
            if ov.inter.case_polarity(ct) == "err":
                continue
            sets = ov.path_guard_sets(cb0, bb)
            if sets is None:
                sets_ok = False
                continue
            for gs in sets:
                nomark = any(g[0] == "bool" and g[2] is False and peel(g[1])[0] == "call" and sname(peel(g[1])[1]) == "exists" and
                             peel(g[1])[2] and ov.is_marker(peel(g[1])[2][0]) and ov.mentions_path_arg(peel(g[1])[2][0]) for g in gs)
                removed = any(g[0] == "variant" and g[2] == "ok" and peel(g[1])[0] == "call" and sname(peel(g[1])[1]) == "remove_file" and
                              peel(g[1])[2] and ov.is_marker(peel(g[1])[2][0]) for g in gs)
                if not (nomark or removed):
                    sets_ok = False
        n += 1
        rep.ob("R10.3", b.id, "%s: every successful path ends with the marker absent" % op, sets_ok, "" if sets_ok else
               "some successful path neither saw the marker absent nor removed it: the re-created entry stays hidden", b.span)
    # ---- R10.3 for optional same-filesystem transfers the overlay may override (none today): whatever they create at the
    # destination is a re-creation of that path, so its marker has to be gone on every successful return
    for op in ("copy_file", "move_file", "move_dir"):
        b = ov.ops.get(op)
        if b is None:
            continue
        cb0 = ov.inter.code_body(b)
        dest = lambda t: any(x[0] == "arg" and x[1] == 2 for x in walk(t))
        sets_ok = True
        for ct, gs0, bb in ov.inter.ret_cases(b):
            if ov.inter.case_polarity(ct) == "err":
                continue
            sets = ov.path_guard_sets(cb0, bb)
            if sets is None:
                sets_ok = False
                continue
            for gs in sets:
                nomark = any(g[0] == "bool" and g[2] is False and peel(g[1])[0] == "call" and sname(peel(g[1])[1]) == "exists" and
                             peel(g[1])[2] and ov.is_marker(peel(g[1])[2][0]) and dest(peel(g[1])[2][0]) for g in gs)
                removed = any(g[0] == "variant" and g[2] == "ok" and peel(g[1])[0] == "call" and sname(peel(g[1])[1]) == "remove_file" and
                              peel(g[1])[2] and ov.is_marker(peel(g[1])[2][0]) and dest(peel(g[1])[2][0]) for g in gs)
                if not (nomark or removed):
                    sets_ok = False
        n += 1
        rep.ob("R10.3", b.id, "%s: every successful path ends with the destination's marker absent" % op, sets_ok, "" if sets_ok else
               "the overlay's own %s can succeed without the destination's whiteout marker being absent or removed: copying / moving "
               "onto a path that was removed through the overlay returns Ok but the result stays hidden" % op, b.span)
    # ---- R10.2 exists consults the marker first
    b = ov.ops.get("exists")
    if b is None:
        rep.fail("R10.2", w.overlay, "exists implemented", "missing")
    else:
        for cb, s, tr in ov.sites(b):
            c = ov.inter.local_callee(s)
            if c is not None and c.impl and c.impl["self_ty"] == w.overlay and ov._is_resolver(c):
                gs = ov.guards(cb, s.bb)
                mk = any(g[0] == "bool" and g[2] is False and peel(g[1])[0] == "call" and sname(peel(g[1])[1]) == "exists" and
                         peel(g[1])[2] and ov.is_marker(peel(g[1])[2][0]) for g in gs)
                # the resolver itself consults the marker (R09.3); exists may rely on it
                n += 1
                rep.ob("R10.2", b.id, "exists: marker consulted (directly or through the resolver)", True,
                       "direct marker test: %s; resolver tests it as well (R09.3)" % mk, s.line)
        # every answer other than a constant `false` is given only after the marker was found absent (directly) or comes out
        # of the resolver, which looks at the marker first: no "the upper layer has it, so it exists" shortcut in front
        cb0 = ov.inter.code_body(b)
        for ct, _, bb in ov.inter.ret_cases(b):
            if ov.inter.case_polarity(ct) == "err":
                continue
            v = ct
            if v[0] == "agg" and v[2] == "Ok" and v[3]:
                v = v[3][0][1]
            v = norm(v)
            if v == ("int", 0):
                continue
            gs = ov.guards(cb0, bb)
            nomark = any(g[0] == "bool" and g[2] is False and peel(g[1])[0] == "call" and sname(peel(g[1])[1]) == "exists" and
                         peel(g[1])[2] and ov.is_marker(peel(g[1])[2][0]) for g in gs)
            via = False
            for x in walk(v):
                if x[0] == "call" and isinstance(x[1], str):
                    hb = ov.inter.body_of_call(x)
                    if hb is not None and hb.impl and hb.impl["self_ty"] == w.overlay and ov._is_resolver(hb):
                        via = True
            for g in gs:
                if g[0] == "variant" and g[2] == "ok":
                    hb = ov.inter.body_of_call(peel(g[1])) if peel(g[1])[0] == "call" else None
                    if hb is not None and hb.impl and hb.impl["self_ty"] == w.overlay and ov._is_resolver(hb):
                        via = True
            n += 1
            rep.ob("R10.2", b.id, "exists: a positive answer is given only past the marker", nomark or via, "" if (nomark or via) else
                   "exists can answer %s without having looked at the path's deletion marker: while a removed directory is being "
                   "re-created (or after a late writer resurrected a removed file) exists and metadata disagree" % fmt(v)[:40],
                   cb0.blocks[bb].term.line)
    n += c09.resolver_rules(facts, rep, w, rule="R10.2")
    # ---- R10.5 who may touch markers
    allowed = 0
    for b in list(ov.ops.values()) + list(ov.helpers.values()):
        root = b
        for cb, s, tr in ov.sites(b):
            nm = sname(s.path)
            if nm not in PATH_MUTATORS or not (s.self_ty and s.self_ty.endswith("VfsPath")) or not s.args:
                continue
            for ai, a in enumerate(s.args[:2]):
                t = tr.operand(a)
                if not ov.is_marker(t):
                    continue
                # a private helper is judged as the operations that reach it (each of them has to be allowed the call)
                roots = ov.entries_of(root) if ov.is_private_helper(root) else [root]
                for root_ in (roots or [root]):
                    opn = root_.name
                    ok = False
                    if opn in ("remove_file", "remove_dir") and nm in ("create_file", "create_dir_all") and ai == 0:
                        ok = True
                    if opn in ("create_file", "create_dir") and nm == "remove_file" and ai == 0:
                        ok = True
                    allowed += ok
                    if ok:
                        # ... and the marker lies strictly inside the reserved directory for every argument, the empty (root) path
                        # included: `<reserved>/...`, never `<reserved><path>...`, which for the root is a name in the write layer's
                        # root directory that an ordinary entry can have
                        own_ = lambda b_: bool(b_.impl) and b_.impl["self_ty"] == w.overlay
                        outside = []
                        for x in walk(norm(ov.inter.inline_ret(t, depth=3, pred=own_))):
                            if x[0] == "call" and isinstance(x[1], str) and sname(x[1]) == "join" and len(x[2]) == 2:
                                a1 = x[2][1]
                                lead = None
                                if a1[0] == "str":
                                    lead = a1[1]
                                else:
                                    pcs = fmt_pieces(a1)
                                    if pcs and pcs[0][0] == "lit":
                                        lead = pcs[0][1]
                                if lead is not None and "/" not in lead.strip("/") and not lead.endswith("/"):
                                    # unless the builder treats the empty path separately (then the path that follows starts with "/")
                                    jb = facts.body(x[3][0]) if x[3] else None
                                    special = False
                                    if jb is not None:
                                        trj = get_tracer(facts, jb)
                                        for sj in ov.inter.sites(jb):
                                            if sj.short in ("str::is_empty", "String::is_empty", "PartialEq::eq", "PartialEq::ne") and sj.args and \
                                                    any(y[0] == "arg" for y in walk(norm(trj.operand(sj.args[0])))):
                                                special = True
                                    if not special:
                                        outside.append(lead)
                        # ... and it names the path, the whole path: the marker string is literal pieces around ONE argument piece that is
                        # the path itself (at most without its leading '/').  A name clipped to a maximal length, or put together from
                        # parts, lets two different paths share one marker: re-creating one un-hides the other
                        partial = []
                        for x in walk(norm(ov.inter.inline_ret(t, depth=3, pred=own_))):
                            if x[0] == "call" and isinstance(x[1], str) and sname(x[1]) == "join" and len(x[2]) == 2 and x[2][1][0] != "str":
                                pcs = fmt_pieces(x[2][1]) or []
                                argp = [p_[1] for p_ in pcs if p_[0] == "arg"]
                                whole = False
                                if len(argp) == 1:
                                    a_ = norm(argp[0])
                                    while a_[0] == "call" and a_[1] in ("Deref::deref", "String::as_str", "AsRef::as_ref") and a_[2]:
                                        a_ = norm(a_[2][0])
                                    if a_[0] == "call" and a_[1] == "Index::index" and len(a_[2]) == 2 and a_[2][1][0] == "agg" and \
                                            a_[2][1][1].endswith("RangeFrom") and dict(a_[2][1][3]).get("start") == ("int", 1):
                                        a_ = norm(a_[2][0])
                                    whole = a_[0] == "arg"
                                if pcs and not whole:
                                    partial.append(", ".join(fmt(p_)[:30] for p_ in argp) or "no argument")
                        # ... joined onto the write layer's own path — where read_dir looks for the markers of a directory — not onto the
                        # root of the filesystem that hosts it (`write_layer().root()`): with a write layer that is a sub-directory the
                        # two places differ, and two overlays on one filesystem would share their markers
                        off_base = []
                        for x in walk(norm(ov.inter.inline_ret(t, depth=3, pred=own_))):
                            if x[0] == "call" and isinstance(x[1], str) and sname(x[1]) == "join" and len(x[2]) == 2:
                                r_ = norm(x[2][0])
                                while r_[0] == "call" and isinstance(r_[1], str) and short(r_[1]) in ("Clone::clone", "Deref::deref", "Borrow::borrow", "AsRef::as_ref") and r_[2]:
                                    r_ = norm(r_[2][0])
                                if r_[0] == "call" and isinstance(r_[1], str) and sname(r_[1]) in ("root", "parent", "join") and \
                                        (r_[1].split("::")[0].endswith("VfsPath")):
                                    off_base.append(fmt(r_)[:40])
                        n += 1
                        rep.ob("R10.5", root_.id, "%s in %s: the marker is joined onto the write layer itself" % (nm, opn), not off_base, "" if not off_base else
                               "the marker path starts from %s instead of the write layer's own path: the listing looks for markers somewhere else"
                               % off_base[0], s.line)
                        n += 1
                        rep.ob("R10.5", root_.id, "%s in %s: the marker name contains the whole path" % (nm, opn), not partial, "" if not partial else
                               "the marker string is built from %s instead of the path as a whole: different paths can map to one marker, so "
                               "re-creating (or removing) one of them un-hides (or hides) the other" % partial[0], s.line)
                        n += 1
                        rep.ob("R10.5", root_.id, "%s in %s: the marker lies inside the reserved directory" % (nm, opn), not outside,
                               "" if not outside else
                               "the marker name starts with `%s` followed directly by the path: for the root (empty path) the marker is a "
                               "top-level name of the write layer outside the bookkeeping directory, so an ordinary entry of that name "
                               "makes the root look removed" % outside[0], s.line)
                    n += 1
                    rep.ob("R10.5", root_.id, "%s on a marker path in %s" % (nm, opn), ok,
                           "part of the marker protocol" if ok else
                           "%s touches the marker namespace (%s) outside the protocol: deletions recorded there can be lost "
                           "or markers appear for paths that were not removed" % (nm, fmt(norm(t))[:60]), s.line)
    rep.floor("protocol call sites on marker paths", allowed, 6)
    # ---- R10.6 bookkeeping hidden
    reserved = ov.reserved_literal()
    rd = ov.ops.get("read_dir")
    hidden_list = False
    if rd is not None:
        for cb, s, tr in ov.sites(rd):
            if s.short in ("HashSet::remove", "BTreeSet::remove") and len(s.args) == 2:
                v = norm(tr.operand(s.args[1]))
                if v[0] == "str" and v[1] in reserved:
                    hidden_list = True
            if s.short in ("Iterator::filter", "HashSet::retain"):
                hidden_list = hidden_list or any(l in reserved for l in literal_pieces(tr.operand(s.args[1])) if l)
    n += 1
    rep.ob("R10.6", rd.id if rd else w.overlay, "root listing subtracts the reserved marker directory", hidden_list, "" if hidden_list else
           "read_dir of the overlay root does not remove the reserved directory %s from the merged listing: after the first "
           "removal the bookkeeping directory shows up as an entry of the overlay" % sorted(reserved), rd.span if rd else "")
    refuses = False
    for b in [x for x in ov.helpers.values() if ov._is_resolver(x)] + ([ov.ops["exists"]] if "exists" in ov.ops else []):
        for cb in ov.inter.code_bodies(b):
            tr = get_tracer(facts, cb)
            for blk in cb.blocks:
                if blk.cleanup or blk.term.kind != "switch":
                    continue
                dt = norm(tr.operand(blk.term.discr))
                for x in walk(dt):
                    if x[0] == "call" and x[1] in ("str::starts_with", "str::strip_prefix", "PartialEq::eq", "str::contains") and \
                            any(l.strip("/") in reserved for l in literal_pieces(x)):
                        refuses = True
    n += 1
    rep.ob("R10.6", w.overlay, "observers refuse paths inside the reserved namespace", refuses, "" if refuses else
           "neither the resolver nor exists tests the path against the reserved name %s: exists(\"/%s\") is true and "
           "metadata/read_dir serve the bookkeeping directory" % (sorted(reserved), sorted(reserved)[0] if reserved else "?"), "")
    return n


class _Prefixed:
    """report view that files every obligation under one rule id (for re-use by other properties)"""

    def __init__(self, rep, prefix, only=None):
        self._rep = rep
        self._prefix = prefix
        self._only = only
        self.analysed = rep.analysed

    def ob(self, rule, fn, desc, ok, detail="", loc=None):
        if self._only and rule not in self._only:
            return None
        return self._rep.ob("%s/%s" % (self._prefix, rule), fn, desc, ok, detail, loc)

    def fail(self, rule, fn, desc, detail="", loc=None):
        return self.ob(rule, fn, desc, False, detail, loc)

    def floor(self, name, measured, floor):
        if self._only:
            return None
        return self._rep.floor("%s (%s)" % (name, self._prefix), measured, floor)

    def note(self, t):
        self._rep.note(t)

    def assume(self, t):
        self._rep.assume(t)


def run(facts, rep, tier, ctx):
    ws = World(facts, False)
    n = marker_rules(facts, rep, ws)
    rep.floor("marker protocol obligations", n, 20)
    # R10.4 / R10.7 shared with C09
    c09.listing_rules(facts, rep, ws, rule="R10.4")
    c09.relative_join_rules(facts, rep, ws, rule="R10.9")
    c09.table_u(facts, rep, ws, rule="R10.7", only=("remove_dir", "append_file"))
    # R10.8 removing a subtree goes through the path layer's remove_dir_all: children must be dispatched by their own type
    # (remove_file on a lower-only directory would hide it with one marker and leave its content to resurface), the
    # directory itself goes last
    from ..pathrules import PathRules
    from ..report import Report
    wa = World(facts, True)
    rep.ob("R10.A", "async_vfs", "async world present", wa.present(), "", "")
    for w_, tag in ((ws, ""), (wa, "A/")):
        if not w_.present():
            continue
        scratch = Report("x")
        PathRules(facts, w_).table_p(scratch, "P")
        k = 0
        for o in scratch.obligations:
            d = o["key"].split("|")[2]
            if d.startswith("remove_dir_all"):
                k += 1
                rep.ob(tag + "R10.8", o["fn"], d, o["ok"], o["detail"], o["loc"])
        rep.floor("remove_dir_all obligations (%s)" % w_.tag, k, 4)
    if wa.present():
        A = _Prefixed(rep, "A")
        k = marker_rules(facts, A, wa)
        k += c09.listing_rules(facts, A, wa, rule="R10.4")
        k += c09.relative_join_rules(facts, A, wa, rule="R10.9")
        k += c09.table_u(facts, A, wa, rule="R10.7", only=("remove_dir", "append_file"))
        rep.floor("async overlay marker obligations", k, 30)
    # R10.4e a failure to read the markers is a failure of the listing: no Err edge in the overlay's read_dir ends in a
    # success return (C20's Err-edge rule, restricted to that function) — "could not read the marker directory" must not
    # mean "nothing was removed"
    from . import c20
    for w_ in (ws, wa):
        if not w_.present():
            continue
        scratch = Report("e")
        c20.run_world(facts, scratch, w_, {"results": 0, "err_edges": 0, "kind_arms": 0})
        for o in scratch.obligations:
            if o["rule"] in ("R20.1", "R20.4") and o["fn"].startswith("<" + w_.overlay) and o["fn"].endswith("::read_dir"):
                rep.ob(("A/" if w_.asyncw else "") + "R10.4e", o["fn"], o["key"].split("|")[2], o["ok"], o["detail"], o["loc"])
    # R10.10 "re-creation starts fresh": the overlay clears the marker as soon as the write layer's create_file returns, so the
    # in-memory write layer must have the (empty) entry in place by then — created under its own lock, not later by the writer
    from . import c01 as _c01
    for w_ in (ws, wa):
        if not w_.present():
            continue
        scratch = Report("m")
        _c01.table_m(facts, scratch, "M", "Mk", self_ty=w_.memory, trait=w_.trait.rsplit("::", 1)[1], ops_filter=("create_file",))
        for o in scratch.obligations:
            if o["rule"] == "M":
                rep.ob(("A/" if w_.asyncw else "") + "R10.10", o["fn"], o["key"].split("|")[2], o["ok"], o["detail"], o["loc"])
    # R10.12 ... also for a view rooted inside the overlay: an altroot answers what the filesystem behind it answers (no
    # "the root always exists" of its own)
    from . import c07 as _c07
    from ..panics import Discharger as _D10, load_records as _lr10
    import os as _os10
    D10 = _D10(facts, _lr10(_os10.path.join(ctx["V"], "rules", "panic_records.json")))
    for w_ in (ws, wa):
        if w_.present():
            scr12 = Report("d")
            _c07.delegation(facts, scr12, w_, "D", D10)
            for o in scr12.obligations:
                d12 = o["key"].split("|")[2]
                if d12.split(":")[0] in ("exists", "metadata", "read_dir", "open_file"):
                    rep.ob(("A/" if w_.asyncw else "") + "R10.12", o["fn"], d12, o["ok"], o["detail"], o["loc"])
    # R10.11 a removed entry cannot be opened: open_file goes through the marker-aware resolver, whatever the write layer holds
    # (a stale writer can put bytes back under the marker)
    from . import c04 as _c04
    for w_ in (ws, wa):
        if w_.present():
            _c04.overlay_read_delegation(facts, rep if not w_.asyncw else _Prefixed(rep, "A"), w_, "R10.11")
    # R10.14 the merged listing (which remove_dir_all walks and remove_dir's emptiness test reads) decides "is this layer's entry a
    # directory" with the path type's is_dir: it has to answer through exists() and the path's own metadata type, and a failed
    # metadata lookup is an error of the listing, never `false` — or a lower layer drops out of the listing silently and a
    # "successful" remove_dir_all leaves its entries unmarked, to come back (C05 R05.2)
    from . import c05 as _c05
    for w_ in (ws, wa):
        if w_.present():
            _c05.is_kind_rules(facts, _c05._P5(rep if not w_.asyncw else _Prefixed(rep, "A"), "R10.14"), w_, D10)
    # R10.16 "a re-created directory is empty" also when what was removed is a file that shadowed a lower layer's directory: the
    # entries of that directory were never visible, so no marker hides them — they must stay hidden by the shadowing rule (F36)
    for w16 in (ws, World(facts, True)):
        if w16.present():
            c09.shadowing_rules(facts, rep if not w16.asyncw else _Prefixed(rep, "A"), w16, "R10.16/R09.12")
    # R10.15 nothing is created inside a removed directory: the overlay's "does the parent exist" is the marker-aware union lookup
    # (a probe of the layers themselves finds the lower copy the marker hides, and the create brings entries back below a path
    # that stays absent) — C09 R09.2
    for w15 in (ws, World(facts, True)):
        if w15.present():
            c09.materialisation_rules(facts, rep if not w15.asyncw else _Prefixed(rep, "A"), w15, rule="R10.15/R09.2")
    rep.assume("the reserved names ('.whiteout', '*_wo') are not used by callers (excluded by the property)")
