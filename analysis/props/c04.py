"""C04 — files return exactly the bytes that were written (publication and routing clauses).

 R04.1 publish: the in-memory writer's flush inserts, under the destination captured at creation, a File entry
       whose content originates from its own cursor buffer, on every successful return; drop calls flush on every
       path.
 R04.2 create starts empty / append continues: create_file builds the writer over an empty buffer (and PhysicalFS
       creates with truncate); append_file seeds the buffer with the existing bytes and seeks End(0) before handing
       the writer out (PhysicalFS opens with append).
 R04.3 length: MemoryFS metadata.len is the entry's content length; PhysicalFS reports 0 for directories and
       Metadata::len() for files; EmbeddedFS 0 for directories and the stored length for files.
 R04.4 routing: generic copy/move stream self.open_file() into destination.create_file() through io::copy;
       OverlayFS append copies the resolved file up before appending; OverlayFS open_file/metadata are exact
       delegations to the resolved path.
 R04.5 read_to_string = file-type guard + open_file + Read::read_to_string into the returned string.
"""
import os
from ..terms import get_tracer, short, walk, fmt, passthrough_of
from ..pathflow import World
from ..panics import Discharger, load_records, norm
from ..handlerules import Handles
from ..pathrules import PathRules, sname, peel
from ..overlayrules import Overlay
from .. import physrules
from . import c09

EXPLANATION = ("value-origin and pairing analysis over rustc MIR: where the bytes of a write session go (publication on "
               "flush/drop under the right key from the right buffer), how sessions start (empty / seeded + End(0)), where "
               "reported lengths come from, and how copies are routed (source/destination, direction, copy-up). Byte "
               "equality for all contents and buffer sizes depends on std's Cursor/File/io::copy and is not decided.")


def session_start_rules(facts, rep, w, D, rule="R04.2"):
    n = 0
    inter = D.inter
    ops = facts.impl_methods(w.trait.rsplit("::", 1)[1], w.memory)
    b = ops.get("create_file")
    if b is not None:
        cb = inter.code_body(b)
        tr = get_tracer(facts, cb)
        for blk in cb.blocks:
            if blk.cleanup:
                continue
            for st in blk.stmts:
                if st.kind == "assign" and st.rv.kind == "agg" and st.rv.agg.get("adt", "").endswith("WritableFile"):
                    v = norm(tr.rvalue(st.rv, frozenset()))
                    c = dict(v[3]).get("content")
                    empty = c is not None and c[0] == "call" and c[1] == "Cursor::new" and c[2] and \
                        ((c[2][0][0] == "call" and c[2][0][1] in ("Vec::new", "slice::into_vec", "Vec::with_capacity", "Default::default")) or c[2][0][0] == "array")
                    dst = dict(v[3]).get("destination")
                    okd = dst is not None and dst[0] == "arg" and dst[1] == 1
                    n += 2
                    rep.ob(rule, b.id, "create_file starts from an empty buffer", bool(empty), "" if empty else "writer seeded with %s" % fmt(c)[:60], st.line)
                    rep.ob(rule, b.id, "writer captures the operation's own path", okd, fmt(dst)[:40] if dst else "?", st.line)
    b = ops.get("append_file")
    if b is not None:
        cb = inter.code_body(b)
        tr = get_tracer(facts, cb)
        for blk in cb.blocks:
            if blk.cleanup:
                continue
            for st in blk.stmts:
                if st.kind == "assign" and st.rv.kind == "agg" and st.rv.agg.get("adt", "").endswith("WritableFile"):
                    v = norm(tr.rvalue(st.rv, frozenset()))
                    c = dict(v[3]).get("content")
                    seeded = c is not None and any(x[0] == "call" and x[1] in ("HashMap::get", "HashMap::get_mut") and len(x[2]) == 2 and
                                                   x[2][1][0] == "arg" and x[2][1][1] == 1 for x in walk(c)) and \
                        any(x[0] == "field" and x[2] == "content" for x in walk(c))
                    gs = D.guards(cb, blk.idx)
                    seeked = False
                    for g in gs:
                        if g[0] == "variant" and g[2] == "ok":
                            t = peel(g[1])
                            if t[0] == "call" and sname(t[1]) == "seek" and len(t[2]) == 2 and t[2][1][0] == "agg" and t[2][1][2] == "End" and \
                                    t[2][1][3][0][1] == ("int", 0):
                                seeked = True
                    n += 2
                    rep.ob(rule, b.id, "append_file seeds the buffer with the existing bytes", bool(seeded), "" if seeded else
                           "the append writer does not start from the entry's current content", st.line)
                    rep.ob(rule, b.id, "append_file seeks End(0) before handing the writer out", seeked, "" if seeked else
                           "the append writer is handed out without a successful seek(End(0)): writes overwrite the start", st.line)
    return n


def length_rules(facts, rep, w, D, rule="R04.3"):
    n = 0
    inter = D.inter
    # MemoryFS
    b = facts.impl_methods(w.trait.rsplit("::", 1)[1], w.memory).get("metadata")
    if b is not None:
        for ct, _, bb in inter.ret_cases(b):
            if inter.case_polarity(ct) != "ok":
                continue
            v = norm(ct[3][0][1])
            d = dict(v[3]) if v[0] == "agg" else {}
            ln = d.get("len")
            ok = ln is not None and ln[0] == "call" and ln[1] == "Vec::len" and any(x[0] == "field" and x[2] == "content" for x in walk(ln)) and \
                any(x[0] == "call" and x[1] == "HashMap::get" and x[2][1][0] == "arg" and x[2][1][1] == 1 for x in walk(ln))
            ft = d.get("file_type")
            okt = ft is not None and ft[0] == "field" and ft[2] == "file_type"
            n += 2
            rep.ob(rule, b.id, "len is the looked-up entry's content length", ok, fmt(ln)[:60] if ln else "?", b.span)
            rep.ob(rule, b.id, "file_type is the entry's type", okt, "", b.span)
    # PhysicalFS
    b = facts.impl_methods(w.trait.rsplit("::", 1)[1], w.physical).get("metadata")
    if b is not None:
        cb = inter.code_body(b)
        tr = get_tracer(facts, cb)
        seen = {}
        for blk in cb.blocks:
            if blk.cleanup:
                continue
            for st in blk.stmts:
                if st.kind == "assign" and st.rv.kind == "agg" and st.rv.agg.get("adt") == "path::VfsMetadata":
                    v = norm(tr.rvalue(st.rv, frozenset()))
                    d = dict(v[3])
                    ft = d["file_type"][2] if d["file_type"][0] == "agg" else None
                    gs = D.guards(cb, blk.idx)
                    isdir = None
                    for g in gs:
                        if g[0] == "bool" and peel(g[1])[0] == "call" and peel(g[1])[1] in ("Metadata::is_dir",):
                            isdir = g[2]
                    seen[ft] = (d["len"], isdir, st.line)
        # alternative shape: the (file_type, len) pair is chosen first, one struct literal afterwards
        for blk in cb.blocks:
            if blk.cleanup:
                continue
            for st in blk.stmts:
                if st.kind == "assign" and st.rv.kind == "agg" and st.rv.agg.get("kind") == "tuple" and len(st.rv.ops) == 2:
                    v = norm(tr.rvalue(st.rv, frozenset()))
                    a0, a1 = v[1]
                    if a0[0] == "agg" and a0[1] == "path::VfsFileType":
                        gs = D.guards(cb, blk.idx)
                        isdir = None
                        for g in gs:
                            if g[0] == "bool" and peel(g[1])[0] == "call" and peel(g[1])[1] in ("Metadata::is_dir",):
                                isdir = g[2]
                        seen[a0[2]] = (a1, isdir, st.line)
        okd = "Directory" in seen and seen["Directory"][0] == ("int", 0) and seen["Directory"][1] is True
        okf = "File" in seen and seen["File"][0][0] in ("call", "await") and "Metadata::len" in repr(seen["File"][0]) and seen["File"][1] is False
        n += 2
        rep.ob(rule, b.id, "directories report length 0 (under is_dir())", okd, str(seen.get("Directory"))[:80], b.span)
        rep.ob(rule, b.id, "files report Metadata::len() (under !is_dir())", okf, str(seen.get("File"))[:80], b.span)
    # EmbeddedFS
    for bb_ in facts.bodies:
        if bb_.name == "metadata" and bb_.impl and bb_.impl["self_ty"].startswith("impls::embedded::EmbeddedFS") and bb_.kind != "Closure":
            tr = get_tracer(facts, bb_)
            seen = {}
            for blk in bb_.blocks:
                if blk.cleanup:
                    continue
                for st in blk.stmts:
                    if st.kind == "assign" and st.rv.kind == "agg" and st.rv.agg.get("adt") == "path::VfsMetadata":
                        v = norm(tr.rvalue(st.rv, frozenset()))
                        d = dict(v[3])
                        ft = d["file_type"][2] if d["file_type"][0] == "agg" else None
                        seen[ft] = d["len"]
            okd = seen.get("Directory") == ("int", 0)
            lf = seen.get("File")
            okf = lf is not None and any(x[0] == "call" and x[1] == "HashMap::get" for x in walk(lf)) and any(x[0] == "field" and x[2] == "files" for x in walk(lf))
            n += 2
            rep.ob(rule, bb_.id, "embedded directories report length 0", okd, "", bb_.span)
            rep.ob(rule, bb_.id, "embedded files report the stored length of the looked-up file", okf, fmt(lf)[:60] if lf else "?", bb_.span)
    return n


def overlay_read_delegation(facts, rep, w, rule="R04.4o"):
    ov = Overlay(facts, w)
    n = 0
    for op in ("open_file", "metadata"):
        b = ov.ops.get(op)
        if b is None:
            rep.fail(rule, w.overlay, "%s implemented" % op, "missing")
            continue
        cases = ov.inter.ret_cases(b)
        ok = bool(cases)
        # (`let m = resolved.metadata()?; Ok(m)` hands the answer on — unless the value is edited in between: any write through a
        # field projection in the operation's own code means it is not the layer's answer any more)
        cb_ = ov.inter.code_body(b)
        edited = any(st.kind == "assign" and not st.lhs.is_local() and st.lhs.fields()
                     for blk in cb_.blocks if not blk.cleanup for st in blk.stmts)
        for ct, _, bb in cases:
            c = norm(ct)
            if ov.inter.case_polarity(ct) == "err":
                continue
            t = peel(passthrough_of(c))
            if passthrough_of(c) != c and edited:
                ok = False
                continue
            # the receiver is what the overlay's resolver returned for this path (not a layer picked in the operation itself)
            recv_resolver = bool(t[0] == "call" and t[2]) and any(
                x[0] == "call" and isinstance(x[1], str) and ov.inter.body_of_call(x) is not None and
                ov.inter.body_of_call(x).id in {h.id for h in ov.helpers.values() if ov._is_resolver(h)}
                for x in walk(t[2][0]))
            good = t[0] == "call" and sname(t[1]) == op and t[2] and ov.is_resolved(t[2][0]) and ov.mentions_path_arg(t[2][0]) and recv_resolver
            ok = ok and good
        n += 1
        rep.ob(rule, b.id, "%s returns resolver(path).%s() unchanged" % (op, op), ok, "" if ok else
               "OverlayFS::%s post-processes or re-routes the result of the served entry" % op, b.span)
    return n


def read_to_string_rules(facts, rep, w, D, rule="R04.5"):
    pr = PathRules(facts, w, D)
    b = pr.methods.get("read_to_string")
    n = 0
    if b is None:
        rep.fail(rule, w.path_ty, "read_to_string present", "missing")
        return 0
    for cb in pr.inter.code_bodies(b):
        tr = get_tracer(facts, cb)
        for s in pr.inter.sites(cb):
            if sname(s.path) == "read_to_string" and not (s.self_ty or "").endswith("VfsPath"):
                recv = norm(tr.operand(s.args[0]))
                okr = peel(recv)[0] == "call" and sname(peel(recv)[1]) == "open_file" and pr.is_arg(peel(recv)[2][0], 0)
                gs = pr.guards(cb, s.bb)
                okt = pr.g_type(gs, lambda t: pr.is_arg(t, 0), "File")
                n += 2
                rep.ob(rule, b.id, "reads from self.open_file()", okr, fmt(recv)[:60], s.line)
                rep.ob(rule, b.id, "only after a file-type guard", okt, "", s.line)
    # ... and the string that was filled is handed out as it is: no other call borrows it mutably (drain / truncate / retain /
    # replace_range / a helper taking `&mut String` — stripping a BOM, normalising line ends) between the read and the return
    for cb in pr.inter.code_bodies(b):
        def root_local(l, depth=6):
            """the local a chain of `&mut` / reborrow temporaries points at"""
            while depth > 0:
                depth -= 1
                ds = [st for blk in cb.blocks if not blk.cleanup for st in blk.stmts if st.kind == "assign" and st.lhs.is_local() and st.lhs.local == l]
                if len(ds) == 1 and ds[0].rv.kind == "ref" and ds[0].rv.mut:
                    l = ds[0].rv.place.local
                    continue
                if len(ds) == 1 and ds[0].rv.kind == "use" and ds[0].rv.ops[0].place is not None and "&mut" in cb.local_ty(l):
                    l = ds[0].rv.ops[0].place.local
                    continue
                break
            return l
        bufs = set()
        for s in pr.inter.sites(cb):
            if sname(s.path) == "read_to_string" and not (s.self_ty or "").endswith("VfsPath") and len(s.args) == 2 and s.args[1].place is not None:
                bufs.add(root_local(s.args[1].place.local))
        for buf in bufs:
            others = []
            for s in pr.inter.sites(cb):
                if sname(s.path) == "read_to_string" and not (s.self_ty or "").endswith("VfsPath"):
                    continue
                for a in s.args:
                    if a.place is not None and a.place.is_local() and "&mut" in cb.local_ty(a.place.local) and root_local(a.place.local) == buf:
                        others.append((s.short, s.line))
            n += 1
            rep.ob(rule, b.id, "the string that was read is returned unmodified", not others, "" if not others else
                   "%s mutates the string between Read::read_to_string and the return: the result is not the file's content for "
                   "every byte string" % others[0][0], others[0][1] if others else b.span)
    # the content is whatever the handle yields up to its end: a read bounded by the length metadata() reported a moment ago
    # (read_exact / take(len)) returns a value the file never had when it was rewritten in between
    rep.ob(rule, b.id, "read_to_string reads the handle to its end", n >= 2, "" if n >= 2 else
           "no Read::read_to_string on the opened handle: the read is bounded by something else than the end of the file", b.span)
    return n + 1


def run(facts, rep, tier, ctx):
    D = Discharger(facts, load_records(os.path.join(ctx["V"], "rules", "panic_records.json")))
    ws = World(facts, False)
    h = Handles(facts, False, D)
    n = h.writer_rules(rep, "R04.1", "R04.1d", "R04.1t")
    rep.floor("writer obligations", n, 9)
    n = session_start_rules(facts, rep, ws, D)
    rep.floor("session-start obligations", n, 4)
    n = length_rules(facts, rep, ws, D)
    rep.floor("length obligations", n, 6)
    pr = PathRules(facts, ws, D)
    n = pr.generic_routes(rep, "R04.4")
    rep.floor("generic-route obligations", n, 16)
    # a refused or failed copy leaves the bytes that were there: nothing at the destination is touched before the copy is
    # known to be allowed (Table P rows of the transfer operations, shared with C11)
    from ..report import Report as _Rp4
    for w4 in (ws, World(facts, True)):
        if not w4.present():
            continue
        scr4 = _Rp4("p")
        PathRules(facts, w4, D).table_p(scr4, "P")
        for o in scr4.obligations:
            d = o["key"].split("|")[2]
            if d.split(":")[0] in ("copy_file", "move_file", "copy_dir", "move_dir"):
                rep.ob(("A/" if w4.asyncw else "") + "R04.4p", o["fn"], d, o["ok"], o["detail"], o["loc"])
    n = c09.table_u(facts, rep, ws, "R04.4u", only=("append_file",))
    n += overlay_read_delegation(facts, rep, ws)
    # ... and the resolved path is the first layer that has the file: a layer that fails to answer is an error, not "absent"
    # (skipping it serves a lower layer's stale bytes)
    n += c09.resolver_rules(facts, rep, ws, "R04.4r")
    rep.floor("overlay routing obligations", n, 4)
    # what a write session / copy creates through the overlay must be visible afterwards: the path's deletion marker is gone
    from . import c10
    c10.marker_rules(facts, rep, ws, prefix="R04.4m", only=("R10.3", "R10.1"))
    n = read_to_string_rules(facts, rep, ws, D)
    rep.floor("read_to_string obligations", n, 2)
    for w4j in (ws, World(facts, True)):
        if w4j.present():
            from .c10 import _Prefixed as _Pf4j
            c09.relative_join_rules(facts, rep if not w4j.asyncw else _Pf4j(rep, "A"), w4j, rule="R04.4j")
    # R04.6 "that file": a write session changes the bytes of the path it was opened on and of no other — the physical translator
    # maps distinct names to distinct OS paths (a backslash is part of a name; splitting on it makes `2024\\report.txt` and
    # `2024/report.txt` one file), and a native two-path operation of an in-memory backend re-keys exactly the subtree it was
    # asked to (prefix match at a '/' boundary, destination vacant) — shared with C07 R07.2 and Table M
    from . import c07 as _c07g, c01 as _c01m
    from .c10 import _Prefixed as _Pf4
    for w6 in (ws, World(facts, True)):
        if not w6.present():
            continue
        _c07g.physical_gate(facts, _Pf4(rep, ("A/" if w6.asyncw else "") + "R04.6g"), w6, D)
        scr6 = _Rp4("m")
        _c01m.table_m(facts, scr6, "M", "Mk", self_ty=w6.memory, trait=w6.trait.rsplit("::", 1)[1], ops_filter=_c01m.TWO_PATH_OPS)
        for o in scr6.obligations:
            if o["rule"] == "M":
                rep.ob(("A/" if w6.asyncw else "") + "R04.6m", o["fn"], o["key"].split("|")[2], o["ok"], o["detail"], o["loc"])
    # reader window and seek bases (C14's shapes) and PhysicalFS open options decide which bytes come back
    h.read_rules(rep, "R04.r")
    h.seek_rules(rep, "R04.r", "R04.r")
    h.handle_surface_rules(rep, "R04.r")
    physrules.table_o_shape(facts, rep, "R04.2p", ws)
    # the async port: same publication / session-start / length / routing clauses on its own copies of the code
    wa = World(facts, True)
    rep.ob("R04.A", "async_vfs", "async world present", wa.present(), "", "")
    if wa.present():
        from .c10 import _Prefixed
        A = _Prefixed(rep, "A")
        ha = Handles(facts, True, D)
        k = ha.writer_rules(A, "R04.1", "R04.1d", "R04.1t")
        k += ha.flush_publishes(A, "R04.1f")
        k += session_start_rules(facts, A, wa, D)
        k += length_rules(facts, A, wa, D)
        pra = PathRules(facts, wa, D)
        k += pra.generic_routes(A, "R04.4")
        k += c09.table_u(facts, A, wa, "R04.4u", only=("append_file",))
        k += overlay_read_delegation(facts, A, wa)
        k += c09.resolver_rules(facts, A, wa, "R04.4r")
        k += c10.marker_rules(facts, A, wa, prefix="R04.4m", only=("R10.3", "R10.1"))
        k += read_to_string_rules(facts, A, wa, D)
        ha.read_rules(A, "R04.r")
        ha.seek_rules(A, "R04.r", "R04.r")
        ha.handle_surface_rules(A, "R04.r")
        physrules.table_o_shape(facts, A, "R04.2p", wa)
        rep.floor("async-world obligations", k, 30)
    # opening a file for append does not change what readers get until the session publishes
    from . import c01
    from ..report import Report
    for w_ in (ws, wa):
        if not w_.present():
            continue
        scratch = Report("m")
        c01.table_m(facts, scratch, "M", "Mk", self_ty=w_.memory, trait=w_.trait.rsplit("::", 1)[1], ops_filter=("append_file",))
        for o in scratch.obligations:
            d = o["key"].split("|")[2]
            if "the stored entry is not modified" in d:
                rep.ob(("A/" if w_.asyncw else "") + "R04.2", o["fn"], d, o["ok"], o["detail"], o["loc"])
    rep.assume("std Cursor / File / io::copy honour their contracts")
