#!/usr/bin/env python3
"""Run every implemented check against every seeded change (scratch copy of /repo with the patch applied)
and record which checks report NEW violations compared with the unchanged tree.

  bin/seeded-matrix.py [seed-name-regex]      -> /verif/seeded/RESULTS.json + a table on stdout
"""
import glob
import importlib
import json
import os
import re
import shutil
import subprocess
import sys
import tempfile

V = "/verif"
sys.path.insert(0, V)
import check  # noqa: E402
from analysis.facts import Facts  # noqa: E402
from analysis.report import Report  # noqa: E402

PROPS = sorted(os.path.basename(p)[:-3].upper() for p in glob.glob(V + "/analysis/props/c*.py"))


def run_all(facts, repo):
    out = {}
    for pid in PROPS:
        mod = importlib.import_module("analysis.props.%s" % pid.lower())
        rep = Report(pid)
        try:
            mod.run(facts, rep, "quick", {"repo": repo, "tier": "quick", "V": V, "extract": check.extract, "seed": 0})
            out[pid] = {o["key"] for o in rep.violations()}
        except Exception as e:  # a crash of the analysis on a mutant counts as an alarm (exit 2 = broken)
            out[pid] = {"CRASH|%s" % type(e).__name__}
    return out


def fresh_modules():
    # rules keep per-facts caches keyed by id(facts); drop tracer caches between trees
    import analysis.terms as T
    T._TRACERS.clear()


def main():
    rx = re.compile(sys.argv[1]) if len(sys.argv) > 1 else None
    base_facts = Facts(check.extract("/repo", "all"))
    base = run_all(base_facts, "/repo")
    fresh_modules()
    os.environ["VFS_FACTS_TARGET"] = V + "/.cache/target-scratch"
    results = {}
    seeds = sorted(glob.glob(V + "/seeded/C*-m*"))
    for sd in seeds:
        name = os.path.basename(sd)
        if rx and not rx.search(name):
            continue
        pid = name.split("-")[0]
        w = tempfile.mkdtemp(prefix="seedrun.")
        try:
            r = os.path.join(w, "r")
            subprocess.run(["rsync", "-a", "--exclude", "target", "--exclude", ".git", "/repo/", r + "/"], check=True)
            p = subprocess.run(["git", "apply", os.path.join(sd, "patch.diff")], cwd=r, capture_output=True, text=True)
            if p.returncode != 0:
                results[name] = {"error": "patch does not apply: " + p.stderr[-200:]}
                print("%-8s PATCH DOES NOT APPLY" % name)
                continue
            try:
                fpath = check.extract(r, "all")
            except Exception as e:
                results[name] = {"error": "extraction failed: %s" % e}
                print("%-8s EXTRACTION FAILED" % name)
                continue
            facts = Facts(fpath)
            got = run_all(facts, r)
            fresh_modules()
            new = {p_: sorted(k for k in ks if k not in base[p_]) for p_, ks in got.items()}
            new = {p_: ks for p_, ks in new.items() if ks}
            own = bool(new.get(pid))
            results[name] = {"property": pid, "caught_by_own_check": own, "caught_by": sorted(new), "new_violations": new}
            print("%-8s own=%-5s caught_by=%s" % (name, own, ",".join(sorted(new)) or "-"))
        finally:
            shutil.rmtree(w, ignore_errors=True)
    out = os.path.join(V, "seeded", "RESULTS.json")
    old = {}
    if rx and os.path.exists(out):
        old = json.load(open(out)).get("seeds", {})
    old.update(results)
    json.dump({"checks_implemented": PROPS, "seeds": old}, open(out, "w"), indent=1)
    tot = len(old)
    own = sum(1 for r in old.values() if r.get("caught_by_own_check"))
    anyc = sum(1 for r in old.values() if r.get("caught_by"))
    print("seeds: %d   caught by own property's check: %d   caught by some check: %d" % (tot, own, anyc))


if __name__ == "__main__":
    main()
