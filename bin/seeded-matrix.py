#!/usr/bin/env python3
"""Run every implemented check against every seeded change (scratch copy of /repo with the patch applied)
and record which checks report NEW violations compared with the unchanged tree.

  bin/seeded-matrix.py [seed-name-regex]      -> /verif/seeded/RESULTS.json + a table on stdout
"""
import glob
import importlib
import json
import os
import re
import shutil
import subprocess
import sys
import tempfile

V = "/verif"
sys.path.insert(0, V)
import check  # noqa: E402
from analysis.facts import Facts  # noqa: E402
from analysis.report import Report  # noqa: E402

PROPS = sorted(os.path.basename(p)[:-3].upper() for p in glob.glob(V + "/analysis/props/c*.py"))


def run_all(facts, repo):
    out = {}
    for pid in PROPS:
        mod = importlib.import_module("analysis.props.%s" % pid.lower())
        rep = Report(pid)
        try:
            mod.run(facts, rep, "quick", {"repo": repo, "tier": "quick", "V": V, "extract": check.extract, "seed": 0})
            out[pid] = {o["key"] for o in rep.violations()}
        except Exception as e:  # a crash of the analysis on a mutant counts as an alarm (exit 2 = broken)
            out[pid] = {"CRASH|%s" % type(e).__name__}
    return out


def fresh_modules():
    # rules keep per-facts caches keyed by id(facts); drop tracer caches between trees
    import analysis.terms as T
    T._TRACERS.clear()


def one_seed(args):
    sd, base, k = args
    os.environ["VFS_FACTS_TARGET"] = V + "/.cache/target-scratch" + ("-%d" % k if k else "")
    name = os.path.basename(sd)
    pid = name.split("-")[0]
    w = tempfile.mkdtemp(prefix="seedrun.")
    try:
        r = os.path.join(w, "r")
        subprocess.run(["rsync", "-a", "--exclude", "target", "--exclude", ".git", "/repo/", r + "/"], check=True)
        p = subprocess.run(["git", "apply", os.path.join(sd, "patch.diff")], cwd=r, capture_output=True, text=True)
        if p.returncode != 0:
            return name, {"error": "patch does not apply: " + p.stderr[-200:]}, "%-8s PATCH DOES NOT APPLY" % name
        try:
            fpath = check.extract(r, "all")
        except Exception as e:
            return name, {"error": "extraction failed: %s" % e}, "%-8s EXTRACTION FAILED" % name
        facts = Facts(fpath)
        got = run_all(facts, r)
        fresh_modules()
        new = {p_: sorted(k_ for k_ in ks if k_ not in base[p_]) for p_, ks in got.items()}
        new = {p_: ks for p_, ks in new.items() if ks}
        own = bool(new.get(pid))
        return name, {"property": pid, "caught_by_own_check": own, "caught_by": sorted(new), "new_violations": new}, \
            "%-8s own=%-5s caught_by=%s" % (name, own, ",".join(sorted(new)) or "-")
    finally:
        shutil.rmtree(w, ignore_errors=True)


def _worker(args):
    import multiprocessing
    ident = multiprocessing.current_process()._identity
    return one_seed((args[0], args[1], ident[0] if ident else 0))


def main():
    argv = [a for a in sys.argv[1:]]
    jobs = 1
    if "-j" in argv:
        i_ = argv.index("-j")
        jobs = int(argv[i_ + 1])
        del argv[i_:i_ + 2]
    rx = re.compile(argv[0]) if argv else None
    base_facts = Facts(check.extract("/repo", "all"))
    base = run_all(base_facts, "/repo")
    fresh_modules()
    results = {}
    seeds = [sd for sd in sorted(glob.glob(V + "/seeded/C*-m*")) if not rx or rx.search(os.path.basename(sd))]
    if jobs > 1:
        import multiprocessing
        with multiprocessing.Pool(jobs) as pool:
            for name, res, line in pool.imap_unordered(_worker, [(sd, base) for sd in seeds]):
                results[name] = res
                print(line, flush=True)
    else:
        for sd in seeds:
            name, res, line = one_seed((sd, base, 0))
            results[name] = res
            print(line, flush=True)
    out = os.path.join(V, "seeded", "RESULTS.json")
    old = {}
    if rx and os.path.exists(out):
        old = json.load(open(out)).get("seeds", {})
    old.update(results)
    old = {k_: old[k_] for k_ in sorted(old) if os.path.isdir(os.path.join(V, "seeded", k_))}
    json.dump({"checks_implemented": PROPS, "seeds": old}, open(out, "w"), indent=1)
    tot = len(old)
    own = sum(1 for r in old.values() if r.get("caught_by_own_check"))
    anyc = sum(1 for r in old.values() if r.get("caught_by"))
    print("seeds: %d   caught by own property's check: %d   caught by some check: %d" % (tot, own, anyc))


if __name__ == "__main__":
    main()
