#!/bin/bash
# Offline setup: build the fact-extraction driver and warm the dependency-only target directory.
set -euo pipefail
cd /verif/driver && CARGO_NET_OFFLINE=true cargo build --offline
mkdir -p /verif/.cache
# warm: one extraction of the unchanged tree (builds dependency metadata once)
python3 - <<'PY'
import sys
sys.path.insert(0, '/verif')
import check
print(check.extract('/repo', 'all'))
PY
