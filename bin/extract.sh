#!/bin/bash
# usage: extract.sh <manifest-path> <crate-name> <out.json> [cargo feature flags...]
# Extracts MIR facts of one crate with the vfs-facts driver. Fails closed.
set -euo pipefail
MANIFEST="$1"; CRATE="$2"; OUT="$3"; shift 3
V=/verif
DRV=$V/driver/target/debug/vfs-facts
[ -x "$DRV" ] || (cd $V/driver && cargo build --offline >&2)
SYSROOT=$(rustc +nightly --print sysroot)
TD=${VFS_FACTS_TARGET:-$V/.cache/target}
mkdir -p "$TD" "$(dirname "$OUT")"
# cargo's freshness cache would skip the driver: forget the analysed crate
rm -rf "$TD"/debug/.fingerprint/${CRATE}-* 2>/dev/null || true
rm -f "$OUT"
export LD_LIBRARY_PATH="$SYSROOT/lib${LD_LIBRARY_PATH:+:$LD_LIBRARY_PATH}"
export RUSTC_WRAPPER=$V/bin/rustc-wrapper.sh
export RUSTC_WORKSPACE_WRAPPER=$DRV
export CARGO_TARGET_DIR="$TD"
export CARGO_NET_OFFLINE=true
export VFS_FACTS_CRATE="$CRATE"
export VFS_FACTS_OUT="$OUT"
export RUSTFLAGS="-Awarnings"
cargo +nightly check --offline --lib --manifest-path "$MANIFEST" "$@" >&2
[ -s "$OUT" ] || { echo "extract.sh: fact file $OUT was not produced" >&2; exit 2; }
