#!/usr/bin/env python3
"""Apply every behaviour-preserving variant to a scratch copy of /repo and require every check to stay silent
(no violation key that is not already present on the unchanged tree).  -> /verif/variants/RESULTS.json

  bin/variants-matrix.py [-j N] [name-regex]     with a regex only the matching variants are re-run and merged into RESULTS.json
"""
import glob, json, os, re, shutil, subprocess, sys, tempfile
V = "/verif"
sys.path.insert(0, V)
import check
from analysis.facts import Facts
sys.path.insert(0, V + "/bin")
import importlib.util
spec = importlib.util.spec_from_file_location("sm", V + "/bin/seeded-matrix.py")
sm = importlib.util.module_from_spec(spec); spec.loader.exec_module(sm)


def one_variant(args):
    vf, base, k = args
    os.environ["VFS_FACTS_TARGET"] = V + "/.cache/target-scratch" + ("-%d" % k if k else "")
    name = os.path.basename(vf)
    w = tempfile.mkdtemp(prefix="variant.")
    try:
        r = os.path.join(w, "r")
        subprocess.run(["rsync", "-a", "--exclude", "target", "--exclude", ".git", "/repo/", r + "/"], check=True)
        p = subprocess.run(["git", "apply", vf], cwd=r, capture_output=True, text=True)
        if p.returncode != 0:
            return name, {"error": "does not apply"}, "%-10s DOES NOT APPLY" % name
        try:
            fp = check.extract(r, "all")
        except Exception as e:
            return name, {"error": "extraction failed: %s" % e}, "%-10s EXTRACTION FAILED" % name
        got = sm.run_all(Facts(fp), r)
        sm.fresh_modules()
        new = {k_: sorted(x for x in v if x not in base[k_]) for k_, v in got.items()}
        new = {k_: v for k_, v in new.items() if v}
        return name, {"silent": not new, "alarms": new}, \
            "%-10s %s" % (name, "silent" if not new else "ALARMS: " + ", ".join("%s(%d)" % (k_, len(v)) for k_, v in new.items()))
    finally:
        shutil.rmtree(w, ignore_errors=True)


def _worker(args):
    import multiprocessing
    ident = multiprocessing.current_process()._identity
    return one_variant((args[0], args[1], ident[0] if ident else 0))


def main():
    argv = list(sys.argv[1:])
    jobs = 1
    if "-j" in argv:
        i_ = argv.index("-j")
        jobs = int(argv[i_ + 1])
        del argv[i_:i_ + 2]
    rx = re.compile(argv[0]) if argv else None
    base = sm.run_all(Facts(check.extract("/repo", "all")), "/repo")
    sm.fresh_modules()
    files = [vf for vf in sorted(glob.glob(V + "/variants/v*.diff")) if not rx or rx.search(os.path.basename(vf)[:-5])]
    res = {}
    if jobs > 1:
        import multiprocessing
        with multiprocessing.Pool(jobs) as pool:
            for name, r, line in pool.imap_unordered(_worker, [(vf, base) for vf in files]):
                res[name] = r
                print(line, flush=True)
    else:
        for vf in files:
            name, r, line = one_variant((vf, base, 0))
            res[name] = r
            print(line, flush=True)
    out = V + "/variants/RESULTS.json"
    old = {}
    if rx and os.path.exists(out):
        old = json.load(open(out))
    old.update(res)
    old = {k_: old[k_] for k_ in sorted(old) if os.path.exists(os.path.join(V, "variants", k_))}
    json.dump(old, open(out, "w"), indent=1)
    print("variants: %d  silent: %d" % (len(old), sum(1 for r in old.values() if r.get("silent"))))


if __name__ == "__main__":
    main()
