#!/usr/bin/env python3
"""Apply every behaviour-preserving variant to a scratch copy of /repo and require every check to stay silent
(no violation key that is not already present on the unchanged tree).  -> /verif/variants/RESULTS.json"""
import glob, json, os, shutil, subprocess, sys, tempfile
V = "/verif"
sys.path.insert(0, V)
import check
from analysis.facts import Facts
sys.path.insert(0, V + "/bin")
import importlib.util
spec = importlib.util.spec_from_file_location("sm", V + "/bin/seeded-matrix.py")
sm = importlib.util.module_from_spec(spec); spec.loader.exec_module(sm)

def main():
    base = sm.run_all(Facts(check.extract("/repo", "all")), "/repo")
    sm.fresh_modules()
    os.environ["VFS_FACTS_TARGET"] = V + "/.cache/target-scratch"
    res = {}
    for vf in sorted(glob.glob(V + "/variants/v*.diff")):
        name = os.path.basename(vf)
        w = tempfile.mkdtemp(prefix="variant.")
        try:
            r = os.path.join(w, "r")
            subprocess.run(["rsync", "-a", "--exclude", "target", "--exclude", ".git", "/repo/", r + "/"], check=True)
            p = subprocess.run(["git", "apply", vf], cwd=r, capture_output=True, text=True)
            if p.returncode != 0:
                res[name] = {"error": "does not apply"}; print(name, "DOES NOT APPLY"); continue
            fp = check.extract(r, "all")
            got = sm.run_all(Facts(fp), r)
            sm.fresh_modules()
            new = {k: sorted(x for x in v if x not in base[k]) for k, v in got.items()}
            new = {k: v for k, v in new.items() if v}
            res[name] = {"silent": not new, "alarms": new}
            print("%-10s %s" % (name, "silent" if not new else "ALARMS: " + ", ".join("%s(%d)" % (k, len(v)) for k, v in new.items())))
        finally:
            shutil.rmtree(w, ignore_errors=True)
    json.dump(res, open(V + "/variants/RESULTS.json", "w"), indent=1)
    print("variants: %d  silent: %d" % (len(res), sum(1 for r in res.values() if r.get("silent"))))
main()
