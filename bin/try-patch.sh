#!/bin/bash
# usage: try-patch.sh <patch.diff> <prop> [<prop>...]   — run checks against a scratch copy of /repo with the patch applied
set -u
P="$1"; shift
W=$(mktemp -d /tmp/trypatch.XXXXXX)
trap 'rm -rf "$W"' EXIT
mkdir -p "$W/r"
rsync -a --exclude target --exclude .git /repo/ "$W/r/"
( cd "$W/r" && patch -p1 -s < "$P" ) || { echo "PATCH-FAILED $P"; exit 3; }
for pr in "$@"; do
  out=$(VFS_FACTS_TARGET=/verif/.cache/target-scratch python3 /verif/check.py "$pr" --repo "$W/r" --no-evidence 2>&1); rc=$?
  echo "== $pr rc=$rc :: $(echo "$out" | grep -c '^  violation') violations"
  echo "$out" | grep -A2 '^  violation' | head -${MAXL:-12}
  [ $rc -eq 2 ] && echo "$out" | tail -20
done
