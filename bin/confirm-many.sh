#!/bin/bash
# usage: confirm-many.sh <list file of seed dirs> <workers> <log>   — runs bin/confirm-seed.sh <dir> all for each dir, N at a time
L="$1"; N="${2:-6}"; LOG="$3"
: > "$LOG"
for k in $(seq 0 $((N-1))); do
  (
    i=0
    while read d; do
      if [ $((i % N)) -eq $k ]; then
        CONFIRM_TARGET=/tmp/confirm-many-target-$k /verif/bin/confirm-seed.sh "$d" all 2>>"$LOG.err-$k" >> "$LOG"
      fi
      i=$((i+1))
    done < "$L"
    rm -rf /tmp/confirm-many-target-$k
  ) &
done
wait
