#!/usr/bin/env python3
"""Prints the markdown tables of DESIGN.md §0 (per-property numbers, from evidence/*.json) and §10 (seeded matrix, from
seeded/RESULTS.json + each seed's notes.md).   bin/design-tables.py summary|seeds"""
import glob, json, os, re, sys
V = "/verif"


def summary():
    for p in sorted(glob.glob(V + "/evidence/C*.json")):
        e = json.load(open(p))
        c = e["coverage"]
        print("| %s | %d | %d | %d | %d |" % (e["property_id"], c["obligations"], c["discharged"], c["known_findings_matched"], c["functions_analysed"]))


def seeds():
    r = json.load(open(V + "/seeded/RESULTS.json"))["seeds"]
    for name in sorted(r, key=lambda s: (s.split("-")[0], int(s.split("-m")[1]))):
        e = r[name]
        if "error" in e:
            print("| %s | %s | | |" % (name, e["error"]))
            continue
        notes = open(os.path.join(V, "seeded", name, "notes.md")).read().strip().splitlines()
        first = next((l for l in notes if l.strip() and not l.startswith("#")), notes[0] if notes else "")
        if notes and notes[0].startswith("#"):
            first = notes[0].lstrip("# ").strip()
        first = re.sub(r"\s+", " ", first)[:150].replace("|", "/")
        own = e["property"]
        rules = sorted({k.split("|")[0] for k in e["new_violations"].get(own, [])})
        others = [c for c in e["caught_by"] if c != own]
        print("| %s | %s | %s | %s |" % (name, first, ", ".join(rules) or "**not reported**", ", ".join(others)))


{"summary": summary, "seeds": seeds}[sys.argv[1]]()
