#!/bin/sh
# RUSTC_WRAPPER: rustix 0.37's build script probes nightly-only features; allow them for that package only.
if [ "$CARGO_PKG_NAME" = "rustix" ]; then
  RUSTC_BOOTSTRAP=-1; export RUSTC_BOOTSTRAP
fi
exec "$@"
