#!/bin/bash
# usage: confirm-seed.sh <seed-dir containing patch.diff demo.rs> <features: "" | "async-vfs" | "embedded-fs" | "all">
# Confirms in a throw-away worktree of /repo: patch applies, builds (default + all features),
# baseline suite passes with the patch, demo fails with the patch and passes without it.
# Prints one JSON line with the results.
set -u
SD="$1"; FEAT="${2:-}"
W=$(mktemp -d /tmp/confirm.XXXXXX)
git -C /repo worktree add --detach "$W" HEAD -q || exit 3
cd "$W"
FF=""; [ -n "$FEAT" ] && { if [ "$FEAT" = all ]; then FF="--all-features"; else FF="--features $FEAT"; fi; }
export CARGO_TARGET_DIR="${CONFIRM_TARGET:-$W/target}"
res() { echo "{\"seed\":\"$SD\",\"applies\":$1,\"build_default\":$2,\"build_all\":$3,\"suite_with_patch\":$4,\"demo_without\":$5,\"demo_with\":$6}"; }
mkdir -p target tests; cp "$SD/demo.rs" tests/demo.rs
# demo on the unmodified tree
cargo test --offline $FF --test demo >"$W/demo0.log" 2>&1; D0=$?
git apply "$SD/patch.diff" 2>"$W/apply.log"; AP=$?
if [ $AP -ne 0 ]; then res false null null null $([ $D0 -eq 0 ] && echo true || echo false) null; cd /; git -C /repo worktree remove --force "$W"; exit 0; fi
cargo build --offline >"$W/b1.log" 2>&1; B1=$?
cargo build --offline --all-features >"$W/b2.log" 2>&1; B2=$?
cargo test --offline --test demo $FF >"$W/demo1.log" 2>&1; D1=$?
rm -f tests/demo.rs; rmdir tests 2>/dev/null
cargo test --offline >"$W/suite.log" 2>&1; S=$?
NT=$(grep -h "^test result" "$W/suite.log" | awk '{s+=$4} END{print s}')
t() { [ "$1" -eq 0 ] && echo true || echo false; }
echo "{\"seed\":\"$SD\",\"applies\":true,\"build_default\":$(t $B1),\"build_all\":$(t $B2),\"suite_with_patch\":$(t $S),\"suite_tests\":${NT:-0},\"demo_passes_without_patch\":$(t $D0),\"demo_fails_with_patch\":$([ $D1 -ne 0 ] && echo true || echo false)}"
if [ $D0 -ne 0 ]; then tail -5 "$W/demo0.log" >&2; fi
cd /; git -C /repo worktree remove --force "$W"
