#!/bin/bash
# usage: witness.sh <repo-dir> <c12|c18>  — runs the compile-fail witnesses (and their compiling twins) against <repo-dir>
set -euo pipefail
REPO="$1"; WHICH="${2:-all}"
V=/verif
W=$V/.cache/witness
rm -rf "$W/crate"; mkdir -p "$W/crate"
cp -r $V/witness/src $V/witness/embed_fixture "$W/crate/"
sed "s|@REPO@|$REPO|" $V/witness/Cargo.toml.in > "$W/crate/Cargo.toml"
cp "$REPO/Cargo.lock" "$W/crate/Cargo.lock"
cd "$W/crate"
export CARGO_NET_OFFLINE=true CARGO_TARGET_DIR="$W/target"
FILTER=""
case "$WHICH" in c12) FILTER="C12";; c18) FILTER="C18";; esac
out=$(cargo +nightly test --doc --offline $FILTER 2>&1) || { echo "$out" | tail -40; exit 1; }
echo "$out" | grep -E "^test result|test src" | tail -15
# at least one compile_fail and one normal doctest must have run
n=$(echo "$out" | grep -c "compile fail ... ok" || true)
m=$(echo "$out" | grep -E "^test src.* \(line [0-9]+\) ... ok" | grep -vc "compile fail" || true)
[ "$n" -ge 1 ] && [ "$m" -ge 1 ] || { echo "witness run did not execute both compile_fail witnesses and twins (n=$n m=$m)"; exit 1; }
