#!/usr/bin/env python3
"""debug aid: dbg-ret.py <repo dir> <function-id regex> — print the return cases of matching functions"""
import sys, re
sys.path.insert(0, '/verif')
from analysis.facts import Facts
from analysis.terms import *
from analysis.panics import Discharger, norm
from analysis.inter import Inter
import check
f = Facts(check.extract(sys.argv[1], 'all'))
I = Inter(f)
for b in f.bodies:
    if re.search(sys.argv[2], b.id):
        print('==', b.id)
        for ct, gs, bb in I.ret_cases(b):
            print('   case', fmt(norm(ct))[:300])
            print('        raw', norm(ct))
