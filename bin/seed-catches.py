#!/usr/bin/env python3
"""bin/seed-catches.py <seed>...  — which rules of which checks reported each seed (from seeded/RESULTS.json)"""
import json, sys
r = json.load(open('/verif/seeded/RESULTS.json'))['seeds']
for s in sys.argv[1:]:
    print('==', s, 'own' if r[s]['caught_by_own_check'] else 'OWN-MISS')
    for p, v in r[s]['new_violations'].items():
        for k in v[:int(__import__('os').environ.get('N', '4'))]:
            print('   ', p, k[:250])
