//! Failing input of F34 (see DESIGN.md §6): FAILS on the tree before `fix:` 35b09d1, passes afterwards.
//! Copy to tests/ of a scratch worktree and run `cargo test --offline --test fixed_f34`.
use vfs::error::VfsErrorKind;
use vfs::*;

#[test]
fn f34_overlay_create_dir_on_occupied_paths() {
    let lower: VfsPath = MemoryFS::new().into();
    let upper: VfsPath = MemoryFS::new().into();
    let ov: VfsPath = OverlayFS::new(&[upper.clone(), lower.clone()]).into();
    // the root is occupied by a directory
    assert!(matches!(ov.create_dir().unwrap_err().kind(), VfsErrorKind::DirectoryExists));
    // a refused create_dir changes nothing, not even the write layer
    lower.join("a").unwrap().create_dir().unwrap();
    lower.join("a/b").unwrap().create_dir().unwrap();
    assert!(matches!(
        ov.join("a/b").unwrap().create_dir().unwrap_err().kind(),
        VfsErrorKind::DirectoryExists
    ));
    assert!(!upper.join("a").unwrap().exists().unwrap(), "refused create_dir materialised /a in the write layer");
}
