//! Failing input of F32 (see DESIGN.md §6): this test FAILS on the tree before the `fix:` commit that makes
//! `EmbeddedFS::open_file` serve only paths of its index, and passes afterwards.
//! Run in a scratch worktree: copy to tests/ and `cargo test --offline --features embedded-fs --test fixed_f32`.
#![cfg(feature = "embedded-fs")]
use rust_embed::RustEmbed;
use vfs::{EmbeddedFS, FileSystem, PhysicalFS};

#[derive(RustEmbed, Debug)]
#[folder = "test/test_directory"]
struct Assets;

#[test]
fn f32_only_indexed_spellings_are_served() {
    let fs = EmbeddedFS::<Assets>::new();
    let phys = PhysicalFS::new("test/test_directory");
    // rust-embed's `get` treats '\\' as a path separator: "a\\d.txt" resolves to a/d.txt although no such name is listed
    for p in ["/a\\d.txt", "/c/../b.txt", "/a/./d.txt", "/./a.txt"] {
        let e = fs.exists(p).unwrap();
        let o = fs.open_file(p).is_ok();
        assert_eq!(e, o, "{p}: exists and open_file disagree");
        if cfg!(unix) {
            assert_eq!(o, phys.open_file(p).is_ok() && phys.exists(p).unwrap() && e, "{p}: differs from the physical folder");
        }
    }
}
