//! Observation outside the properties' domains (DESIGN.md section 5): the marker file of `/a` (`.whiteout/a_wo`) and the marker
//! directory of everything below `/a_wo` (`.whiteout/a_wo/`) have the same name.  C01 (and with it C09, C15) never generate the
//! overlay-reserved names `*_wo`, and no clause of C10 speaks about entries that were not removed, so this is recorded, not armed.
use vfs::*;

/// the marker file of `/a` (`.whiteout/a_wo`) and the marker directory of everything below `/a_wo`
/// (`.whiteout/a_wo/`) have the same name: removing `/a_wo/child` hides the unrelated `/a`; with `/a` removed first,
/// removing `/a_wo/child` fails.
#[test]
fn marker_name_collision() {
    let mk = || {
        let lower: VfsPath = MemoryFS::new().into();
        let upper: VfsPath = MemoryFS::new().into();
        lower.join("a").unwrap().create_file().unwrap();
        lower.join("a_wo").unwrap().create_dir().unwrap();
        lower.join("a_wo/child").unwrap().create_file().unwrap();
        let ov: VfsPath = OverlayFS::new(&[upper, lower]).into();
        ov
    };
    let ov = mk();
    assert!(ov.join("a").unwrap().exists().unwrap());
    ov.join("a_wo/child").unwrap().remove_file().unwrap();
    assert!(!ov.join("a").unwrap().exists().unwrap(), "/a still visible");
    let names: Vec<String> = ov.read_dir().unwrap().map(|p| p.filename()).collect();
    assert!(!names.contains(&"a".to_string()), "{:?}", names);
    let ov = mk();
    ov.join("a").unwrap().remove_file().unwrap();
    assert!(ov.join("a_wo/child").unwrap().remove_file().is_err(), "second removal succeeded");
}

/// async twin.
#[cfg(feature = "async-vfs")]
#[test]
fn async_marker_name_collision() {
    use vfs::async_vfs::*;
    tokio_test::block_on(async {
        let lower = AsyncVfsPath::new(AsyncMemoryFS::new());
        let upper = AsyncVfsPath::new(AsyncMemoryFS::new());
        drop(lower.join("a").unwrap().create_file().await.unwrap());
        lower.join("a_wo").unwrap().create_dir().await.unwrap();
        drop(lower.join("a_wo/child").unwrap().create_file().await.unwrap());
        let ov = AsyncVfsPath::new(AsyncOverlayFS::new(&[upper, lower]));
        assert!(ov.join("a").unwrap().exists().await.unwrap());
        ov.join("a_wo/child").unwrap().remove_file().await.unwrap();
        assert!(!ov.join("a").unwrap().exists().await.unwrap(), "/a still visible");
    });
}
