//! Failing input of F33 (see DESIGN.md §6): FAILS on the tree before `fix:` a8199bc, passes afterwards.
//! Copy to tests/ of a scratch worktree and run `cargo test --offline --test fixed_f33`.
use vfs::error::VfsErrorKind;
use vfs::{MemoryFS, VfsPath};

#[test]
fn f33_create_dir_on_the_root_reports_directory_exists() {
    let root: VfsPath = MemoryFS::new().into();
    match root.create_dir() {
        Err(e) => assert!(
            matches!(e.kind(), VfsErrorKind::DirectoryExists),
            "root.create_dir() answered {:?} instead of DirectoryExists",
            e.kind()
        ),
        Ok(()) => panic!("root.create_dir() succeeded"),
    }
    // what PhysicalFS answers for the same call
    let dir = std::env::temp_dir().join(format!("vfs-f33-{}", std::process::id()));
    std::fs::create_dir_all(&dir).unwrap();
    let phys: VfsPath = vfs::PhysicalFS::new(&dir).into();
    assert!(matches!(phys.create_dir().unwrap_err().kind(), VfsErrorKind::DirectoryExists));
    std::fs::remove_dir_all(&dir).unwrap();
}
