//! F17: MemoryFS::create_dir / create_file / remove_dir used to check (parent exists / directory empty) under one lock
//! and act under a second one.  Racing `create_dir(/d/x)` against `remove_dir(/d)` could leave `/d/x` without `/d`
//! (an orphan), and racing `remove_dir(/d)` against `create_file(/d/f)` likewise.  After the fix no round may
//! end with an orphan.
use std::sync::{Arc, Barrier};
use vfs::{FileSystem, MemoryFS};

#[test]
fn f17_no_orphan_after_racing_create_and_remove() {
    let rounds = 20000;
    let mut orphans = 0;
    for _ in 0..rounds {
        let fs = Arc::new(MemoryFS::new());
        fs.create_dir("/d").unwrap();
        let barrier = Arc::new(Barrier::new(2));
        let (f1, b1) = (fs.clone(), barrier.clone());
        let t1 = std::thread::spawn(move || {
            b1.wait();
            let _ = f1.create_dir("/d/x");
        });
        let (f2, b2) = (fs.clone(), barrier.clone());
        let t2 = std::thread::spawn(move || {
            b2.wait();
            let _ = f2.remove_dir("/d");
        });
        t1.join().unwrap();
        t2.join().unwrap();
        if fs.exists("/d/x").unwrap() && !fs.exists("/d").unwrap() {
            orphans += 1;
        }
    }
    assert_eq!(orphans, 0, "{} of {} rounds ended with /d/x but no /d", orphans, rounds);
}
