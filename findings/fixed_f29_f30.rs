//! Failing inputs of two defects that were repaired (see DESIGN.md §6): these tests FAIL on the tree before the fix
//! commits 7b08d01 / 28ab1f8 and pass afterwards.
use std::io::Write;
use vfs::*;

#[test]
fn f29_failed_append_below_lower_file_leaves_the_file() {
    let lower: VfsPath = MemoryFS::new().into();
    let upper: VfsPath = MemoryFS::new().into();
    lower.join("f").unwrap().create_file().unwrap().write_all(b"data").unwrap();
    let ov: VfsPath = OverlayFS::new(&[upper.clone(), lower]).into();
    assert!(ov.join("f/x").unwrap().append_file().is_err());
    assert!(ov.join("f").unwrap().is_file().unwrap(), "file turned into something else");
    assert!(!upper.join("f").unwrap().exists().unwrap(), "upper layer was touched");
    assert_eq!(ov.join("f").unwrap().read_to_string().unwrap(), "data");
}

#[test]
fn f30_directory_recreated_over_removed_lower_file_is_listable() {
    let lower: VfsPath = MemoryFS::new().into();
    let upper: VfsPath = MemoryFS::new().into();
    lower.join("a").unwrap().create_file().unwrap().write_all(b"data").unwrap();
    let ov: VfsPath = OverlayFS::new(&[upper, lower]).into();
    ov.join("a").unwrap().remove_file().unwrap();
    ov.join("a").unwrap().create_dir().unwrap();
    assert!(ov.join("a").unwrap().is_dir().unwrap());
    assert_eq!(ov.join("a").unwrap().read_dir().unwrap().count(), 0);
    ov.join("a/b").unwrap().create_file().unwrap();
    assert_eq!(ov.join("a").unwrap().read_dir().unwrap().count(), 1);
    ov.join("a").unwrap().remove_dir_all().unwrap();
    assert!(!ov.join("a").unwrap().exists().unwrap());
    ov.join("f").unwrap().create_file().unwrap();
    assert!(ov.join("f").unwrap().read_dir().is_err(), "a file must still not be listable");
}
