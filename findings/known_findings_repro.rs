use std::io::Write;
use vfs::*;

/// C16 R16.3 / C03: a write handle dropped after its file and the parent directory were removed
/// re-creates the file as an orphan.
#[test]
fn f18_late_drop_orphan() {
    let root = VfsPath::new(MemoryFS::new());
    root.join("d").unwrap().create_dir().unwrap();
    let f = root.join("d/f").unwrap();
    let mut h = f.create_file().unwrap();
    h.write_all(b"x").unwrap();
    f.remove_file().unwrap();
    root.join("d").unwrap().remove_dir().unwrap();
    drop(h);
    assert!(f.exists().unwrap() && !root.join("d").unwrap().exists().unwrap(), "no orphan");
}

/// C13: dropping an async write handle inside a futures executor panics (block_on inside Drop).
#[cfg(feature = "async-vfs")]
#[test]
fn f25_block_on_in_drop() {
    use vfs::async_vfs::*;
    let r = std::panic::catch_unwind(|| {
        futures::executor::block_on(async {
            let root = AsyncVfsPath::new(AsyncMemoryFS::new());
            let f = root.join("a.txt").unwrap();
            let h = f.create_file().await.unwrap();
            drop(h);
        })
    });
    assert!(r.is_err(), "no panic");
}
