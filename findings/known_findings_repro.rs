use std::io::Write;
use vfs::*;

/// C16 R16.3 / C03: a write handle dropped after its file and the parent directory were removed
/// re-creates the file as an orphan.
#[test]
fn f18_late_drop_orphan() {
    let root = VfsPath::new(MemoryFS::new());
    root.join("d").unwrap().create_dir().unwrap();
    let f = root.join("d/f").unwrap();
    let mut h = f.create_file().unwrap();
    h.write_all(b"x").unwrap();
    f.remove_file().unwrap();
    root.join("d").unwrap().remove_dir().unwrap();
    drop(h);
    assert!(f.exists().unwrap() && !root.join("d").unwrap().exists().unwrap(), "no orphan");
}

/// C13: dropping an async write handle inside a futures executor panics (block_on inside Drop).
#[cfg(feature = "async-vfs")]
#[test]
fn f25_block_on_in_drop() {
    use vfs::async_vfs::*;
    let r = std::panic::catch_unwind(|| {
        futures::executor::block_on(async {
            let root = AsyncVfsPath::new(AsyncMemoryFS::new());
            let f = root.join("a.txt").unwrap();
            let h = f.create_file().await.unwrap();
            drop(h);
        })
    });
    assert!(r.is_err(), "no panic");
}

/// C09 R09.1 (F8): remove_file on a directory that exists only in a lower layer succeeds and hides
/// the directory while its children stay visible.
#[test]
fn f8_overlay_remove_file_on_lower_directory() {
    let lower: VfsPath = MemoryFS::new().into();
    let upper: VfsPath = MemoryFS::new().into();
    lower.join("d/c").unwrap().create_dir_all().unwrap();
    let ov: VfsPath = OverlayFS::new(&[upper, lower]).into();
    assert!(ov.join("d").unwrap().remove_file().is_ok(), "refused");
    assert!(!ov.join("d").unwrap().exists().unwrap());
    assert!(ov.join("d/c").unwrap().exists().unwrap(), "child hidden as well");
}

/// C09/C19 (F11): a timestamp setter on a file served from a lower layer fails as not-found.
#[test]
fn f11_overlay_set_time_on_lower_file() {
    let lower: VfsPath = MemoryFS::new().into();
    let upper: VfsPath = MemoryFS::new().into();
    lower.join("f").unwrap().create_file().unwrap();
    let ov: VfsPath = OverlayFS::new(&[upper, lower]).into();
    assert!(ov.join("f").unwrap().exists().unwrap());
    let e = ov.join("f").unwrap().set_modification_time(std::time::SystemTime::now());
    assert!(e.is_err(), "setter worked");
}

/// C10 R10.6 (F10): after one removal the overlay root lists its own bookkeeping directory.
#[test]
fn f10_overlay_lists_whiteout_directory() {
    let lower: VfsPath = MemoryFS::new().into();
    let upper: VfsPath = MemoryFS::new().into();
    lower.join("f").unwrap().create_file().unwrap();
    let ov: VfsPath = OverlayFS::new(&[upper, lower]).into();
    ov.join("f").unwrap().remove_file().unwrap();
    let names: Vec<String> = ov.read_dir().unwrap().map(|p| p.filename()).collect();
    assert!(names.contains(&".whiteout".to_string()), "{:?}", names);
    assert!(ov.join(".whiteout").unwrap().exists().unwrap());
}

/// C15 (F22): AsyncMemoryFS keeps no timestamps, MemoryFS does.
#[cfg(feature = "async-vfs")]
#[test]
fn f22_async_memory_has_no_timestamps() {
    use vfs::async_vfs::*;
    tokio_test::block_on(async {
        let root = AsyncVfsPath::new(AsyncMemoryFS::new());
        let f = root.join("a.txt").unwrap();
        drop(f.create_file().await.unwrap());
        let m = f.metadata().await.unwrap();
        assert!(m.created.is_none() && m.modified.is_none(), "async memory reports timestamps");
        assert!(f.set_modification_time(std::time::SystemTime::now()).await.is_err(), "setter works");
    });
    let sroot = VfsPath::new(MemoryFS::new());
    let sf = sroot.join("a.txt").unwrap();
    drop(sf.create_file().unwrap());
    assert!(sf.metadata().unwrap().created.is_some());
    assert!(sf.set_modification_time(std::time::SystemTime::now()).is_ok());
}

/// C15 (F23): data flushed through a still-open async handle is not visible until the handle is dropped.
#[cfg(feature = "async-vfs")]
#[test]
fn f23_async_writer_publishes_only_on_drop() {
    use async_std::io::WriteExt;
    use vfs::async_vfs::*;
    tokio_test::block_on(async {
        let root = AsyncVfsPath::new(AsyncMemoryFS::new());
        let f = root.join("a.txt").unwrap();
        let mut h = f.create_file().await.unwrap();
        h.write_all(b"hello").await.unwrap();
        h.flush().await.unwrap();
        assert_eq!(f.metadata().await.unwrap().len, 0, "flushed data visible before drop");
        drop(h);
        assert_eq!(f.metadata().await.unwrap().len, 5);
    });
    // the sync writer publishes on flush
    let sroot = VfsPath::new(MemoryFS::new());
    let sf = sroot.join("a.txt").unwrap();
    let mut h = sf.create_file().unwrap();
    h.write_all(b"hello").unwrap();
    h.flush().unwrap();
    assert_eq!(sf.metadata().unwrap().len, 5);
}

/// C15 (F24): AsyncPhysicalFS time setters need a tokio runtime; without one they report NotSupported.
#[cfg(feature = "async-vfs")]
#[test]
fn f24_async_physical_setters_need_tokio() {
    use vfs::async_vfs::*;
    let dir = std::env::temp_dir().join(format!("vfs-f24-{}", std::process::id()));
    std::fs::create_dir_all(&dir).unwrap();
    std::fs::write(dir.join("a.txt"), b"x").unwrap();
    let res = async_std::task::block_on(async {
        let root = AsyncVfsPath::new(AsyncPhysicalFS::new(&dir));
        root.join("a.txt").unwrap().set_modification_time(std::time::SystemTime::now()).await
    });
    let _ = std::fs::remove_dir_all(&dir);
    let err = res.expect_err("setter worked without a tokio runtime");
    assert!(matches!(err.kind(), vfs::error::VfsErrorKind::NotSupported), "{:?}", err);
}

/// async twin of F8 (C01/C03/C09/C15): AsyncOverlayFS::remove_file on a lower-only directory succeeds and hides it.
#[cfg(feature = "async-vfs")]
#[test]
fn f8a_async_overlay_remove_file_on_lower_directory() {
    use vfs::async_vfs::*;
    tokio_test::block_on(async {
        let lower = AsyncVfsPath::new(AsyncMemoryFS::new());
        let upper = AsyncVfsPath::new(AsyncMemoryFS::new());
        lower.join("d/c").unwrap().create_dir_all().await.unwrap();
        let ov = AsyncVfsPath::new(AsyncOverlayFS::new(&[upper, lower]));
        assert!(ov.join("d").unwrap().remove_file().await.is_ok(), "refused");
        assert!(!ov.join("d").unwrap().exists().await.unwrap());
        assert!(ov.join("d/c").unwrap().exists().await.unwrap(), "child hidden as well");
    });
}

/// async twin of F10 (C09/C10/C15): the async overlay root lists its bookkeeping directory after one removal.
#[cfg(feature = "async-vfs")]
#[test]
fn f10a_async_overlay_lists_whiteout_directory() {
    use futures::StreamExt;
    use vfs::async_vfs::*;
    tokio_test::block_on(async {
        let lower = AsyncVfsPath::new(AsyncMemoryFS::new());
        let upper = AsyncVfsPath::new(AsyncMemoryFS::new());
        drop(lower.join("f").unwrap().create_file().await.unwrap());
        let ov = AsyncVfsPath::new(AsyncOverlayFS::new(&[upper, lower]));
        ov.join("f").unwrap().remove_file().await.unwrap();
        let names: Vec<String> = ov.read_dir().await.unwrap().map(|p| p.filename()).collect().await;
        assert!(names.contains(&".whiteout".to_string()), "{:?}", names);
        assert!(ov.join(".whiteout").unwrap().exists().await.unwrap());
    });
}

/// async twin of F11 (C01/C09/C19/C15): a timestamp setter on a file served from a lower layer of an async overlay
/// over physical layers fails as not-found although the overlay shows the file.
#[cfg(feature = "async-vfs")]
#[test]
fn f11a_async_overlay_set_time_on_lower_file() {
    use vfs::async_vfs::*;
    let base = std::env::temp_dir().join(format!("vfs-f11a-{}", std::process::id()));
    std::fs::create_dir_all(base.join("upper")).unwrap();
    std::fs::create_dir_all(base.join("lower")).unwrap();
    std::fs::write(base.join("lower/f"), b"x").unwrap();
    let res = tokio_test::block_on(async {
        let lower = AsyncVfsPath::new(AsyncPhysicalFS::new(base.join("lower")));
        let upper = AsyncVfsPath::new(AsyncPhysicalFS::new(base.join("upper")));
        let ov = AsyncVfsPath::new(AsyncOverlayFS::new(&[upper, lower.clone()]));
        assert!(ov.join("f").unwrap().exists().await.unwrap());
        // directly on the layer the setter works
        lower.join("f").unwrap().set_modification_time(std::time::SystemTime::now()).await.unwrap();
        ov.join("f").unwrap().set_modification_time(std::time::SystemTime::now()).await
    });
    let _ = std::fs::remove_dir_all(&base);
    let err = res.expect_err("setter worked");
    assert!(matches!(err.kind(), vfs::error::VfsErrorKind::FileNotFound), "{:?}", err);
}

/// async twin of F18 (C16 A/R16.3): an async write handle dropped after its file and the parent directory were
/// removed re-creates the file as an orphan.
#[cfg(feature = "async-vfs")]
#[test]
fn f18a_async_late_drop_orphan() {
    use async_std::io::WriteExt;
    use vfs::async_vfs::*;
    let (root, f, h) = async_std::task::block_on(async {
        let root = AsyncVfsPath::new(AsyncMemoryFS::new());
        root.join("d").unwrap().create_dir().await.unwrap();
        let f = root.join("d/f").unwrap();
        let mut h = f.create_file().await.unwrap();
        h.write_all(b"x").await.unwrap();
        f.remove_file().await.unwrap();
        root.join("d").unwrap().remove_dir().await.unwrap();
        (root, f, h)
    });
    drop(h); // outside any executor (see F25)
    async_std::task::block_on(async {
        assert!(f.exists().await.unwrap() && !root.join("d").unwrap().exists().await.unwrap(), "no orphan");
    });
}

/// C08 R08.6 (F28): reading a file that the overlay serves from a lower MemoryFS layer re-times that layer's entry
/// (MemoryFS::open_file bumps the access time of what it opens).
#[test]
fn f28_overlay_read_retimes_lower_memory_layer() {
    let lower: VfsPath = MemoryFS::new().into();
    let upper: VfsPath = MemoryFS::new().into();
    let f = lower.join("f").unwrap();
    f.create_file().unwrap().write_all(b"x").unwrap();
    let stamp = std::time::SystemTime::UNIX_EPOCH + std::time::Duration::from_secs(1_000);
    f.set_access_time(stamp).unwrap();
    let ov: VfsPath = OverlayFS::new(&[upper, lower.clone()]).into();
    let _ = ov.join("f").unwrap().read_to_string().unwrap();
    assert_ne!(f.metadata().unwrap().accessed, Some(stamp), "lower layer not re-timed");
}

/// C09 R09.12 / C05 / C03 (F36): a file in an upper layer does not hide the directory a lower layer has at the same path:
/// `/d` is a file, yet `/d/x` exists.
#[test]
fn f36_overlay_file_does_not_hide_lower_directory() {
    let lower: VfsPath = MemoryFS::new().into();
    let upper: VfsPath = MemoryFS::new().into();
    lower.join("d").unwrap().create_dir().unwrap();
    lower.join("d/x").unwrap().create_file().unwrap();
    upper.join("d").unwrap().create_file().unwrap();
    let ov: VfsPath = OverlayFS::new(&[upper, lower]).into();
    assert!(ov.join("d").unwrap().is_file().unwrap(), "d is not a file");
    assert!(ov.join("d/x").unwrap().exists().unwrap(), "the entry below the file is hidden");
    assert!(ov.join("d").unwrap().read_dir().is_err(), "the file can be listed");
}

/// C10 R10.16 (F36 through a removal): layers [upper, middle{/d file}, bottom{/d/x}]: remove the file `/d`, re-create `/d` as a
/// directory — the re-created directory lists the bottom layer's `x`, which was never visible before.
#[test]
fn f36_overlay_recreated_directory_not_empty() {
    let bottom: VfsPath = MemoryFS::new().into();
    let middle: VfsPath = MemoryFS::new().into();
    let upper: VfsPath = MemoryFS::new().into();
    bottom.join("d").unwrap().create_dir().unwrap();
    bottom.join("d/x").unwrap().create_file().unwrap();
    middle.join("d").unwrap().create_file().unwrap();
    let ov: VfsPath = OverlayFS::new(&[upper, middle, bottom]).into();
    let d = ov.join("d").unwrap();
    assert!(d.is_file().unwrap());
    d.remove_file().unwrap();
    assert!(!d.exists().unwrap());
    d.create_dir().unwrap();
    let names: Vec<String> = d.read_dir().unwrap().map(|p| p.filename()).collect();
    assert_eq!(names, vec!["x".to_string()], "the re-created directory is empty");
}

/// async twin of F36.
#[cfg(feature = "async-vfs")]
#[test]
fn f36a_async_overlay_file_does_not_hide_lower_directory() {
    use vfs::async_vfs::*;
    tokio_test::block_on(async {
        let lower = AsyncVfsPath::new(AsyncMemoryFS::new());
        let upper = AsyncVfsPath::new(AsyncMemoryFS::new());
        lower.join("d").unwrap().create_dir().await.unwrap();
        drop(lower.join("d/x").unwrap().create_file().await.unwrap());
        drop(upper.join("d").unwrap().create_file().await.unwrap());
        let ov = AsyncVfsPath::new(AsyncOverlayFS::new(&[upper, lower]));
        assert!(ov.join("d").unwrap().is_file().await.unwrap(), "d is not a file");
        assert!(ov.join("d/x").unwrap().exists().await.unwrap(), "the entry below the file is hidden");
    });
}
