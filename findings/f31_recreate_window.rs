//! F31 (C17): OverlayFS::create_dir re-creates a previously removed directory in two steps — create it in the write
//! layer, then remove its deletion marker.  A second thread calling create_dir_all("/a/y") in between is told
//! DirectoryExists for "/a" (tolerated) and then fails on "/a/y" with "Parent path does not exist", because
//! exists("/a") still sees the marker.  No removal runs concurrently.
use std::fmt::Debug;
use std::sync::{Arc, Condvar, Mutex};
use std::time::SystemTime;
use vfs::error::VfsErrorKind;
use vfs::*;

#[derive(Debug)]
struct Gate {
    inner: MemoryFS,
    state: Arc<(Mutex<u8>, Condvar)>, // 0 = idle, 1 = first thread parked before unmarking, 2 = released
}

impl FileSystem for Gate {
    fn read_dir(&self, path: &str) -> VfsResult<Box<dyn Iterator<Item = String> + Send>> {
        self.inner.read_dir(path)
    }
    fn create_dir(&self, path: &str) -> VfsResult<()> {
        self.inner.create_dir(path)
    }
    fn open_file(&self, path: &str) -> VfsResult<Box<dyn SeekAndRead + Send>> {
        self.inner.open_file(path)
    }
    fn create_file(&self, path: &str) -> VfsResult<Box<dyn SeekAndWrite + Send>> {
        self.inner.create_file(path)
    }
    fn append_file(&self, path: &str) -> VfsResult<Box<dyn SeekAndWrite + Send>> {
        self.inner.append_file(path)
    }
    fn metadata(&self, path: &str) -> VfsResult<VfsMetadata> {
        self.inner.metadata(path)
    }
    fn set_creation_time(&self, path: &str, time: SystemTime) -> VfsResult<()> {
        self.inner.set_creation_time(path, time)
    }
    fn set_modification_time(&self, path: &str, time: SystemTime) -> VfsResult<()> {
        self.inner.set_modification_time(path, time)
    }
    fn set_access_time(&self, path: &str, time: SystemTime) -> VfsResult<()> {
        self.inner.set_access_time(path, time)
    }
    fn exists(&self, path: &str) -> VfsResult<bool> {
        self.inner.exists(path)
    }
    fn remove_file(&self, path: &str) -> VfsResult<()> {
        if path.starts_with("/.whiteout/") {
            // the first re-creator is about to remove the marker: park it until the second caller is done
            let (lock, cv) = &*self.state;
            let mut s = lock.lock().unwrap();
            if *s == 0 {
                *s = 1;
                cv.notify_all();
                while *s != 2 {
                    s = cv.wait(s).unwrap();
                }
            }
        }
        self.inner.remove_file(path)
    }
    fn remove_dir(&self, path: &str) -> VfsResult<()> {
        self.inner.remove_dir(path)
    }
}

#[test]
fn f31_create_dir_all_below_a_directory_that_is_being_recreated() {
    let state = Arc::new((Mutex::new(0u8), Condvar::new()));
    let lower: VfsPath = MemoryFS::new().into();
    lower.join("a").unwrap().create_dir().unwrap();
    let upper: VfsPath = VfsPath::new(Gate { inner: MemoryFS::new(), state: state.clone() });
    let ov: VfsPath = OverlayFS::new(&[upper, lower]).into();
    // history: /a was removed through the overlay (marker written); nothing is removed from now on
    {
        let (lock, _) = &*state;
        *lock.lock().unwrap() = 2; // let the bookkeeping of the removal through
    }
    ov.join("a").unwrap().remove_dir().unwrap();
    {
        let (lock, _) = &*state;
        *lock.lock().unwrap() = 0;
    }
    let ov1 = ov.clone();
    let t1 = std::thread::spawn(move || ov1.join("a").unwrap().create_dir_all());
    {
        let (lock, cv) = &*state;
        let mut s = lock.lock().unwrap();
        while *s != 1 {
            s = cv.wait(s).unwrap();
        }
    }
    // thread 1 has created /a in the write layer and is parked before removing the marker
    let r2 = ov.join("a/y").unwrap().create_dir_all();
    {
        let (lock, cv) = &*state;
        *lock.lock().unwrap() = 2;
        cv.notify_all();
    }
    let r1 = t1.join().unwrap();
    assert!(r1.is_ok(), "first caller failed: {:?}", r1);
    // the defect: the second caller fails although nothing was removed concurrently
    let e = r2.expect_err("second caller succeeded (defect repaired?)");
    assert!(matches!(e.kind(), VfsErrorKind::Other(_)), "{:?}", e);
    assert!(e.to_string().contains("Parent path does not exist") || format!("{:?}", e).contains("Parent path does not exist"), "{:?}", e);
}
