#!/usr/bin/env python3
"""Static checker entry point.

  check.py <Cxx> [--tier quick|thorough] [--repo DIR] [--facts FILE]

Extracts rustc MIR facts from the repository's *current working tree* (never a cached copy of the
source), runs the property's rules over them, compares the violations with known_findings.json,
writes evidence/<Cxx>.json and exits 0 (held / only known findings), 1 (new violation) or
2 (the analysis itself is broken).
"""
import argparse
import fcntl
import hashlib
import importlib
import json
import os
import subprocess
import sys
import time
import traceback

V = os.path.dirname(os.path.abspath(__file__))
sys.path.insert(0, V)

from analysis.facts import Facts  # noqa: E402
from analysis.report import Report  # noqa: E402

CONFIGS = {
    "all": ["--all-features"],
    "default": [],
    "embedded": ["--features", "embedded-fs"],
    "async": ["--features", "async-vfs"],
}


def tree_hash(repo):
    h = hashlib.sha256()
    paths = []
    for root, dirs, files in os.walk(os.path.join(repo, "src")):
        dirs.sort()
        for f in sorted(files):
            paths.append(os.path.join(root, f))
    for root, dirs, files in os.walk(os.path.join(repo, "test")):
        dirs.sort()
        for f in sorted(files):
            paths.append(os.path.join(root, f))
    for f in ("Cargo.toml", "Cargo.lock", "build.rs"):
        p = os.path.join(repo, f)
        if os.path.exists(p):
            paths.append(p)
    drv = os.path.join(V, "driver", "src", "main.rs")
    paths.append(drv)
    for p in paths:
        # relative names: two copies of the same tree (e.g. scratch copies with the same patch applied) share one cache entry
        h.update(os.path.relpath(p, V if p == drv else repo).encode())
        with open(p, "rb") as fh:
            h.update(fh.read())
    return h.hexdigest()[:20]


def extract(repo, config="all", crate="vfs"):
    """run the vfs-facts driver over `repo`; returns the path of the fact file (cached per tree hash).
    Locking: one lock per cache entry (two runs on the same tree extract once), one per cargo target directory (runs with
    different VFS_FACTS_TARGET directories extract in parallel), a short global one around eviction."""
    th = tree_hash(repo)
    cache = os.path.join(V, ".cache", "facts")
    os.makedirs(cache, exist_ok=True)
    out = os.path.join(cache, "%s-%s-%s.json" % (crate, config, th))
    target = os.environ.get("VFS_FACTS_TARGET") or os.path.join(V, ".cache", "target")
    entry_lock = open(os.path.join(cache, ".lock-%s-%s" % (config, th)), "w")
    fcntl.flock(entry_lock, fcntl.LOCK_EX)
    try:
        if os.path.exists(out) and os.path.getsize(out) > 0 and not os.environ.get("VFS_FACTS_NOCACHE"):
            os.utime(out, None)  # mark as in use: concurrent runs on other trees only evict entries idle for hours
            return out
        # evict cache entries that no run has touched for 2 hours (never a file another concurrent check may be about to
        # read: every cache hit refreshes the mtime under its entry lock)
        glock = open(os.path.join(cache, ".lock"), "w")
        fcntl.flock(glock, fcntl.LOCK_EX)
        try:
            now = time.time()
            entries = []
            for f in os.listdir(cache):
                fp_ = os.path.join(cache, f)
                try:
                    if f.startswith("%s-" % crate):
                        entries.append((os.path.getmtime(fp_), os.path.getsize(fp_), fp_))
                    elif f.startswith(".lock-") and now - os.path.getmtime(fp_) > 86400:
                        os.remove(fp_)
                except OSError:
                    pass
            entries.sort()
            total = sum(e[1] for e in entries)
            for mt, sz, fp_ in entries:
                # idle for 2 hours, or (cache above 3 GB) the least recently used ones that have been idle for 10 minutes
                if now - mt > 7200 or (total > 3 << 30 and now - mt > 600):
                    try:
                        os.remove(fp_)
                        total -= sz
                    except OSError:
                        pass
        finally:
            fcntl.flock(glock, fcntl.LOCK_UN)
            glock.close()
        tlock = open(os.path.join(cache, ".lock-target-%s" % hashlib.sha256(target.encode()).hexdigest()[:12]), "w")
        fcntl.flock(tlock, fcntl.LOCK_EX)
        try:
            tmp = out + ".tmp.%d" % os.getpid()
            cmd = [os.path.join(V, "bin", "extract.sh"), os.path.join(repo, "Cargo.toml"), crate, tmp] + CONFIGS[config]
            p = subprocess.run(cmd, stdout=subprocess.PIPE, stderr=subprocess.PIPE, text=True)
            if p.returncode != 0 or not os.path.exists(tmp):
                sys.stderr.write(p.stderr[-6000:])
                raise RuntimeError("fact extraction failed for config %s (the tree does not compile?)" % config)
            os.replace(tmp, out)
        finally:
            fcntl.flock(tlock, fcntl.LOCK_UN)
            tlock.close()
        return out
    finally:
        fcntl.flock(entry_lock, fcntl.LOCK_UN)
        entry_lock.close()


def load_known():
    p = os.path.join(V, "known_findings.json")
    if not os.path.exists(p):
        return []
    return json.load(open(p)).get("findings", [])


def run_property(pid, facts, tier, ctx):
    mod = importlib.import_module("analysis.props.%s" % pid.lower())
    rep = Report(pid)
    mod.run(facts, rep, tier, ctx)
    return rep, mod


def thorough_extras(pid, mod, rep, repo, ctx):
    """(a) re-run the rules on the other feature configurations (no cfg variant escapes the all-features facts);
    (b) self-test of the checker on the seeded corpus of this property and on the behaviour-preserving variants.
    (a) adds violations; (b) is recorded in the evidence only and never changes the verdict on /repo."""
    import glob
    import re
    import shutil
    import tempfile
    import analysis.terms as T
    info = {"configs": {}, "selftest": {}}
    main_keys = {o["key"] for o in rep.violations()}
    for cfg in ("default", "embedded", "async"):
        T._TRACERS.clear()
        f2 = Facts(extract(repo, cfg))
        r2 = Report(pid)
        r2.partial = True
        c2 = dict(ctx)
        c2["config"] = cfg
        mod.run(f2, r2, "quick", c2)
        extra = [o for o in r2.violations() if o["key"] not in main_keys]
        info["configs"][cfg] = {"bodies": len(f2.bodies), "obligations": len(r2.obligations), "extra_violations": len(extra)}
        for o in extra:
            rep.ob(o["rule"] + "@" + cfg, o["fn"], o["key"].split("|")[2], False,
                   "only in the `%s` feature configuration: %s" % (cfg, o["detail"]), o["loc"])
            main_keys.add(o["key"])
    T._TRACERS.clear()
    # (b) seeded corpus + variants, on scratch copies of `repo`
    base = {o["key"] for o in rep.violations()}
    os.environ["VFS_FACTS_TARGET"] = os.path.join(V, ".cache", "target-scratch")

    _ST.update({"repo": repo, "pid": pid, "ctx": ctx, "mod": mod, "base": base})
    seeds = sorted(glob.glob(os.path.join(V, "seeded", pid + "-m*")))
    variants = sorted(glob.glob(os.path.join(V, "variants", "v*.diff")))
    st = {"seeded_changes": [], "variants": [], "skipped_for_time": []}
    budget = float(os.environ.get("VERIF_SELFTEST_BUDGET", "1500"))
    jobs = int(os.environ.get("VERIF_SELFTEST_JOBS", "0") or 0) or max(1, min(6, (os.cpu_count() or 2) // 2))
    t_start = time.time()
    tasks = [("seed", os.path.basename(sd), os.path.join(sd, "patch.diff")) for sd in seeds] + \
            [("variant", os.path.basename(vf), vf) for vf in variants]
    results = {}
    if jobs > 1 and len(tasks) > 1:
        # scratch trees are independent: the patches are spread over worker processes (forked, so they share the loaded rule
        # module and the base keys); each worker extracts into a target directory of its own
        import multiprocessing
        mp = multiprocessing.get_context("fork")
        pool = mp.Pool(jobs)
        try:
            it = pool.imap(_selftest_worker, [t[2] for t in tasks])
            for t in tasks:
                left = budget - (time.time() - t_start)
                if left <= 0:
                    break
                try:
                    results[t[2]] = it.next(timeout=left)
                except multiprocessing.TimeoutError:
                    break
        finally:
            pool.terminate()
            pool.join()
    else:
        for t in tasks:
            if time.time() - t_start > budget:
                break
            results[t[2]] = _selftest_worker(t[2])
    for kind, name, patch in tasks:
        if patch not in results:
            st["skipped_for_time"].append(name)
            continue
        res = results[patch]
        if kind == "seed":
            st["seeded_changes"].append({"seed": name, "applies": res is not None,
                                         "reported": bool(res) if res not in (None, "does-not-compile") else None,
                                         "new_violation_keys": res[:4] if isinstance(res, list) else res})
        else:
            st["variants"].append({"variant": name, "applies": res is not None,
                                   "silent": (res == []) if isinstance(res, list) else None,
                                   "new_violation_keys": res[:4] if isinstance(res, list) else res})
    st["jobs"] = jobs
    info["selftest"] = st
    os.environ.pop("VFS_FACTS_TARGET", None)
    return info


_ST = {}


def _selftest_worker(patch):
    """apply one patch to a scratch copy of the tree and return the new violation keys of the property's rules on it
    (None: does not apply; "does-not-compile"; ["CRASH|..."]: the rule module raised on the mutant)"""
    import shutil
    import tempfile
    import multiprocessing
    import analysis.terms as T
    repo, pid, ctx, mod, base = _ST["repo"], _ST["pid"], _ST["ctx"], _ST["mod"], _ST["base"]
    ident = multiprocessing.current_process()._identity
    os.environ["VFS_FACTS_TARGET"] = os.path.join(V, ".cache", "target-scratch" + ("-%d" % ident[0] if ident else ""))
    w = tempfile.mkdtemp(prefix="selftest.")
    try:
        r = os.path.join(w, "r")
        subprocess.run(["rsync", "-a", "--exclude", "target", "--exclude", ".git", repo.rstrip("/") + "/", r + "/"], check=True)
        p = subprocess.run(["git", "apply", patch], cwd=r, capture_output=True, text=True)
        if p.returncode != 0:
            return None
        try:
            fp = extract(r, "all")
        except Exception:
            return "does-not-compile"
        f3 = Facts(fp)
        r3 = Report(pid)
        c3 = dict(ctx)
        c3["repo"] = r
        try:
            mod.run(f3, r3, "quick", c3)
        except Exception as e:  # the self-test never decides the verdict on /repo; a crash on a mutant is an alarm there
            T._TRACERS.clear()
            return ["CRASH|%s: %s" % (type(e).__name__, str(e)[:80])]
        T._TRACERS.clear()
        return sorted(o["key"] for o in r3.violations() if o["key"] not in base)
    finally:
        shutil.rmtree(w, ignore_errors=True)


def main():
    ap = argparse.ArgumentParser()
    ap.add_argument("prop")
    ap.add_argument("--tier", default=os.environ.get("VERIF_TIER", "quick"))
    ap.add_argument("--repo", default="/repo")
    ap.add_argument("--facts", default=None)
    ap.add_argument("--no-evidence", action="store_true")
    ap.add_argument("--quiet", action="store_true")
    ap.add_argument("--list", action="store_true", help="print every obligation")
    a = ap.parse_args()
    pid = a.prop.upper()
    tier = a.tier if a.tier in ("quick", "thorough") else "quick"
    seed = int(os.environ.get("VERIF_SEED", "0") or 0)
    t0 = time.time()
    ev_path = os.path.join(V, "evidence", "%s.json" % pid)
    try:
        fpath = a.facts or extract(a.repo, "all")
        facts = Facts(fpath)
        if facts.crate != "vfs" or len(facts.bodies) < 100:
            raise RuntimeError("fact file does not describe the vfs crate (%d bodies)" % len(facts.bodies))
        ctx = {"repo": a.repo, "tier": tier, "V": V, "extract": extract, "facts_path": fpath, "seed": seed}
        rep, mod = run_property(pid, facts, tier, ctx)
    except Exception:
        traceback.print_exc()
        print("BROKEN property=%s analysis failed (exit 2)" % pid)
        sys.exit(2)

    thorough_info = {}
    if tier == "thorough":
        try:
            thorough_info = thorough_extras(pid, mod, rep, a.repo, ctx)
        except Exception:
            traceback.print_exc()
            print("BROKEN property=%s thorough extras failed (exit 2)" % pid)
            sys.exit(2)

    known = [k for k in load_known() if k.get("property") == pid]
    known_keys = {k["key"]: k for k in known if k.get("status") == "known"}
    viol = rep.violations()
    new = [v for v in viol if v["key"] not in known_keys]
    matched = [v for v in viol if v["key"] in known_keys]
    n, d = rep.summary()

    if a.list:
        for o in rep.obligations:
            print("%s %s  %s  %s" % ("ok  " if o["ok"] else "FAIL", o["key"], o["loc"], o["detail"][:160]))
    for v in matched:
        k = known_keys[v["key"]]
        print("KNOWN-FINDING: property=%s %s [%s] (%s)" % (pid, k.get("what", v["detail"]), v["key"], v["loc"]))
    replay = None
    if new:
        os.makedirs(os.path.join(V, "evidence", "replay"), exist_ok=True)
        replay = os.path.join(V, "evidence", "replay", "%s.json" % pid)
        json.dump({"property": pid, "tier": tier, "violations": new,
                   "how_to_replay": "python3 /verif/check.py %s --tier %s --list" % (pid, tier)},
                  open(replay, "w"), indent=1)
        for v in new:
            print("  violation %s\n      at %s\n      %s" % (v["key"], v["loc"], v["detail"]))
        print("VIOLATION property=%s replay=%s" % (pid, replay))

    if not a.no_evidence:
        samples = []
        for o in rep.obligations:
            if len(samples) >= 12:
                break
            if o["rule"] != "FLOOR":
                samples.append({"obligation": o["key"], "verdict": "discharged" if o["ok"] else "violated",
                                "at": o["loc"], "detail": o["detail"][:300]})
        # make sure failing ones are visible in samples
        for o in viol[:8]:
            s = {"obligation": o["key"], "verdict": "violated" if o["key"] not in known_keys else "known-finding",
                 "at": o["loc"], "detail": o["detail"][:300]}
            if s not in samples:
                samples.append(s)
        rules = sorted({o["rule"] for o in rep.obligations})
        ev = {
            "property_id": pid,
            "tier": tier,
            "seed": seed,
            "level": "other",
            "coverage": {
                "explanation": getattr(mod, "EXPLANATION", "static analysis over rustc mir_built facts of /repo's working tree"),
                "obligations": n,
                "discharged": d,
                "known_findings_matched": len(matched),
                "new_violations": len(new),
                "rules": rules,
                "rule_instance_counts": [{"name": c[0], "measured": c[1], "floor": c[2]} for c in rep.counts],
                "functions_analysed": len(rep.analysed),
                "functions": sorted(rep.analysed)[:400],
                "bodies_in_fact_file": len(facts.bodies),
                "fact_file_tree_hash": os.path.basename(fpath),
                "samples": samples,
                "notes": rep.notes,
                "thorough": thorough_info,
                "checker_cmd": "python3 /verif/check.py %s --tier %s" % (pid, tier),
                "exhaustive": True,
                "evaluations": max(n, 1),
                "distinct_nontrivial": max(len({o["key"] for o in rep.obligations if o["rule"] != "FLOOR"}), 2),
                "rule": "one evaluation = one static obligation (rule instance at a code site); distinct = distinct violation keys",
            },
            "assumptions": rep.assumptions,
            "wall_s": round(time.time() - t0, 2),
            "violations": len(new),
        }
        os.makedirs(os.path.dirname(ev_path), exist_ok=True)
        json.dump(ev, open(ev_path, "w"), indent=1)
    if not a.quiet:
        print("%s %s: %d obligations, %d discharged, %d known findings, %d new violations, %d functions (%.1fs)" % (
            pid, tier, n, d, len(matched), len(new), len(rep.analysed), time.time() - t0))
    sys.exit(1 if new else 0)


if __name__ == "__main__":
    main()
