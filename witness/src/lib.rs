//! Compile-fail witnesses for the type-level remainder of C12 and C18.
//! Each `compile_fail,E0xxx` doctest is paired with a compiling twin that differs only by the offending
//! construct, so a witness whose path is merely wrong cannot pass vacuously.
//! Run with `cargo +nightly test --doc` (stable ignores the error code).

/// C12 R12.4: a `VfsError` cannot be built literally outside the crate (it must go through
/// `From<VfsErrorKind>`, which normalises NotFound and sets the placeholder path).
/// ```compile_fail,E0451
/// let _e = vfs::VfsError {
///     path: String::new(),
///     kind: vfs::error::VfsErrorKind::NotSupported,
///     context: String::new(),
///     cause: None,
/// };
/// ```
/// Twin: the sanctioned construction compiles.
/// ```
/// let _e: vfs::VfsError = vfs::error::VfsErrorKind::NotSupported.into();
/// ```
pub struct C12LiteralConstruction;

/// C12 R12.4: a foreign backend cannot forge a label: `with_path` is crate-private.
/// ```compile_fail,E0624
/// let e: vfs::VfsError = vfs::error::VfsErrorKind::NotSupported.into();
/// let _e = e.with_path("/forged");
/// ```
/// Twin: the public sibling `with_context` compiles.
/// ```
/// let e: vfs::VfsError = vfs::error::VfsErrorKind::NotSupported.into();
/// let _e = e.with_context(|| "context");
/// ```
pub struct C12Relabel;

/// C12 R12.4: the kind of an existing error cannot be rewritten from outside (private field).
/// ```compile_fail,E0616
/// let mut e: vfs::VfsError = vfs::error::VfsErrorKind::NotSupported.into();
/// e.kind = vfs::error::VfsErrorKind::FileNotFound;
/// ```
/// Twin: reading the kind through the accessor compiles.
/// ```
/// let e: vfs::VfsError = vfs::error::VfsErrorKind::NotSupported.into();
/// let _k = e.kind();
/// ```
pub struct C12KindRewrite;

/// C18 R18.2: the index maps of an `EmbeddedFS` cannot be reached from outside the crate.
/// ```compile_fail,E0616
/// #[derive(rust_embed::RustEmbed, Debug)]
/// #[folder = "embed_fixture"]
/// struct Assets;
/// let fs = vfs::EmbeddedFS::<Assets>::new();
/// let _n = fs.files.len();
/// ```
/// ```compile_fail,E0616
/// #[derive(rust_embed::RustEmbed, Debug)]
/// #[folder = "embed_fixture"]
/// struct Assets;
/// let fs = vfs::EmbeddedFS::<Assets>::new();
/// let _n = fs.directory_map.len();
/// ```
/// Twin: the same setup using only the public read API compiles (and every trait method takes `&self`).
/// ```
/// use vfs::FileSystem;
/// #[derive(rust_embed::RustEmbed, Debug)]
/// #[folder = "embed_fixture"]
/// struct Assets;
/// let fs = vfs::EmbeddedFS::<Assets>::new();
/// let shared: &vfs::EmbeddedFS<Assets> = &fs;
/// let _ = shared.exists("/a.txt");
/// ```
pub struct C18NoMutableAccess;
