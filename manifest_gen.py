#!/usr/bin/env python3
"""Regenerates MANIFEST.json from the table below (keeps it schema-valid at all times)."""
import json, os
V = os.path.dirname(os.path.abspath(__file__))
PROPS = [json.loads(l) for l in open(os.path.join(V, "properties.jsonl"))]

# property id -> (technique, level text, level note, design ref)
CLAIMED = {
    "C01": ("guard-dominance analysis over rustc MIR against operation-contract tables (Tables P/M/O), failure-atomicity reachability",
            "For every mutation / hand-out site of MemoryFS and every backend call of the path layer the dominating branch outcomes (expanded through in-crate callees) must contain the operation's documented preconditions; missing targets build FileNotFound, occupied create_dir reports by occupant type; no mutation is followed by an Err return; PhysicalFS operations consist of exactly their std call; adapters re-use C07/C09 rules.",
            "Decides precondition/refusal/error-kind clauses for all histories; 'a successful call changes exactly the named entries' is not decided. Table O is frozen from POSIX/Linux semantics.", "DESIGN.md §4 C01"),
    "C02": ("sibling cross-check (MemoryFS guards as found in MIR vs OS-enforced guards of the std callee PhysicalFS uses)",
            "Operation by operation the guard set found in MemoryFS's code is compared with the guard set the OS enforces for the std call PhysicalFS makes (callee read from the MIR, enforced set from the frozen Table O, plus guards PhysicalFS codes itself); error classes compared through the normalisation rules; Table P is backend independent.",
            "Decides that both backends refuse the same calls with the same error classes; equality of resulting trees/bytes is not decided.", "DESIGN.md §4 C02"),
    "C03": ("invariant-preservation obligations per mutation site (guard dominance over rustc MIR)",
            "Inductive step of tree well-formedness: every add site guarded by parent-exists (+ parent-is-directory in the path layer), every overwrite by not-a-directory, every remove by type and emptiness, overlay removals/creations by union guards, writer publication re-validation; root constructed as a directory.",
            "Interleavings are C16's rule; symlink games on PhysicalFS out of scope.", "DESIGN.md §4 C03"),
    "C06": ("guard-dominance and value-origin analysis of the joiner and accessors over rustc MIR",
            "Component filter ('.', '..', empty) dominates the only push; base selection and the single parent fallback; trailing-slash rejection exactly on its edge before any component; results assembled only from base and '/'+component; one shared implementation for sync/async paths; equality = string ∧ Arc::ptr_eq; filename/extension shape; no undischarged panic site.",
            "Necessary conditions for canonical form and root confinement; that the output equals lexical resolution for every string (and the composition law) is functional correctness over all strings and is not decided by this family.", "DESIGN.md §4 C06"),
    "C07": ("value-origin analysis + delegation table over rustc MIR (single gate, strip edges, exact delegation)",
            "AltrootFS (sync+async): root field read only in the translator; join argument stripped exactly on the leading-'/' edge; every FileSystem method makes exactly one inner call of the same name on translator(own argument) and returns its result unchanged (three reasoned exceptions); listings return bare names; PhysicalFS::get_path strips on every path that starts with '/'; C06 joiner rules shared.",
            "Lexical confinement only (symlinks out of scope, as the property states); outcome equality beyond delegation identity is the inner filesystem's contract (C01).", "DESIGN.md §4 C07"),
    "C09": ("guard-dominance analysis on union predicates (Table U), resolver order, merged-listing shape, marker protocol (shared with C10)",
            "Each upper-layer mutation of the overlay must be dominated (per path where needed) by the operation's preconditions evaluated on the union view; resolver consults the marker first and visits layers in order; listing merges all layers into a set and subtracts markers by exact suffix; removal/re-creation rest on the marker protocol.",
            "Value-level union semantics (type conflicts across layers, bytes) not decided.", "DESIGN.md §4 C09"),
    "C10": ("pairing / must-pass-through / who-may-call analysis of the whiteout-marker protocol over rustc MIR",
            "Marker created on every success return of remove_* (tail calls count as success returns) and after the upper copy is removed; consulted before every layer lookup; on re-creation exactly the path's own marker is removed and only after the upper create; nothing else in the overlay touches the marker namespace; reserved namespace hidden (known finding).",
            "Listing contents are value-level; reserved names are excluded from the property's domain.", "DESIGN.md §4 C10"),
    "C08": ("effect + provenance analysis over rustc MIR (mutated-operand origin, observer purity)",
            "Static effect/provenance analysis of every call site reachable from OverlayFS (sync and async): each path operand in a mutated position must originate from layers[0]; observers must reach no mutating call. Necessary and, under the stated assumption, sufficient for the property, for all histories/inputs/stackings at once.",
            "Assumes a layer's own observing methods do not mutate that layer (checked as a note for in-crate backends, assumed for foreign FileSystem impls); trusts rustc's MIR and callee resolution.", "DESIGN.md §4 C08"),
    "C12": ("typestate analysis (labelled/unlabelled VfsError) + who-may-construct + field-footprint rules over rustc MIR; compile-fail witnesses (thorough)",
            "Every error that a path-layer function can return is traced to its sources over the MIR; backend/std results and fresh constructions must pass through with_path with a caller-namespace string. error.rs: VfsError literal only in From<VfsErrorKind> (NotFound normalisation), with_* helpers never touch `kind`, optional trait defaults build NotSupported. Covers all failing calls/states/stackings because the rule is over code paths, not executions.",
            "Decides labelling and the classification constructs, not message texts; trusts rustc MIR and the closure-inlining of map_err closures; adapters may return inner paths by design (the outer path layer relabels).", "DESIGN.md §4 C12"),
    "C13": ("panic-site inventory over rustc MIR with machine-checked discharge idioms and reviewed records; clippy cross-reference (thorough)",
            "All Assert terminators and all calls into a frozen table of panicking std callees in every function of the crate (sync, embedded, async) must be proven unreachable by a guard/origin idiom or a reviewed record whose premises are re-checked each run. Proof-style necessary-and-sufficient for the inventoried panic classes; errs towards alarm.",
            "Not covered: allocation failure, stack overflow, panics inside std/dependencies on valid arguments, async 'resumed after completion' (covered structurally by C15 R15.4). Assumes the FileSystem path contract and std/rust-embed contracts listed in the evidence.", "DESIGN.md §4 C13"),
    "C16": ("lock-region analysis over rustc MIR (guard live ranges, lock events per path, re-entrancy, publication re-validation)",
            "Sufficient structural conditions for per-call linearizability of MemoryFS under every schedule: one critical section per operation, no lock event under a live guard (incl. callees/closures), no panic under the lock, writer publication re-validates. Violations of the sufficient condition are triaged (known findings / reviewed exceptions).",
            "Sufficient, not necessary: a flagged method is a finding only after reading (R16.4 exceptions). Assumes std RwLock semantics and that all map accesses go through the guard (type system).", "DESIGN.md §4 C16"),
    "C20": ("Result-consumer classification + Err-edge reachability over rustc MIR with a frozen escape table",
            "In adapters and the path layer (sync+async) the Err of every Result<_, VfsError|io::Error> may only propagate, be preserved, or be matched with all non-escape arms leading to error returns; discarding combinators, unused results and Err edges reaching a success return are violations unless the error stems from pure path computation or a listed escape (NotSupported fast paths, DirectoryExists in create_dir_all, FileNotFound in overlay exists). Covers every fault position k at once.",
            "Does not decide whether an alternative route reproduces the full effect, nor partial effects left behind by a failed composite; panicking consumers are C13's concern.", "DESIGN.md §4 C20"),
}
NA_REASON = "check not implemented yet (build in progress); design in DESIGN.md"

def main():
    checks = []
    na = []
    for p in PROPS:
        pid = p["id"]
        if pid in CLAIMED:
            tech, text, note, ref = CLAIMED[pid]
            checks.append({
                "property_id": pid,
                "quick_cmd": "python3 /verif/check.py %s --tier quick" % pid,
                "thorough_cmd": "python3 /verif/check.py %s --tier thorough" % pid,
                "evidence_file": "/verif/evidence/%s.json" % pid,
                "replay_cmd_template": "python3 /verif/check.py %s --list" % pid,
                "engine": "vfs-facts+rules",
                "level_claimed": {"category": "other", "text": text, "design_ref": ref},
                "level_note": note,
                "technique": tech,
            })
        else:
            na.append({"property_id": pid, "reason": NA_REASON})
    m = {
        "version": 1,
        "setup_cmd": "cd /verif && bash bin/setup.sh",
        "hooks": {"guard": "vfs_static_verif_never_set",
                  "enable": "none: static analysis reads /repo's source as it is; no hooks exist in /repo",
                  "baseline_off_cmd": "cd /repo && cargo test --workspace --no-fail-fast --offline",
                  "source_commits": [], "add_only": True},
        "engines": [{"name": "vfs-facts+rules", "path": "/verif/driver + /verif/analysis",
                     "serves_properties": sorted(CLAIMED),
                     "kind_free_text": "static analysis: rustc_private driver dumps type-checked mir_built facts of /repo's working tree; Python rule interpreter (dominators, guard facts, value origins, summaries) decides per-property rule tables"}],
        "checks": checks,
        "not_applicable": na,
        "notes": "All checks are static analyses over rustc's MIR of /repo's current working tree; no vfs code is executed. See DESIGN.md.",
    }
    json.dump(m, open(os.path.join(V, "MANIFEST.json"), "w"), indent=1)
    print("claimed:", len(checks), "not_applicable:", len(na))

if __name__ == "__main__":
    main()
